"""C20 - boot sends the complete image carrying this call's options only.

D: BootDesign.tla - the boot procedure as a state machine for a shrunken protocol: every option set and image
   length for every boot of a short history; the clauses of Boot.tla are its invariants.  Two further
   configurations with a leaking (shared) option dictionary MUST violate the history clauses (non-vacuity).
T: the real rig.machine_control.boot.boot() and MachineController.boot() with the network and the clock
   replaced from outside (module attributes boot.socket / boot.time, scp_connection.socket / .select / .time,
   machine_controller.time); no real socket is ever opened.  One trace = the boots of ONE fresh process
   (a forked child of this harness, which itself never boots), judged by BootTrace.tla.

This file contains no oracle: it calls rig, records what the caller wrote (options, image, board) and what
came out (datagrams, returned structs, exception class names) and encodes that mechanically.
"""
import multiprocessing
import os
import random
import re
import struct
import tempfile
import warnings

from rig.machine_control import boot as rig_boot
from rig.machine_control import machine_controller, scp_connection
from rig.machine_control.machine_controller import MachineController

from ..core import MachineryError, NCPU, RIG_ROOT

DOCUMENTED_BOOT_PORT = 54321           # the SpiNNaker boot port (consts.BOOT_PORT documents the same number)
BOOT_MANAGED = ("unix_time", "boot_sig", "root_chip")    # filled in by boot itself: never generated as options
# system variables named like a parameter of boot() itself cannot be given as keyword options
BOOT_PARAMETERS = ("boot_delay", "post_boot_delay", "boot_port", "hostname", "scamp_binary", "sark_struct",
                   "sv_overrides", "width", "height", "only_if_needed", "check_booted")
SIZE_LIMIT = 32 * 1024                 # images must be smaller than DTCM
MIN_IMAGE = 384 + 128                  # an image has to contain the configuration area


# ---------------------------------------------------------------------------------- environment (fakes)
class VirtualClock(object):
    """Stands in for the `time` module: sleeping advances it, nothing waits."""

    def __init__(self, start=1500000000.0):
        self.now = start
        self.slept = []

    def time(self):
        self.now += 0.001
        return self.now

    def sleep(self, seconds):
        self.slept.append(seconds)
        self.now += seconds


class Recorder(object):
    def __init__(self):
        self.sent = []          # (tag, bytes, destination)
        self.opened = 0
        self.fail_at = None     # index into `sent` at which the next send() fails once (an injected socket error)


class FakeSocket(object):
    def __init__(self, rec, tag, *args):
        self.rec, self.tag, self.addr = rec, tag, None
        rec.opened += 1

    def connect(self, addr):
        self.addr = addr

    def send(self, data):
        if self.rec.fail_at is not None and len(self.rec.sent) >= self.rec.fail_at:
            self.rec.fail_at = None
            raise IOError(111, "Connection refused")        # a transient error of the operating system
        self.rec.sent.append((self.tag, bytes(data), self.addr))
        return len(data)

    def sendto(self, data, addr):
        self.rec.sent.append((self.tag, bytes(data), addr))
        return len(data)

    def recv(self, n):
        raise IOError("nothing to receive: the board is silent")

    def close(self):
        pass

    def settimeout(self, t):
        pass

    def setblocking(self, b):
        pass

    def setsockopt(self, *a):
        pass

    def fileno(self):
        return -1


class FakeSocketModule(object):
    """Stands in for the `socket` module of one rig module."""
    AF_INET, SOCK_DGRAM, SOL_SOCKET, SO_REUSEADDR = 2, 2, 1, 2
    error = IOError
    timeout = IOError

    def __init__(self, rec, tag):
        self.rec, self.tag = rec, tag

    def socket(self, *args):
        return FakeSocket(self.rec, self.tag, *args)


class FakeSelect(object):
    """Stands in for the `select` module: nothing ever becomes readable, the time-out elapses at once."""

    def __init__(self, clock):
        self.clock = clock

    def select(self, r, w, x, timeout=0.0):
        self.clock.now += max(timeout or 0.0, 0.0) + 0.001
        return [], [], []


# ---------------------------------------------------------------------------------- mechanical encodings
def le4(v):
    return list(int(v).to_bytes(4, "little")) if isinstance(v, int) and 0 <= v < 2 ** 32 else []


def project_sv(structs):
    """Fields of the returned b"sv" struct as [name, bytes per element, offset, default LE4, elements]."""
    out = []
    for name, f in structs[b"sv"].fields.items():
        out.append([name.decode("ascii"), struct.calcsize(b"<" + f.pack_chars), f.offset, le4(f.default),
                    f.length])
    out.sort(key=lambda r: (r[2], r[0]))
    return out


def sv_catalogue():
    """(name, width) of the system variables that can be given as options - read mechanically from the
    bundled struct file, only to generate option sets inside the property's domain."""
    width = {b"C": 1, b"c": 1, b"v": 2, b"V": 4}
    cur, seen, out = None, {}, []
    with open(os.path.join(RIG_ROOT, "rig", "boot", "sark.struct"), "rb") as f:
        for line in f.read().splitlines():
            t = line.split(b"#")[0].split()
            if len(t) == 3 and t[0] == b"name":
                cur = t[2]
            elif len(t) == 5 and cur == b"sv":
                name = re.sub(br"\[\d+\]$", b"", t[0]).decode("ascii")
                seen[name] = seen.get(name, 0) + 1
                out.append((name, width[t[1]]))
    return [(n, w) for n, w in out if seen[n] == 1 and n not in BOOT_MANAGED]


def render_struct(defaults):
    """The text of a caller's own struct file: the bundled sark.struct in which the default column of the named
    `sv` variables is rewritten (odd values in hexadecimal, even ones in decimal - the format documents both);
    with no names the text is the bundled file byte for byte."""
    with open(os.path.join(RIG_ROOT, "rig", "boot", "sark.struct"), "rb") as f:
        lines = f.read().split(b"\n")
    cur, out = None, []
    for line in lines:
        t = line.split(b"#")[0].split()
        if len(t) == 3 and t[0] == b"name":
            cur = t[2]
        elif len(t) == 5 and cur == b"sv":
            name = re.sub(br"\[\d+\]$", b"", t[0]).decode("ascii")
            if name in defaults:
                m = re.match(br"^(\s*\S+\s+\S+\s+\S+\s+\S+\s+)(\S+)(.*)$", line, re.S)
                v = defaults[name]
                line = m.group(1) + (b"0x%x" % v if v % 2 else b"%d" % v) + m.group(3)
        out.append(line)
    return b"\n".join(out)


# ---------------------------------------------------------------------------------- one history, one process
def _run_history(h):
    """Runs in a freshly forked child: perform the boots of history h, return the trace."""
    clock, rec = VirtualClock(), Recorder()
    rig_boot.socket = FakeSocketModule(rec, "boot")
    rig_boot.time = clock
    scp_connection.socket = FakeSocketModule(rec, "scp")
    scp_connection.select = FakeSelect(clock)
    scp_connection.time = clock
    machine_controller.time = clock
    if hasattr(machine_controller, "socket"):
        machine_controller.socket = FakeSocketModule(rec, "mc")
    caller_dicts = [dict(d) for d in h["dicts"]]          # the caller's own dictionaries, made once
    written = [dict(d) for d in h["dicts"]]               # what the caller wrote into them so far (the record)
    paths = []
    struct_paths, held, mcs = [], [], {}
    tmpdir = tempfile.mkdtemp(prefix="rigverif-c20-img-")
    for k, img in enumerate(h["images"]):
        p = os.path.join(tmpdir, "image%d.boot" % k)
        with open(p, "wb") as f:
            f.write(bytes(img))
        paths.append(p)
    evs = []
    one_path = os.path.join(tmpdir, "current.boot")
    paths.append(one_path)
    with open(one_path, "wb") as f:
        f.write(b"")
    # the caller's own struct files: the bundled one with other defaults for some system variables
    for k, spec in enumerate(h.get("structs", [])):
        p = os.path.join(tmpdir, "sark%d.struct" % k)
        with open(p, "wb") as f:
            f.write(render_struct(spec))
        struct_paths.append(p)
    one_struct = os.path.join(tmpdir, "current.struct")
    struct_paths.append(one_struct)
    with open(one_struct, "wb") as f:
        f.write(b"")
    try:
        for b in h["boots"]:
            if b["dict"] is not None and b.get("edit"):
                # the caller changes its own dictionary in place between two boots (None: removes the name)
                for n, v in sorted(b["edit"].items()):
                    for d in (caller_dicts[b["dict"]], written[b["dict"]]):
                        if v is None:
                            d.pop(n, None)
                        else:
                            d[n] = v
            intended = dict(written[b["dict"]]) if b["dict"] is not None else {}
            intended.update(b["kw"])
            kwargs = dict(b["kw"])
            kwargs.update(b.get("extra") or {})           # explicit non-option arguments (delays, width/height)
            if b["dict"] is not None:
                kwargs["sv_overrides"] = caller_dicts[b["dict"]]
            svdef = {}
            if b.get("struct") is not None:
                svdef = h["structs"][b["struct"]]
                kwargs["sark_struct"] = struct_paths[b["struct"]]
                if h.get("one_struct_path"):
                    # the caller keeps ONE struct file name and regenerates the file before each boot
                    kwargs["sark_struct"] = one_struct
                    with open(one_struct, "wb") as f:
                        f.write(render_struct(svdef))
            if b["image"] is not None:
                kwargs["scamp_binary"] = paths[b["image"]]
                image = bytes(h["images"][b["image"]])
                if h.get("one_path"):
                    # the caller keeps ONE file name and rebuilds the image in place before each boot
                    kwargs["scamp_binary"] = one_path
                    with open(one_path, "wb") as f:
                        f.write(image)
            else:
                with open(os.path.join(RIG_ROOT, "rig", "boot", "scamp.boot"), "rb") as f:
                    image = f.read()
            port = b["port"] if b["port"] is not None else DOCUMENTED_BOOT_PORT
            first = len(rec.sent)
            structs, result = None, ["return"]
            rec.fail_at = (first + b["fault"]) if b.get("fault") else None
            try:
                if b["via"] == "boot":
                    if b["port"] is not None:
                        kwargs["boot_port"] = b["port"]
                    structs = rig_boot.boot(b["host"], **kwargs)
                else:
                    mc = mcs.get(b.get("mc_obj"))         # one controller object may boot more than once
                    if mc is None:
                        mc = (MachineController(b["host"]) if b["port"] is None else
                              MachineController(b["host"], boot_port=b["port"]))
                        if b.get("mc_obj") is not None:
                            mcs[b["mc_obj"]] = mc
                    with warnings.catch_warnings():
                        warnings.simplefilter("ignore")   # width / height are documented as deprecated and ignored
                        mc.boot(only_if_needed=(b["via"] == "mc_if_needed"), check_booted=False, **kwargs)
                    structs = mc.structs
            except Exception as ex:      # judged by the spec (clause BootCompletes)
                result = ["raise", type(ex).__name__]
            fault_hit = int(bool(b.get("fault")) and rec.fail_at is None)
            rec.fail_at = None
            try:
                sv = project_sv(structs)
            except Exception:            # not struct definitions at all: an empty list, which the spec rejects
                sv = []
            mine = [s for s in rec.sent[first:] if s[0] == "boot"]
            words_mismatch = sum(1 for s in mine if len(s[1]) > 18 and s[1][5] == 3 and
                                 (int.from_bytes(s[1][6:10], "big") >> 8) + 1 != (len(s[1]) - 18) // 4)
            after = dict(caller_dicts[b["dict"]]) if b["dict"] is not None else {}
            held.append(structs)          # the caller keeps what each boot returned (projected again at the end)
            evs.append(["boot", dict(
                via=b["via"], host=b["host"], port=port,
                opts=[[n, le4(v)] for n, v in sorted(intended.items())],
                image=list(image),
                dg=[list(s[1]) for s in mine],
                dst=[[s[2][0], s[2][1]] if s[2] else ["", -1] for s in mine],
                result=result,
                fault=fault_hit,          # 1: one send() of this boot was made to fail by the environment
                sv=sv,
                # the struct file of this call: the bundled one except for these defaults of `sv` variables
                svdef=[[n, v] for n, v in sorted(svdef.items())],
                info=dict(dict=-1 if b["dict"] is None else b["dict"],
                          struct=-1 if b.get("struct") is None else b["struct"],
                          extra=sorted((b.get("extra") or {}).keys()),
                          mc_obj=-1 if b.get("mc_obj") is None else b["mc_obj"],
                          edited=int(bool(b.get("edit"))),
                          caller_dict_changed=int(b["dict"] is not None and after != written[b["dict"]]),
                          announced_words_differ=words_mismatch,
                          scp_datagrams=sum(1 for s in rec.sent[first:] if s[0] != "boot")))])
        # what the struct definitions returned by each boot say NOW, after all the later boots of the process
        again = []
        for structs in held:
            try:
                again.append(project_sv(structs))
            except Exception:
                again.append([])
        evs.append(["end", len(h["boots"]), again])
    finally:
        for p in paths + struct_paths:
            os.remove(p)
        os.rmdir(tmpdir)
    return dict(label=h["label"], ev=evs)


def with_faults(rng, histories, share):
    """copies of some histories in which one datagram of one plain boot() fails to be sent"""
    out = []
    for h in histories:
        plain = [k for k, b in enumerate(h["boots"]) if b["via"] == "boot"]
        if plain and rng.random() < share:
            h2 = dict(h, boots=[dict(b) for b in h["boots"]], label=h["label"] + "+sendfault")
            h2["boots"][rng.choice(plain)]["fault"] = rng.randint(1, 6)
            out.append(h2)
    return out


def run_histories(histories):
    """Each history in its own freshly forked process (this process never calls boot itself)."""
    ctx = multiprocessing.get_context("fork")
    with ctx.Pool(processes=NCPU, maxtasksperchild=1) as pool:
        return pool.map(_run_history, histories, chunksize=1)


# ---------------------------------------------------------------------------------- input generation
def make_image(rng, n):
    return [rng.randrange(256) for _ in range(n)]


def presets():
    return {k: dict(getattr(rig_boot, "spin%d_boot_options" % k)) for k in (1, 2, 3, 4, 5)}


def call_styles():
    """The alphabet of the exhaustive small-scope histories: (via, dict index or None, keyword options)."""
    ps = presets()
    return [
        ("none", dict(via="boot", dict=None, kw={})),
        ("kw-spin3", dict(via="boot", dict=None, kw=ps[3])),
        ("mc-kw-spin5", dict(via="mc", dict=None, kw=ps[5])),
        ("dict0", dict(via="boot", dict=0, kw={})),
        ("dict0+kw", dict(via="boot", dict=0, kw={"led1": 0x55, "cpu_clk": 150})),
        ("kw-any", dict(via="boot", dict=None, kw={"p2p_dims": 0x0808, "shm_root.free": 0xFEDCBA98, "num_cpus": 17})),
        ("mc-none", dict(via="mc_if_needed", dict=None, kw={})),
    ]


def small_histories(chk, rng):
    styles = call_styles()
    d0 = presets()[2]
    sizes = [512, 1024, 1028, 2048]
    images = [make_image(rng, n) for n in sizes]
    seqs = [(a,) for a in range(len(styles))] + [(a, b) for a in range(len(styles)) for b in range(len(styles))]
    triples = [(a, b, c) for a in range(len(styles)) for b in range(len(styles)) for c in range(len(styles))]
    limit = chk.pick(40, len(triples))
    seqs += triples if limit >= len(triples) else rng.sample(triples, limit)
    chk.extra["small_histories_exhaustive_to_length"] = 3 if limit >= len(triples) else 2
    chk.extra["small_histories_alphabet"] = [s[0] for s in styles]
    for k, q in enumerate(seqs):
        boots = []
        for j, a in enumerate(q):
            b = dict(styles[a][1])
            b.update(host="board-%d" % (j + 1), port=None, image=(k + j) % len(images))
            boots.append(b)
        yield dict(label="small:" + ">".join(styles[a][0] for a in q), dicts=[d0], images=images, boots=boots)


def random_options(rng, cat):
    r = rng.random()
    if r < 0.25:
        return {}
    if r < 0.45:
        return presets()[rng.randint(1, 5)]
    out = {}
    for name, w in rng.sample(cat, rng.randint(1, 5)):
        top = 256 ** w - 1
        out[name] = rng.choice([0, 1, top, top - 1, rng.randint(0, top), rng.randint(0, top), 1 << (8 * w - 1)])
    return out


def random_history(rng, cat, idx, big):
    nd = rng.randint(0, 2)
    dicts = [random_options(rng, cat) for _ in range(nd)]
    sizes = [rng.choice([512, 516, 1020, 1024, 1028, 1536, 2048, 2052, 3072, 4 * rng.randint(128, 1100)])
             for _ in range(rng.randint(1, 2))]
    if big:
        sizes[0] = rng.choice([SIZE_LIMIT - 4, SIZE_LIMIT - 1024, SIZE_LIMIT - 1028, 4 * rng.randint(2000, 8000)])
    images = [make_image(rng, n) for n in sizes]
    boots = []
    for j in range(rng.randint(2, 4)):
        d = rng.randrange(nd) if nd and rng.random() < 0.5 else None
        kw = random_options(rng, cat) if rng.random() < 0.7 else {}
        kw = {n: v for n, v in kw.items() if n not in BOOT_PARAMETERS}   # those reach the board via a dictionary only
        if d is not None:
            kw = {n: v for n, v in kw.items() if n not in dicts[d]}     # which of the two wins is not documented
        boots.append(dict(via=rng.choice(["boot", "boot", "boot", "mc", "mc_if_needed"]), dict=d, kw=kw,
                          host="10.0.%d.%d" % (idx % 250, j + 1), port=rng.choice([None, None, 54321, 12345]),
                          image=rng.randrange(len(images))))
    return dict(label="random%d" % idx, dicts=dicts, images=images, boots=boots, one_path=rng.random() < 0.35)


def default_image_histories():
    ps = presets()
    mk = lambda via, kw, j: dict(via=via, dict=None, kw=kw, host="spinn-%d" % j, port=None, image=None)
    return [dict(label="bundled-image:none>kw-spin5>none", dicts=[], images=[],
                 boots=[mk("boot", {}, 1), mk("boot", ps[5], 2), mk("mc", {}, 3)]),
            dict(label="bundled-image:dict-spin3>none", dicts=[ps[3]], images=[],
                 boots=[dict(via="boot", dict=0, kw={}, host="spinn-1", port=None, image=None),
                        mk("boot", {}, 2)])]


# ------------------------------------------------------------- further families (struct files, edits, re-use)
def _own_kw(rng, cat, taken):
    kw = random_options(rng, cat) if rng.random() < 0.7 else {}
    return {n: v for n, v in kw.items() if n not in BOOT_PARAMETERS and n not in taken}


def struct_defaults(rng, cat):
    """other defaults for 1-4 system variables of a caller's own struct file (they fit the field and 31 bits)"""
    width = dict(cat)
    names = [n for n, _ in rng.sample(cat, rng.randint(1, 3))]
    if rng.random() < 0.6:
        names.append(rng.choice(["led0", "hw_ver", "cpu_clk", "led1", "p2p_dims"]))
    out = {}
    for name in names:
        top = min(256 ** width[name] - 1, 2 ** 31 - 1)
        out[name] = rng.choice([0, 1, top, rng.randint(0, top), rng.randint(2, 255)])
    return out


def random_extra(rng, via):
    """explicit arguments that are not options: the two delays, and the controller's ignored width / height"""
    out = {}
    if rng.random() < 0.6:
        out["boot_delay"] = rng.choice([0.0, 0.01, 0.2])
    if rng.random() < 0.4:
        out["post_boot_delay"] = rng.choice([0.0, 1.0, 5.0])
    if via != "boot" and rng.random() < 0.6:
        out["width"], out["height"] = rng.choice([(2, 2), (8, 8), (12, 24), (48, 24)])
    return out


def struct_history(rng, cat, idx, bundled_image):
    """boots that name the caller's own struct file(s), mixed with boots that use the bundled one"""
    ns = rng.randint(1, 2)
    structs = [struct_defaults(rng, cat) for _ in range(ns)]
    if rng.random() < 0.3 and not bundled_image:
        structs[0] = {}                       # a byte-identical copy of the bundled file under another name
    images = [] if bundled_image else [make_image(rng, rng.choice([512, 1024, 1028, 2052]))]
    nd = rng.randint(0, 1)
    dicts = [random_options(rng, cat) for _ in range(nd)]
    boots = []
    for j in range(2 if bundled_image else rng.randint(2, 4)):
        d = 0 if nd and rng.random() < 0.4 else None
        kw = _own_kw(rng, cat, dicts[d] if d is not None else ())
        st = rng.choice([None] + list(range(ns)) * 2)
        if st is not None and structs[st] and rng.random() < 0.4:
            # an option for a variable whose default this struct file changes
            n = rng.choice(sorted(structs[st]))
            if n not in BOOT_PARAMETERS and (d is None or n not in dicts[d]):
                kw[n] = rng.randint(0, 255)
        boots.append(dict(via=rng.choice(["boot", "boot", "mc"]), dict=d, kw=kw, host="10.1.%d.%d" % (idx % 250, j + 1),
                          port=None, image=None if bundled_image else 0, struct=st))
    k = rng.randrange(len(boots))
    if all(b["struct"] is None for b in boots):
        boots[k]["struct"] = rng.randrange(ns)
    return dict(label="struct%d" % idx, dicts=dicts, images=images, boots=boots, structs=structs,
                one_struct_path=rng.random() < 0.5)


def edit_history(rng, cat, idx):
    """one caller-owned sv_overrides dictionary given to every boot and changed in place between them"""
    d0 = {}
    while not d0:
        d0 = random_options(rng, cat)
    now = dict(d0)
    images = [make_image(rng, rng.choice([512, 1024, 1540]))]
    boots = []
    for j in range(rng.randint(2, 4)):
        edit = {}
        if j:
            for _ in range(rng.randint(1, 2)):
                r = rng.random()
                if r < 0.4 and now:
                    edit[rng.choice(sorted(now))] = None
                elif r < 0.7 and now:
                    n = rng.choice(sorted(now))
                    edit[n] = (now[n] + rng.randint(1, 200)) % 256
                else:
                    n, w = rng.choice(cat)
                    edit[n] = rng.randint(0, 256 ** w - 1)
            for n, v in edit.items():
                if v is None:
                    now.pop(n, None)
                else:
                    now[n] = v
        kw = {} if rng.random() < 0.6 else _own_kw(rng, cat, set(now) | set(d0) | set(edit))
        boots.append(dict(via=rng.choice(["boot", "boot", "mc"]), dict=0, kw=kw, edit=edit,
                          host="10.2.%d.%d" % (idx % 250, j + 1), port=None, image=0))
    return dict(label="edit%d" % idx, dicts=[d0], images=images, boots=boots)


def reuse_history(rng, cat, idx):
    """one board booted again: by the same MachineController object, or by boot() with the same host name; some
    boots also pass the delays (and the controller's deprecated width / height) explicitly"""
    images = [make_image(rng, rng.choice([512, 1024, 1028]))]
    same_mc = rng.random() < 0.6
    port = rng.choice([None, None, 12345])
    boots = []
    for j in range(rng.randint(2, 3)):
        via = rng.choice(["mc", "mc", "mc_if_needed"]) if same_mc else "boot"
        kw = {}
        if j == 0 or rng.random() < 0.4:
            while not kw:
                kw = _own_kw(rng, cat, ())
        boots.append(dict(via=via, dict=None, kw=kw, host="10.3.%d.1" % (idx % 250), port=port, image=0,
                          mc_obj=0 if same_mc else None, extra=random_extra(rng, via)))
    return dict(label="reuse%d" % idx, dicts=[], images=images, boots=boots)


# ------------------------------------------------------------- structured images (long runs of equal bytes)
KIB = 1024            # the generator's own unit for laying out images (the protocol's block size is the spec's)


def structured_images(rng, large):
    """Images as linkers, flash dumps and padding tools really produce them - unlike random bytes they contain long
    runs of equal bytes: [(shape name, bytes)...].  Every shape comes in a size that is an exact multiple of
    1 KiB and in one that is not; the contents that are not prescribed by the shape are random."""
    rnd = lambda n: [rng.randrange(1, 256) for _ in range(n)]        # "code": no zero byte at all
    any_ = lambda n: [rng.randrange(256) for _ in range(n)]
    whole = lambda: rng.choice([2, 3, 3, 4, 5, 6]) * KIB             # exact multiples of 1 KiB, 2..6 blocks
    ragged = lambda: rng.choice([2, 2, 3, 4, 5]) * KIB + 4 * rng.randint(1, 255)
    out = []

    def add(name, img):
        assert len(img) % 4 == 0 and MIN_IMAGE <= len(img) < SIZE_LIMIT, (name, len(img))
        out.append((name, img))

    for tag, size in (("whole", whole), ("ragged", ragged)):
        # zeros from a 1 KiB boundary to the end (a zero-initialised section that starts on a boundary)
        n = size()
        k = rng.randint(1, (n - 1) // KIB)
        add("zero-tail-from-boundary/" + tag, rnd(k * KIB) + [0] * (n - k * KIB))
        # zeros from the middle of a block to the end, over at least one further block
        n = size()
        k = rng.randint(0, (n - 1) // KIB - 1)
        cut = k * KIB + rng.choice([4 * rng.randint(129, 255), rng.randint(513, 1023)])
        add("zero-tail-from-mid-block/" + tag, rnd(cut) + [0] * (n - cut))
        # zeros in front (the first block still gets the configuration area), data afterwards
        n = size()
        k = rng.randint(min(2, (n - 1) // KIB), (n - 1) // KIB)
        add("zero-head/" + tag, [0] * (k * KIB) + rnd(n - k * KIB))
        # one or two zero blocks in the middle
        n = max(size(), 3 * KIB + (4 if tag == "ragged" else 0))
        last = (n - 1) // KIB                                        # index of the last block
        k = rng.randint(1, last - 1)
        m = rng.randint(1, min(2, last - k))
        add("zero-blocks-in-the-middle/" + tag, rnd(k * KIB) + [0] * (m * KIB) + rnd(n - (k + m) * KIB))
        # one byte value throughout: 0x00 (a blank image), 0xff (erased flash), another value
        add("all-zero/" + tag, [0] * size())
        add("all-0xff/" + tag, [255] * size())
        add("all-one-value/" + tag, [rng.choice([1, 0x55, 0x80, 0xfe])] * size())
        # every block has the same contents (the last one a prefix of it); every word the same
        n = size()
        blk = any_(KIB)
        add("every-block-identical/" + tag, (blk * (n // KIB + 1))[:n])
        n = size()
        add("every-word-identical/" + tag, (any_(4) * (n // 4))[:n])
        # two alternating blocks: each block equals the one two before it
        n = size()
        a, b = any_(KIB), any_(KIB)
        add("blocks-alternate/" + tag, ((a + b) * (n // (2 * KIB) + 1))[:n])
        # a linked program: code, constants, initialised data, then the zero-initialised data section - as the
        # linker lays them out, the sections are word aligned, not block aligned
        n = size()
        code = 4 * rng.randint(140, (n - KIB) // 4 - 40)
        data = 4 * rng.randint(1, 30)
        add("program-with-zeroed-data-section/" + tag, rnd(code) + any_(data) + [0] * (n - code - data))
        # the same with a check word after the zeros (only the very last word is not zero)
        n = size()
        code = 4 * rng.randint(140, (n - KIB) // 4 - 40)
        add("zeroed-section-then-check-word/" + tag, rnd(code) + [0] * (n - code - 4) + rnd(4))
        # zero words at the edges of every block (first and last word of each block, last words of the image)
        n = size()
        img = rnd(n)
        for lo in range(0, n, KIB):
            for p in list(range(lo, lo + 4)) + list(range(min(lo + KIB, n) - 4, min(lo + KIB, n))):
                img[p] = 0
        add("zero-words-at-block-edges/" + tag, img)
        # zeros only inside the last block (the tail of the image is zero, but for less than a block)
        n = size()
        lastlen = n - (n - 1) // KIB * KIB
        z = 4 * rng.randint(1, max(1, lastlen // 4 - 1))
        add("zero-tail-inside-last-block/" + tag, rnd(n - z) + [0] * z)
    # the smallest and the largest images: one block and a bit; close to the size limit
    add("zero-tail-from-boundary/1028", rnd(KIB) + [0] * 4)
    add("zero-tail-from-mid-block/1536", rnd(600) + [0] * 936)
    add("all-zero/1024", [0] * KIB)
    if large >= 1:
        add("program-with-zeroed-data-section/31KiB", rnd(3 * KIB + 40) + [0] * (28 * KIB - 40))
    if large >= 2:
        add("zero-blocks-in-the-middle/32764", rnd(9 * KIB) + [0] * (14 * KIB) + rnd(9 * KIB - 4))
    return out


def structured_histories(rng, cat, large):
    """boots of structured images, two or three images per history (so an image also follows a longer or shorter
    one in the same process), through boot() and MachineController.boot(), with and without options"""
    imgs = structured_images(rng, large)
    rng.shuffle(imgs)
    hs = []
    while imgs:
        group, imgs = imgs[:3], imgs[3:]
        boots = []
        for j, (name, _) in enumerate(group):
            via = rng.choice(["boot", "boot", "mc", "mc_if_needed"])
            boots.append(dict(via=via, dict=None, kw=_own_kw(rng, cat, ()) if rng.random() < 0.5 else {},
                              host="10.4.%d.%d" % (len(hs) % 250, j + 1), port=rng.choice([None, None, 12345]),
                              image=j, shape=name))
        hs.append(dict(label="structured%d:%s" % (len(hs), ">".join(n for n, _ in group)), dicts=[],
                       images=[img for _, img in group], boots=boots, one_path=rng.random() < 0.3))
    return hs


# ---------------------------------------------------------------------------------- the check
def key_of(tr, i, clauses):
    ev = tr["ev"][i - 1]
    if ev[0] == "boot" and "OnlyOwnOptions" in clauses:
        how = ("without options" if not ev[1]["opts"] else
               "that passes no sv_overrides" if ev[1]["info"]["dict"] < 0 else
               "that passes the caller's own sv_overrides dictionary again")
        return "OnlyOwnOptions: options of an earlier boot() reappear in a later boot() " + how
    return "%s %s %s" % (ev[0], ",".join(clauses), tr["label"])


def design_jobs(chk):
    chk.design("BootDesign", "BootDesign_%s.cfg" % chk.tier,
               expect_actions=("Call", "SendBlock", "SendEnd", "Return"))
    # non-vacuity: with an option dictionary that survives the call the history clauses must be violated,
    # while the wire-format clauses still hold
    for cfg, inv in (("BootDesign_leaky.cfg", "InvOnlyOwnOptions"),
                     ("BootDesign_leaky_dep.cfg", "InvConfigDependsOnOwnOptionsOnly")):
        r = chk.design("BootDesign", cfg, allow_error=True, label="expected to violate " + inv)
        if r.ok or ("Invariant %s is violated" % inv) not in (r.error or ""):
            raise MachineryError("design job BootDesign/%s: the leaking variant does not violate %s (%s)" %
                                 (cfg, inv, (r.error or "no error")[:200]))
        chk.jobs[-1].update(expected_violation=inv, error="Invariant %s is violated (as it must be)" % inv)
        chk.count("leaking design variants rejected by " + inv)
    chk.design("BootDesign", "BootDesign_leaky_wire.cfg", label="leaking variant keeps the wire format")


def run(chk):
    rng = random.Random(chk.seed)
    design_jobs(chk)
    cat = sv_catalogue()
    histories = list(small_histories(chk, rng))
    nrand = chk.pick(60, 1500)
    nbig = chk.pick(2, 40)
    histories += [random_history(rng, cat, i, big=i < nbig) for i in range(nrand)]
    histories += default_image_histories()
    histories += with_faults(rng, histories, 0.25)
    # further families (their own stream of random numbers: the histories above do not depend on them)
    rng2 = random.Random(chk.seed * 7919 + 20)
    nstruct = chk.pick(12, 200)
    histories += [struct_history(rng2, cat, i, bundled_image=i < chk.pick(3, 10)) for i in range(nstruct)]
    histories += [edit_history(rng2, cat, i) for i in range(chk.pick(8, 100))]
    histories += [reuse_history(rng2, cat, i) for i in range(chk.pick(10, 100))]
    # structured images (again their own stream of random numbers); the thorough tier lays them out several times
    rng3 = random.Random(chk.seed * 104729 + 20)
    shape_of = {}
    for _ in range(chk.pick(1, 12)):
        for h in structured_histories(rng3, cat, large=chk.pick(0, 2)):
            h["label"] = "structured%d:%s" % (len(shape_of), h["label"].split(":", 1)[1])
            shape_of[h["label"]] = [b["shape"] for b in h["boots"]]
            histories.append(h)
    traces = run_histories(histories)
    for h, t in zip(histories, traces):
        boots = [e[1] for e in t["ev"] if e[0] == "boot"]
        chk.note_case([(b["via"], b["opts"], len(b["image"]), b["info"]["dict"], b["svdef"], b["info"]["extra"],
                        b["info"]["mc_obj"], b["info"]["edited"]) for b in boots],
                      nontrivial=len(boots) >= 2 and any(b["opts"] for b in boots))
        for shape in shape_of.get(h["label"], ()):
            chk.count("boots of structured images")
            chk.count("boots of structured images: " + shape.split("/")[0])
        for b in boots:
            chk.count("boots")
            chk.count("boots via " + b["via"])
            chk.count("datagrams recorded", len(b["dg"]))
            if b["result"][0] != "return":
                chk.count("boots that raised " + b["result"][1])
            if b["info"]["struct"] >= 0:
                chk.count("boots naming the caller's own struct file")
                if b["svdef"]:
                    chk.count("boots whose struct file changes defaults")
            if b["info"]["edited"]:
                chk.count("boots after the caller edited its sv_overrides dictionary in place")
            if b["info"]["extra"]:
                chk.count("boots with explicit delays / width / height")
            if b["info"]["caller_dict_changed"]:
                chk.count("informational: caller's sv_overrides dictionary modified by the call")
            if b["info"]["announced_words_differ"]:
                chk.count("informational: block datagrams whose announced word count differs from the words carried",
                          b["info"]["announced_words_differ"])
        seen = set()
        for b in boots:
            if b["info"]["mc_obj"] >= 0:
                if b["info"]["mc_obj"] in seen:
                    chk.count("boots by a MachineController object that had booted before")
                seen.add(b["info"]["mc_obj"])
    sizes = sorted(set(len(e[1]["image"]) for t in traces for e in t["ev"] if e[0] == "boot"))
    chk.extra["image_sizes"] = sizes if len(sizes) <= 40 else sizes[:20] + ["..."] + sizes[-19:]
    chk.extra["option_names_used"] = len(set(o[0] for t in traces for e in t["ev"] if e[0] == "boot"
                                             for o in e[1]["opts"]))
    chk.rule = ("histories of 1-4 boots, each history in a fresh process with fake socket/select/time modules: all "
                "sequences of the call styles in small_histories_alphabet up to the stated length on images of "
                "512/1024/1028/2048 bytes, then random histories (no options, the five board presets, 1-5 arbitrary "
                "overrides of any system variable of the bundled sv struct with edge and random values, through "
                "keyword arguments and/or a caller-owned sv_overrides dictionary that is reused by later boots, via "
                "boot() and MachineController.boot(), distinct hosts, default and explicit ports, random image "
                "contents of 512 bytes .. just below 32 KiB in whole words), then the bundled scamp.boot; then "
                "histories in which boots name the caller's own struct file (sark_struct: the bundled file byte for "
                "byte, or with other defaults for 1-4 sv variables; two such files in one history; one file name "
                "regenerated between boots; mixed with boots that use the bundled file and with options for the very "
                "variables whose default changed; also with the bundled image), histories in which the caller edits "
                "its sv_overrides dictionary in place between boots (adds, changes, removes names), histories in "
                "which one board is booted again (the same MachineController object, or boot() with the same host) "
                "with the delays and the controller's deprecated width / height passed explicitly; at the end of "
                "every history the struct definitions each boot returned are projected once more; then histories of "
                "2-3 boots of structured images, each shape in a size that is an exact multiple of 1 KiB (2-6 KiB) "
                "and in one that is not (zeros from a 1 KiB boundary to the end, zeros from the middle of a block "
                "over at least one further block, zeros only inside the last block, zeros in front, one or two zero "
                "blocks in the middle, all 0x00, all 0xff, all one other value, every block identical, every word "
                "identical, two alternating blocks, a linked program whose zero-initialised data section ends the "
                "image, the same followed by one check word, zero words at both edges of every block; 1024 / 1028 / "
                "1536 bytes as well, in the thorough tier also 31 KiB and 32764 bytes); "
                "non-trivial = at least two boots and at least one option; distinct = distinct (via, options, image "
                "size, dictionary use) sequences")
    chk.assumptions += [
        "images are whole words (boot_packet asserts it), at least 512 bytes (they contain the configuration area) "
        "and smaller than 32 KiB",
        "unix_time, boot_sig and root_chip are written by boot itself: never given as options and masked in every "
        "comparison of configuration areas; option values fit the field; the twice-defined __PAD4 is never an option",
        "keyword options and the sv_overrides dictionary of one call never name the same variable; a system "
        "variable named like a parameter of boot() (boot_delay) is only ever given through the dictionary",
        "the struct file is the bundled sark.struct, transcribed into Boot.tla (SvBundled), or that file with other "
        "default values (below 2^31, fitting the field) for some sv variables - never another layout",
        "boot_delay / post_boot_delay given as explicit arguments are delays, not options; width / height of "
        "MachineController.boot are documented as ignored: none of them may show in the configuration area",
        "the word count a block datagram announces (always 256 in rig, also for a ragged last block) is not part of "
        "the property; it is only counted",
    ]
    chk.exhaustive = False
    small = [t for t in traces if t["label"].startswith("small:")]
    for t in (small[1], small[9], traces[len(small) + 3]):
        chk.sample(dict(label=t["label"], boots=[dict(via=e[1]["via"], host=e[1]["host"], opts=e[1]["opts"],
                                                      image_bytes=len(e[1]["image"]), datagrams=len(e[1]["dg"]),
                                                      result=e[1]["result"]) for e in t["ev"] if e[0] == "boot"]))
    chk.validate("BootTrace", "BootTrace.cfg", traces, key_of=key_of, batch=400)

    # beyond the property: BMPController sessions (power, LEDs, FPGA registers, ADC, version) against Bmp.tla
    from . import bmp
    bmp.run_beyond(chk)
    # beyond the property: struct files (the `sv` struct booting packs comes from one), judged against StructFile.tla
    from . import structfile
    structfile.run_beyond(chk)
    # report the shortest rejected history of each key first (finish() keeps the first one per key)
    def size(v):
        tr = v.get("replay", {}).get("trace")
        boots = [e[1] for e in tr["ev"] if e[0] == "boot"] if tr else []
        return (len(boots), sum(b["via"] != "boot" for b in boots), sum(len(b["image"]) + len(b["opts"]) for b in boots))
    chk.violations.sort(key=size)

# ---------------------------------------------------------------------------------- binding demonstration
def selftest(chk):
    import copy
    rng = random.Random(1)
    ps = presets()
    img = make_image(rng, 2052)
    mk = lambda d, kw, j: dict(via="boot", dict=d, kw=kw, host="b%d" % j, port=None, image=0)
    # a history that is right on a tree with or without the shared-default defect: options via a dictionary
    good, plain = run_histories([
        dict(label="selftest", dicts=[ps[3]], images=[img], boots=[mk(0, {}, 1), mk(None, {}, 2)]),
        dict(label="selftest-plain", dicts=[], images=[img], boots=[mk(None, {}, 1), mk(None, {}, 2)])])

    def mut(base, f):
        t = copy.deepcopy(base)
        f(t["ev"])
        return t

    def b(ev, k):
        return ev[k][1]

    hw = 18 + (384 + 10) % 1024 // 4 * 4 + (3 - (384 + 10) % 4)      # hw_ver's byte inside block 0
    cases = [
        (good, None), (plain, None),
        (mut(good, lambda ev: b(ev, 0)["dg"][2].__setitem__(30, b(ev, 0)["dg"][2][30] ^ 1)), "ImageReassembles"),
        (mut(good, lambda ev: b(ev, 0)["dg"][1].__setitem__(hw, 5)), "ConfigIsDefaultsPlusOptions"),
        (mut(good, lambda ev: b(ev, 0)["dg"].__delitem__(2)), "BlocksConsecutive"),
        (mut(good, lambda ev: b(ev, 0)["dg"].__setitem__(slice(1, 3), b(ev, 0)["dg"][1:3][::-1])), "BlocksConsecutive"),
        (mut(good, lambda ev: b(ev, 0)["dg"].pop()), "EndAfterBlocks"),
        (mut(good, lambda ev: b(ev, 0)["dg"][0].__setitem__(17, b(ev, 0)["dg"][0][17] + 1)), "StartAnnouncesBlocks"),
        (mut(good, lambda ev: b(ev, 0)["dg"][3].append(0)), "BlocksConsecutive"),
        # the second boot (no options) carries what the first one was given
        (mut(good, lambda ev: b(ev, 1).__setitem__("dg", copy.deepcopy(b(ev, 0)["dg"]))), "OnlyOwnOptions"),
        (mut(plain, lambda ev: b(ev, 1)["dg"][1].__setitem__(hw, 9)), "ConfigDependsOnOwnOptionsOnly"),
        (mut(good, lambda ev: ev.__delitem__(1)), "AllBootsJudged"),
        (mut(good, lambda ev: [r for r in b(ev, 0)["sv"] if r[0] == "led0"][0].__setitem__(3, le4(1))),
         "ReturnedStructsAgree"),
        (mut(good, lambda ev: [r for r in b(ev, 1)["sv"] if r[0] == "num_cpus"][0].__setitem__(2, 187)),
         "ReturnedStructsAgree"),
        (mut(good, lambda ev: b(ev, 1)["dst"][2].__setitem__(0, "b1")), "SentToBootedBoard"),
        (mut(good, lambda ev: b(ev, 1).__setitem__("result", ["raise", "KeyError"])), "BootCompletes"),
    ]
    rej = chk.validate("BootTrace", "BootTrace.cfg", [c[0] for c in cases])
    got = {id(t): cl for t, _, cl in rej}
    msgs = []
    for tr, want in cases:
        cl = got.get(id(tr))
        if (want is None) != (cl is None) or (want and want not in cl):
            msgs.append("expected %s, got %s" % (want, cl))
    return not msgs, "; ".join(msgs) or "%d corrupted histories rejected with the expected clauses" % (len(cases) - 2)
