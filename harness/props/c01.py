"""C01 - multicast packets reach exactly the cores of their net's sinks.

D: MulticastDesign.tla - valid trees + table generation + default-route removal compose to exact delivery
   (packet propagation as TLC actions on a small torus).
T: the whole pipeline (place, allocate, route, routing_tree_to_tables, minimise; by hand and through both
   wrappers) is run on generated problems; the resulting tables are *executed* by TLC (Multicast!Propagate) for
   several keys of every net and judged by MulticastTrace.tla.
"""
import random
import warnings

from rig.netlist import Net
from rig.place_and_route import Machine, Cores, SDRAM, SRAM
from rig.place_and_route import place as default_place, allocate, route
from rig.place_and_route import place_and_route_wrapper, wrapper as old_wrapper
from rig.place_and_route.constraints import (LocationConstraint, SameChipConstraint, ReserveResourceConstraint,
                                             RouteEndpointConstraint)
from rig.place_and_route.exceptions import (InsufficientResourceError, InvalidConstraintError,
                                            MachineHasDisconnectedSubregion)
from rig.place_and_route.place import sequential, breadth_first, hilbert, rcm, rand, sa
from rig.place_and_route.place.sa.python_kernel import PythonKernel
from rig.routing_table import (routing_tree_to_tables, minimise_tables, MinimisationFailedError, Routes,
                               MultisourceRouteError)
from rig.routing_table import remove_default_routes, ordered_covering as oc_mod
from rig.machine_control.machine_controller import SystemInfo, ChipInfo
from rig.machine_control.consts import AppState
from rig.links import Links

from .. import gen, proj
from .c04 import tern_to_km, km_intersect

KW = 10     # active key bits
OWN_CORES, OWN_SDRAM, OWN_SRAM = "processor", "dram", "sram-bytes"      # a caller's own resource identifiers


def bits(s):
    n = 0
    for r in s:
        n |= (1 << 24) if r is None else (1 << int(r))
    return n


def enc_entry(e):
    return [e.key & 0xffff, e.key >> 16, e.mask & 0xffff, e.mask >> 16, bits(e.route), bits(e.sources)]


def gen_keys(rng, n):
    """n orthogonal key/mask pairs over KW bits (upper bits: key 0, fully masked)"""
    kms = []
    style = rng.random()
    if style < 0.4:                      # consecutive full keys
        base = rng.randrange(0, (1 << KW) - n)
        kms = [(base + i, (1 << KW) - 1) for i in range(n)]
    else:
        tries = 0
        while len(kms) < n and tries < 200 * n:
            tries += 1
            s = "".join(rng.choice("01X" if rng.random() < 0.3 else "01") for _ in range(KW))
            km = tern_to_km(s)
            if all(not km_intersect(km, o) for o in kms):
                kms.append(km)
        if len(kms) < n:
            return None
    fixed = 0xffffffff & ~((1 << KW) - 1)
    return [(k, m | fixed) for k, m in kms]


MERGED_POOL = []       # key/masks of merged entries made by earlier minimisations of this process (KW bits)


def km_to_tern(km):
    k, m = km
    return "".join("X" if not (m >> i) & 1 else str((k >> i) & 1) for i in reversed(range(KW)))


def gen_keys_follow_up(rng, n):
    """Keys of a LATER application in the same process: one net uses, as its own key/mask, a merged entry that an
    earlier minimisation produced, and the others lie next to it (its fixed bits changed in one or two places, its
    don't-care positions narrowed) - so that what an earlier call remembered about that key/mask would matter."""
    base = km_to_tern(rng.choice(MERGED_POOL))
    fixed_pos = [i for i, c in enumerate(base) if c != "X"]
    kms = [tern_to_km(base)]
    tries = 0
    while len(kms) < n and tries < 300 * n:
        tries += 1
        t = list(base)
        for i in rng.sample(fixed_pos, min(len(fixed_pos), rng.choice((1, 1, 2)))):
            t[i] = "1" if t[i] == "0" else "0"
        for i, c in enumerate(base):
            if c == "X":
                t[i] = rng.choice("01X0")
        km = tern_to_km("".join(t))
        if all(not km_intersect(km, o) for o in kms):
            kms.append(km)
    if len(kms) < n:
        return None
    rng.shuffle(kms)
    fixed = 0xffffffff & ~((1 << KW) - 1)
    return [(k, m | fixed) for k, m in kms]


def matching_keys(rng, km, count):
    k, m = km[0], km[1] & ((1 << KW) - 1)
    free = (~m) & ((1 << KW) - 1)
    out = [k, k | free]
    for _ in range(count):
        out.append(k | (rng.getrandbits(KW) & free))
    return sorted(set(out))


def fixed_pos_ok():
    return any("X" in km_to_tern(km) and km_to_tern(km).strip("X") for km in MERGED_POOL[-50:])


def note_merged(tables0, tables):
    """remember the merged entries a minimisation produced (entries of the result that the input did not have)"""
    for chip, t in tables.items():
        before = {(e.key, e.mask) for e in tables0.get(chip, ())}
        for e in t:
            low = (1 << KW) - 1
            if (e.key, e.mask) not in before and (e.mask | low) == 0xffffffff and (e.mask & low) != low:
                MERGED_POOL.append((e.key & low, e.mask & low))
    del MERGED_POOL[:-200]


def gen_dense_problem(rng, chk):
    """a handful of vertices on a tiny machine with many nets: long per-chip tables with few distinct routes,
    which is where ordered covering merges (and where a wrong merge shows)"""
    w, h = rng.choice(((1, 1), (1, 1), (2, 1), (2, 2), (3, 1)))
    m = Machine(w, h, chip_resources={Cores: 18, SDRAM: 64})
    nv = rng.randint(2, 5)
    vr = {"v%d" % i: {Cores: 1} for i in range(nv)}
    names = list(vr)
    cons = [ReserveResourceConstraint(Cores, slice(0, 1))] if rng.random() < 0.5 else []
    nnets = rng.randint(6, 16)
    if MERGED_POOL and fixed_pos_ok() and rng.random() < 0.4:
        nnets = rng.randint(3, 8)
        keys = gen_keys_follow_up(rng, nnets)
    else:
        keys = gen_keys(rng, nnets)
    if keys is None:
        return None
    nets, net_keys = [], {}
    for i in range(nnets):
        n = Net(rng.choice(names), [rng.choice(names) for _ in range(rng.choice((1, 1, 2)))])
        nets.append(n)
        net_keys[n] = keys[i]
    return vr, nets, net_keys, m, cons


def gen_problem(rng, chk):
    if rng.random() < 0.3:
        return gen_dense_problem(rng, chk)
    m = gen.random_machine(rng, maxw=chk.pick(7, 12), maxh=chk.pick(7, 12), p_dead_chip=rng.choice((0, 0.05, 0.1)),
                           fault_rate=rng.choice((0, 0, 0.02, 0.05, 0.1, 0.2)), connected=True,
                           resources={Cores: 18, SDRAM: 64})
    chips = list(m)
    # per-chip resource exceptions
    for _ in range(rng.randint(0, 3)):
        xy = rng.choice(chips)
        m.chip_resource_exceptions[xy] = {Cores: rng.randint(1, 18), SDRAM: rng.randint(8, 64)}
    nv = rng.randint(1, min(14, 2 * len(chips) + 2))
    vr, cons = {}, []
    for i in range(nv):
        v = "v%d" % i
        r = rng.random()
        if r < 0.1:
            # device vertex: no cores, pinned to a chip, routed out of one of its links
            # (the link carries a device instead of a neighbouring chip: it is a dead link of the fabric)
            xy = rng.choice(chips)
            l = Links(rng.randrange(6))
            dx, dy = l.to_vector()
            nb = ((xy[0] + dx) % m.width, (xy[1] + dy) % m.height)
            added = {(xy[0], xy[1], l), (nb[0], nb[1], l.opposite)} - set(m.dead_links)
            m.dead_links.update(added)
            if not gen.is_connected(m):
                m.dead_links.difference_update(added)
                vr[v] = {Cores: 1}
                continue
            vr[v] = {Cores: 0} if rng.random() < 0.5 else {}
            cons.append(LocationConstraint(v, xy))
            cons.append(RouteEndpointConstraint(v, Routes(l)))
        else:
            vr[v] = {Cores: rng.choice((1, 1, 1, 2, 3)), SDRAM: rng.randint(0, 8)}
    names = list(vr)
    if rng.random() < 0.3 and len(names) > 2:
        pool = [n for n in names if vr[n].get(Cores, 0) > 0]
        grp = rng.sample(pool if len(pool) >= 2 else names, 2)
        if len(set(grp)) == 2 and all(not isinstance(c, LocationConstraint) or c.vertex not in grp for c in cons):
            cons.append(SameChipConstraint(grp))
    if rng.random() < 0.5:
        cons.append(ReserveResourceConstraint(Cores, slice(0, 1)))
    if rng.random() < 0.3:
        xy = rng.choice(chips)
        top = m[xy][Cores]
        if top >= 3:
            cons.append(ReserveResourceConstraint(Cores, slice(top - 2, top), xy))
    nnets = rng.randint(1, 8)
    keys = gen_keys(rng, nnets)
    if keys is None:
        return None
    nets, net_keys = [], {}
    for i in range(nnets):
        src = rng.choice(names)
        k = rng.choice((1, 1, 2, 3, 5, 8))
        sinks = [rng.choice(names) for _ in range(k)]
        n = Net(src, sinks, rng.choice((1, 1, 0, 2.5)))
        nets.append(n)
        net_keys[n] = keys[i]
    return vr, nets, net_keys, m, cons


def system_info_of(machine, busy):
    """a SystemInfo describing `machine` (all cores idle except `busy` {(x, y): set(cores)})"""
    chips = {}
    for (x, y) in machine:
        ncores = machine[(x, y)][Cores]
        states = [AppState.idle] * ncores
        for c in busy.get((x, y), ()):
            if c < ncores:
                states[c] = AppState.run
        links = set(l for l in Links if (x, y, l) in machine)
        chips[(x, y)] = ChipInfo(num_cores=ncores, core_states=states, working_links=links,
                                 largest_free_sdram_block=machine[(x, y)][SDRAM],
                                 largest_free_sram_block=machine[(x, y)].get(SRAM, 0),
                                 largest_free_rtr_mc_block=1023, ethernet_up=(x, y) == (0, 0),
                                 ip_address="127.0.0.1", local_ethernet_chip=(0, 0))
    si = SystemInfo(machine.width, machine.height, chips)
    return si


PLACERS = [
    ("default", lambda rs: dict()),
    ("hilbert", lambda rs: dict(place=hilbert.place)),
    ("rcm", lambda rs: dict(place=rcm.place)),
    ("breadth_first", lambda rs: dict(place=breadth_first.place)),
    ("sequential", lambda rs: dict(place=sequential.place)),
    ("rand", lambda rs: dict(place=rand.place, place_kwargs=dict(random=random.Random(rs)))),
    ("sa-python", lambda rs: dict(place=sa.place, place_kwargs=dict(random=random.Random(rs), effort=0.1,
                                                                   kernel=PythonKernel))),
]
MINIMISERS = [
    ("none", None),
    ("rdr", (remove_default_routes.minimise,)),
    ("oc", (oc_mod.minimise,)),
    ("chain", (remove_default_routes.minimise, oc_mod.minimise)),
]
GUARDS = (InsufficientResourceError, InvalidConstraintError, MachineHasDisconnectedSubregion,
          MinimisationFailedError, MultisourceRouteError)


def expected_of(nets, placements, allocations, cons, core=Cores):
    endpoints = {c.vertex: c.route for c in cons if isinstance(c, RouteEndpointConstraint)}
    out = []
    for n in nets:
        cores, exits = set(), set()
        for s in n.sinks:
            x, y = placements[s]
            if s in endpoints:
                r = endpoints[s]
                if int(r) < 6:
                    exits.add((x, y, int(r)))
                else:
                    cores.add((x, y, int(r) - 6))
            elif core in allocations.get(s, {}):
                sl = allocations[s][core]
                for c in range(sl.start, sl.stop):
                    cores.add((x, y, c))
        sx, sy = placements[n.source]
        out.append(dict(src=[sx, sy], cores=sorted(list(c) for c in cores), exits=sorted(list(e) for e in exits)))
    return out


def make_trace(chk, rng, machine, nets, net_keys, placements, allocations, cons, tables, label, core=Cores):
    tr = proj.machine_json(machine)
    tr["kw"] = KW
    tr["label"] = label
    tr["tables"] = [[x, y, [enc_entry(e) for e in t]] for (x, y), t in sorted(tables.items())]
    tr["nets"] = expected_of(nets, placements, allocations, cons, core)
    evs = []
    for i, n in enumerate(nets):
        for k in matching_keys(rng, net_keys[n], chk.pick(1, 4)):
            evs.append(["inject", i + 1, k])
    evs.append(["done"])
    tr["ev"] = evs
    return tr


def failure_trace(machine, label, ex):
    """the pipeline ended with an exception that is not one of the documented ways to fail"""
    tr = proj.machine_json(machine)
    tr.update(kw=KW, label=label, tables=[], nets=[], ev=[["raise", type(ex).__name__], ["done"]])
    return tr


def run(chk):
    rng = random.Random(chk.seed)
    chk.design("MulticastDesign", "MulticastDesign_%s.cfg" % chk.tier, expect_actions=("Grow", "Round", "Quiesce"))
    # removing entries that default routing cannot stand in for must be refuted
    r = chk.design("MulticastDesign", "MulticastDesign_wrongdrop.cfg", allow_error=True, label="expected to fail")
    if r.ok or "NoTrouble" not in (r.error or ""):
        from ..core import MachineryError
        raise MachineryError("MulticastDesign with the wrong removal rule should violate NoTrouble: %s" % r.error)
    chk.count("design variants refuted as expected (wrong default-route removal rule)")
    traces = []
    nprob = chk.pick(500, 6000)
    ended = {}
    for i in range(nprob):
        p = gen_problem(rng, chk)
        if p is None:
            continue
        vr, nets, net_keys, m, cons = p
        pname, pk = PLACERS[i % len(PLACERS)]
        radius = rng.choice((0, 1, 2, 20))
        rs = chk.seed * 7919 + i
        random.seed(rs)
        kw = pk(rs)
        place_f = kw.get("place", default_place)
        try:
            placements = place_f(vr, nets, m, cons, **kw.get("place_kwargs", {}))
            allocations = allocate(vr, nets, m, cons, placements)
            routes = route(vr, nets, m, cons, placements, allocations, Cores, radius)
            tables0 = routing_tree_to_tables(routes, net_keys)
        except GUARDS as ex:
            ended[type(ex).__name__] = ended.get(type(ex).__name__, 0) + 1
            continue
        except Exception as ex:                  # judged by the specification (OnlyDocumentedErrors)
            traces.append(failure_trace(m, "hand %s r=%d" % (pname, radius), ex))
            continue
        for mname, methods in MINIMISERS:
            n_max = max([len(t) for t in tables0.values()] or [0])
            for tgt in ([None] if methods is None else [None, rng.choice((0, max(1, n_max // 2), n_max, 1023))]):
                label = "hand %s r=%d min=%s target=%s" % (pname, radius, mname, tgt)
                try:
                    tables = tables0 if methods is None else minimise_tables(tables0, tgt, methods)
                except GUARDS as ex:
                    ended[type(ex).__name__] = ended.get(type(ex).__name__, 0) + 1
                    continue
                except Exception as ex:
                    traces.append(failure_trace(m, label, ex))
                    continue
                if methods is not None:
                    note_merged(tables0, tables)
                traces.append(make_trace(chk, rng, m, nets, net_keys, placements, allocations, cons, tables, label))
                chk.note_case((label, traces[-1]["tables"], traces[-1]["nets"]),
                              nontrivial=any(len(t[2]) > 1 for t in traces[-1]["tables"]))
        # through the wrappers
        if i % 3 == 0:
            busy = {}
            if rng.random() < 0.5:
                for xy in rng.sample(list(m), min(3, len(list(m)))):
                    busy[xy] = set(rng.sample(range(m[xy][Cores]), min(2, m[xy][Cores])))
            busy_all = {xy: set(b) | {0} for xy, b in busy.items()}
            for xy in m:
                busy_all.setdefault(xy, {0})
            si = system_info_of(m, busy_all)
            apps = {v: "app.aplx" for v in vr}
            wcons = [c for c in cons if not isinstance(c, ReserveResourceConstraint)]
            # the wrappers let the caller name the resources; every second call uses names of its own
            own = i % 6 == 0
            names = {Cores: OWN_CORES, SDRAM: OWN_SDRAM, SRAM: OWN_SRAM} if own else {}
            wvr = {v: {names.get(r, r): q for r, q in res.items()} for v, res in vr.items()}
            wkw = dict(core_resource=OWN_CORES, sdram_resource=OWN_SDRAM, sram_resource=OWN_SRAM) if own else {}
            wcore = OWN_CORES if own else Cores
            try:
                random.seed(rs)
                pl, al, amap, tabs = place_and_route_wrapper(wvr, apps, nets, net_keys, si, wcons,
                                                             route_kwargs=dict(radius=radius), **dict(pk(rs), **wkw))
                m2 = Machine(m.width, m.height, chip_resources=dict(m.chip_resources),
                             chip_resource_exceptions=dict(m.chip_resource_exceptions),
                             dead_chips=set(m.dead_chips), dead_links=set(m.dead_links))
                traces.append(make_trace(chk, rng, m2, nets, net_keys, pl, al, wcons, tabs,
                                         "place_and_route_wrapper %s r=%d%s" % (pname, radius, " own resource names" if own else ""),
                                         core=wcore))
                chk.note_case(("wrapper", traces[-1]["tables"], traces[-1]["nets"]))
                # busy cores must not be used by any vertex
                traces[-1]["busy"] = [[x, y, sorted(b)] for (x, y), b in sorted(busy_all.items())]
            except GUARDS as ex:
                ended[type(ex).__name__] = ended.get(type(ex).__name__, 0) + 1
            except Exception as ex:
                traces.append(failure_trace(m, "place_and_route_wrapper %s r=%d" % (pname, radius), ex))
            try:
                with warnings.catch_warnings():
                    warnings.simplefilter("ignore")
                    random.seed(rs)
                    if own:
                        mo = Machine(m.width, m.height,
                                     chip_resources={names.get(r, r): q for r, q in m.chip_resources.items()},
                                     chip_resource_exceptions={xy: {names.get(r, r): q for r, q in res.items()}
                                                               for xy, res in m.chip_resource_exceptions.items()},
                                     dead_chips=set(m.dead_chips), dead_links=set(m.dead_links))
                        okw = dict(core_resource=OWN_CORES, sdram_resource=OWN_SDRAM)
                    else:
                        mo, okw = m, {}
                    pl, al, amap, tabs = old_wrapper(wvr, apps, nets, net_keys, mo, wcons,
                                                     route_kwargs=dict(radius=radius), **dict(pk(rs), **okw))
                traces.append(make_trace(chk, rng, m, nets, net_keys, pl, al, wcons, tabs,
                                         "deprecated wrapper %s r=%d%s" % (pname, radius, " own resource names" if own else ""),
                                         core=wcore))
                chk.note_case(("old-wrapper", traces[-1]["tables"], traces[-1]["nets"]))
            except GUARDS as ex:
                ended[type(ex).__name__] = ended.get(type(ex).__name__, 0) + 1
            except Exception as ex:
                traces.append(failure_trace(m, "deprecated wrapper %s r=%d" % (pname, radius), ex))
    for k, v in ended.items():
        chk.count("pipeline runs ended by %s (no verdict: the documented way to fail)" % k, v)
    chk.count("packets injected", sum(len(t["ev"]) - 1 for t in traces))
    chk.rule = ("%d generated problems (connected machines up to %dx%d, torus/mesh, dead chips, one- and two-way dead "
                "links, resource exceptions; 1-14 vertices incl. zero-core device vertices with location + endpoint "
                "constraints, same-chip groups, reservations; 1-8 nets with fan-out 1-8, self-loops, repeated sinks, "
                "weights 0/int/float; orthogonal key/masks over %d bits) x placer (7, rotating) x radius x "
                "{no minimisation, default-route removal, ordered covering, chain} x targets, by hand and through "
                "both wrappers; every net's packet is injected with its key, the all-ones completion of its key and "
                "random matching keys. non-trivial = some chip has more than one entry; distinct = distinct "
                "(tables, nets)" % (nprob, chk.pick(7, 12), chk.pick(7, 12), KW))
    chk.exhaustive = False
    if traces:
        chk.sample(dict(traces[0], tables=traces[0]["tables"][:3]))
        chk.sample(dict(traces[-1], tables=traces[-1]["tables"][:3]))

    def key_of(tr, i, clauses):
        e = tr["ev"][i - 1]
        return "%s %s net=%s machine=%dx%d dead=%s deadlinks=%d label=%s" % (
            e[0], ",".join(clauses), tr["nets"][e[1] - 1] if e[0] == "inject" else "", tr["w"], tr["h"], tr["dead"],
            len(tr["deadlinks"]), tr["label"])

    chk.validate("MulticastTrace", "MulticastTrace.cfg", traces, key_of=key_of, batch=800)

    # beyond the property: the whole chain on a simulated machine (probe -> place and route -> load), the installed
    # routers executed by TLC
    from . import deploy
    deploy.run_beyond(chk)


def selftest(chk):
    from rig.routing_table import RoutingTableEntry as RTE
    m = Machine(3, 1, chip_resources={Cores: 18, SDRAM: 64})
    full = 0xffffffff
    tables = {(0, 0): [RTE({Routes.east}, 5, full, {None})],
              (1, 0): [RTE({Routes.east, Routes.core(2)}, 5, full, {Routes.west})],
              (2, 0): [RTE({Routes.core(1)}, 5, full, {Routes.west})]}
    net = Net("s", ["a", "b"])
    pl = {"s": (0, 0), "a": (1, 0), "b": (2, 0)}
    al = {"s": {Cores: slice(1, 2)}, "a": {Cores: slice(2, 3)}, "b": {Cores: slice(1, 2)}}

    class K(object):
        quick = True

        def pick(self, a, b):
            return a
    good = make_trace(K(), random.Random(0), m, [net], {net: (5, full)}, pl, al, [], tables, "selftest")
    import copy

    def mut(f):
        t = copy.deepcopy(good); f(t); return t
    cases = [
        (good, None),
        (mut(lambda t: t["tables"][1][2][0].__setitem__(4, 1)), "ExactDelivery"),            # core route lost
        (mut(lambda t: t["tables"][2][2][0].__setitem__(4, (1 << 7) | 1)), "NoCirculation"),  # wraps round the torus
        (mut(lambda t: t["tables"].__delitem__(0)), "NoDrop"),                                # no entry at the source
        (mut(lambda t: t["deadlinks"].append([1, 0, 0])), "LiveHardwareOnly"),
        (mut(lambda t: t["nets"][0]["cores"].pop()), "ExactDelivery"),
        (mut(lambda t: t["tables"][1][2][0].__setitem__(3, 0)), "FixedBits"),
    ]
    rej = chk.validate("MulticastTrace", "MulticastTrace.cfg", [c[0] for c in cases])
    got = {id(t): cl for t, _, cl in rej}
    msgs = []
    for t, want in cases:
        cl = got.get(id(t))
        if (want is None) != (cl is None) or (want and want not in cl):
            msgs.append("expected %s, got %s" % (want, cl))
    return not msgs, "; ".join(msgs) or "%d corrupted traces rejected with the expected clauses" % (len(cases) - 1)
