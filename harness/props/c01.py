"""C01 - multicast packets reach exactly the cores of their net's sinks.

D: MulticastDesign.tla - valid trees + table generation + default-route removal compose to exact delivery
   (packet propagation as TLC actions on a small torus).
T: the whole pipeline (place, allocate, route, routing_tree_to_tables, minimise; by hand and through both
   wrappers) is run on generated problems; the resulting tables are *executed* by TLC (Multicast!Propagate) for
   several keys of every net and judged by MulticastTrace.tla.
"""
import os
import random
import signal
import threading
import warnings

from rig.netlist import Net
from rig.place_and_route import Machine, Cores, SDRAM, SRAM
from rig.place_and_route import place as default_place, allocate, route
from rig.place_and_route import place_and_route_wrapper, wrapper as old_wrapper
from rig.place_and_route.constraints import (LocationConstraint, SameChipConstraint, ReserveResourceConstraint,
                                             RouteEndpointConstraint)
from rig.place_and_route.exceptions import (InsufficientResourceError, InvalidConstraintError,
                                            MachineHasDisconnectedSubregion)
from rig.place_and_route.place import sequential, breadth_first, hilbert, rcm, rand, sa
from rig.place_and_route.place.sa.python_kernel import PythonKernel
from rig.routing_table import (routing_tree_to_tables, minimise_tables, MinimisationFailedError, Routes,
                               MultisourceRouteError)
from rig.routing_table import remove_default_routes, ordered_covering as oc_mod
from rig.machine_control.machine_controller import SystemInfo, ChipInfo
from rig.machine_control.consts import AppState
from rig.links import Links

from .. import gen, proj
from .c04 import tern_to_km, km_intersect

KW = 10     # active key bits
OWN_CORES, OWN_SDRAM, OWN_SRAM = "processor", "dram", "sram-bytes"      # a caller's own resource identifiers


def bits(s):
    n = 0
    for r in s:
        n |= (1 << 24) if r is None else (1 << int(r))
    return n


def enc_entry(e):
    return [e.key & 0xffff, e.key >> 16, e.mask & 0xffff, e.mask >> 16, bits(e.route), bits(e.sources)]


def gen_keys(rng, n):
    """n orthogonal key/mask pairs over KW bits (upper bits: key 0, fully masked)"""
    kms = []
    style = rng.random()
    if style < 0.4:                      # consecutive full keys
        base = rng.randrange(0, (1 << KW) - n)
        kms = [(base + i, (1 << KW) - 1) for i in range(n)]
    else:
        tries = 0
        while len(kms) < n and tries < 200 * n:
            tries += 1
            s = "".join(rng.choice("01X" if rng.random() < 0.3 else "01") for _ in range(KW))
            km = tern_to_km(s)
            if all(not km_intersect(km, o) for o in kms):
                kms.append(km)
        if len(kms) < n:
            return None
    fixed = 0xffffffff & ~((1 << KW) - 1)
    return [(k, m | fixed) for k, m in kms]


MERGED_POOL = []       # key/masks of merged entries made by earlier minimisations of this process (KW bits)


def km_to_tern(km):
    k, m = km
    return "".join("X" if not (m >> i) & 1 else str((k >> i) & 1) for i in reversed(range(KW)))


def gen_keys_follow_up(rng, n):
    """Keys of a LATER application in the same process: one net uses, as its own key/mask, a merged entry that an
    earlier minimisation produced, and the others lie next to it (its fixed bits changed in one or two places, its
    don't-care positions narrowed) - so that what an earlier call remembered about that key/mask would matter."""
    base = km_to_tern(rng.choice(MERGED_POOL))
    fixed_pos = [i for i, c in enumerate(base) if c != "X"]
    kms = [tern_to_km(base)]
    tries = 0
    while len(kms) < n and tries < 300 * n:
        tries += 1
        t = list(base)
        for i in rng.sample(fixed_pos, min(len(fixed_pos), rng.choice((1, 1, 2)))):
            t[i] = "1" if t[i] == "0" else "0"
        for i, c in enumerate(base):
            if c == "X":
                t[i] = rng.choice("01X0")
        km = tern_to_km("".join(t))
        if all(not km_intersect(km, o) for o in kms):
            kms.append(km)
    if len(kms) < n:
        return None
    rng.shuffle(kms)
    fixed = 0xffffffff & ~((1 << KW) - 1)
    return [(k, m | fixed) for k, m in kms]


def matching_keys(rng, km, count):
    k, m = km[0], km[1] & ((1 << KW) - 1)
    free = (~m) & ((1 << KW) - 1)
    out = [k, k | free]
    for _ in range(count):
        out.append(k | (rng.getrandbits(KW) & free))
    return sorted(set(out))


def fixed_pos_ok():
    return any("X" in km_to_tern(km) and km_to_tern(km).strip("X") for km in MERGED_POOL[-50:])


def note_merged(tables0, tables):
    """remember the merged entries a minimisation produced (entries of the result that the input did not have)"""
    for chip, t in tables.items():
        before = {(e.key, e.mask) for e in tables0.get(chip, ())}
        for e in t:
            low = (1 << KW) - 1
            if (e.key, e.mask) not in before and (e.mask | low) == 0xffffffff and (e.mask & low) != low:
                MERGED_POOL.append((e.key & low, e.mask & low))
    del MERGED_POOL[:-200]


def gen_dense_problem(rng, chk):
    """a handful of vertices on a tiny machine with many nets: long per-chip tables with few distinct routes,
    which is where ordered covering merges (and where a wrong merge shows)"""
    w, h = rng.choice(((1, 1), (1, 1), (2, 1), (2, 2), (3, 1)))
    m = Machine(w, h, chip_resources={Cores: 18, SDRAM: 64})
    nv = rng.randint(2, 5)
    vr = {"v%d" % i: {Cores: 1} for i in range(nv)}
    names = list(vr)
    cons = [ReserveResourceConstraint(Cores, slice(0, 1))] if rng.random() < 0.5 else []
    nnets = rng.randint(6, 16)
    if MERGED_POOL and fixed_pos_ok() and rng.random() < 0.4:
        nnets = rng.randint(3, 8)
        keys = gen_keys_follow_up(rng, nnets)
    else:
        keys = gen_keys(rng, nnets)
    if keys is None:
        return None
    nets, net_keys = [], {}
    for i in range(nnets):
        n = Net(rng.choice(names), [rng.choice(names) for _ in range(rng.choice((1, 1, 2)))])
        nets.append(n)
        net_keys[n] = keys[i]
    return vr, nets, net_keys, m, cons


def gen_problem(rng, chk):
    if rng.random() < 0.3:
        return gen_dense_problem(rng, chk)
    m = gen.random_machine(rng, maxw=chk.pick(7, 12), maxh=chk.pick(7, 12), p_dead_chip=rng.choice((0, 0.05, 0.1)),
                           fault_rate=rng.choice((0, 0, 0.02, 0.05, 0.1, 0.2)), connected=True,
                           resources={Cores: 18, SDRAM: 64})
    chips = list(m)
    # per-chip resource exceptions
    for _ in range(rng.randint(0, 3)):
        xy = rng.choice(chips)
        m.chip_resource_exceptions[xy] = {Cores: rng.randint(1, 18), SDRAM: rng.randint(8, 64)}
    nv = rng.randint(1, min(14, 2 * len(chips) + 2))
    vr, cons = {}, []
    for i in range(nv):
        v = "v%d" % i
        r = rng.random()
        if r < 0.1:
            # device vertex: no cores, pinned to a chip, routed out of one of its links
            # (the link carries a device instead of a neighbouring chip: it is a dead link of the fabric)
            xy = rng.choice(chips)
            l = Links(rng.randrange(6))
            dx, dy = l.to_vector()
            nb = ((xy[0] + dx) % m.width, (xy[1] + dy) % m.height)
            added = {(xy[0], xy[1], l), (nb[0], nb[1], l.opposite)} - set(m.dead_links)
            m.dead_links.update(added)
            if not gen.is_connected(m):
                m.dead_links.difference_update(added)
                vr[v] = {Cores: 1}
                continue
            vr[v] = {Cores: 0} if rng.random() < 0.5 else {}
            cons.append(LocationConstraint(v, xy))
            cons.append(RouteEndpointConstraint(v, Routes(l)))
        else:
            vr[v] = {Cores: rng.choice((1, 1, 1, 2, 3)), SDRAM: rng.randint(0, 8)}
    names = list(vr)
    if rng.random() < 0.3 and len(names) > 2:
        pool = [n for n in names if vr[n].get(Cores, 0) > 0]
        grp = rng.sample(pool if len(pool) >= 2 else names, 2)
        if len(set(grp)) == 2 and all(not isinstance(c, LocationConstraint) or c.vertex not in grp for c in cons):
            cons.append(SameChipConstraint(grp))
    if rng.random() < 0.5:
        cons.append(ReserveResourceConstraint(Cores, slice(0, 1)))
    if rng.random() < 0.3:
        xy = rng.choice(chips)
        top = m[xy][Cores]
        if top >= 3:
            cons.append(ReserveResourceConstraint(Cores, slice(top - 2, top), xy))
    nnets = rng.randint(1, 8)
    keys = gen_keys(rng, nnets)
    if keys is None:
        return None
    nets, net_keys = [], {}
    for i in range(nnets):
        src = rng.choice(names)
        k = rng.choice((1, 1, 2, 3, 5, 8))
        sinks = [rng.choice(names) for _ in range(k)]
        n = Net(src, sinks, rng.choice((1, 1, 0, 2.5)))
        nets.append(n)
        net_keys[n] = keys[i]
    return vr, nets, net_keys, m, cons


# ---------------------------------------------------------------------------------------------------------------
# further input families (run after the main problems, so that the main random stream is unchanged)

def gen_broadcast_problem(rng, chk):
    """broadcast-sized nets on a multi-board-sized, non-square, faulty machine: one two-core vertex per chip on
    30-80 % of the chips and 1-3 nets that reach half to all of them.  The trees have far more nodes than the
    router's neighbourhood scan has cells (radius 1 or 2), are cut in many places at once, and the repaired pieces
    are large enough for a repair path to run through the inside of the piece it reconnects."""
    m = None
    for _ in range(30):
        w, h = rng.randint(8, 13), rng.randint(8, 13)
        dead_links = set(gen.mesh_dead_links(w, h)) if rng.random() < 0.4 else set()
        pd = rng.choice((0, 0.03, 0.06))
        dead_chips = {(x, y) for x in range(w) for y in range(h) if rng.random() < pd}
        fr = rng.choice((0.05, 0.1, 0.15, 0.2))
        for (x, y, l) in gen.all_links(w, h):
            if rng.random() < fr:
                dead_links.add((x, y, l))
                if rng.random() < 0.5:
                    dx, dy = l.to_vector()
                    dead_links.add(((x + dx) % w, (y + dy) % h, l.opposite))
        cand = Machine(w, h, chip_resources={Cores: 3, SDRAM: 64}, dead_chips=dead_chips, dead_links=dead_links)
        if gen.is_connected(cand):
            m = cand
            break
    if m is None:
        return None
    nchips = len(list(m))
    nv = max(2, int(nchips * rng.uniform(0.3, 0.8)))
    vr = {"v%d" % i: {Cores: 2, SDRAM: 1} for i in range(nv)}
    names = list(vr)
    nnets = rng.randint(1, 3)
    keys = gen_keys(rng, nnets)
    if keys is None:
        return None
    nets, net_keys = [], {}
    for i in range(nnets):
        n = Net(rng.choice(names), rng.sample(names, rng.randint(nv // 2, nv)))
        nets.append(n)
        net_keys[n] = keys[i]
    return vr, nets, net_keys, m, []


def gen_corridor_problem(rng, chk):
    """a long, narrow machine with as many vertices as chips and many nets with neighbouring keys, most of them
    passing straight through several chips: per-chip tables in which entries that default routing can replace sit
    next to groups of entries with one route - where a merge that catches a passing key, made on one chip only
    because that chip is short of router space, shows"""
    w, h = rng.randint(4, 8), rng.choice((1, 1, 2))
    if rng.random() < 0.5:
        w, h = h, w
    m = Machine(w, h, chip_resources={Cores: 18, SDRAM: 64},
                dead_links=set(gen.mesh_dead_links(w, h)) if rng.random() < 0.5 else set())
    nv = w * h
    vr = {"v%d" % i: {Cores: rng.randint(3, 5)} for i in range(nv)}
    names = list(vr)
    # every vertex pinned to a chip of its own, whichever placer runs
    cons = [LocationConstraint(v, xy) for v, xy in zip(names, sorted(m))]
    nnets = rng.randint(8, 18)
    base = rng.randrange(0, (1 << KW) - nnets)
    fixed = 0xffffffff & ~((1 << KW) - 1)
    keys = [(base + i, 0xffffffff) for i in range(nnets)]
    rng.shuffle(keys)
    nets, net_keys = [], {}
    for i in range(nnets):
        n = Net(rng.choice(names), [rng.choice(names) for _ in range(rng.choice((1, 1, 2)))])
        nets.append(n)
        net_keys[n] = keys[i]
    return vr, nets, net_keys, m, cons


def coreless_variant(rng, p):
    """some ordinary vertices of the problem (sources and sinks of its nets among them) need no core at all: memory
    only, zero cores, or nothing - and, unlike the device vertices, carry no route-endpoint constraint.  Nothing is
    allocated to them, so a packet for them must reach their chip and no core there."""
    vr, nets, net_keys, m, cons = p
    tied = set()
    for c in cons:
        tied.update(getattr(c, "vertices", ()) or ())
        if getattr(c, "vertex", None) is not None:
            tied.add(c.vertex)
    free = [v for v in vr if v not in tied and vr[v].get(Cores, 0) > 0]
    if not free:
        return p
    sinks = [v for v in free if any(v in n.sinks for n in nets)]
    chosen = {rng.choice(sinks or free)} | {v for v in free if rng.random() < 0.3}
    vr = dict(vr)
    for v in chosen:
        k = rng.randint(1, 8)
        vr[v] = rng.choice(({SDRAM: k}, {Cores: 0, SDRAM: k}, {Cores: 0}, {}))
    return vr, nets, net_keys, m, cons


N_PLAIN_PLACERS = 5        # PLACERS[1:6]: the placers that do not anneal (broadcast-sized problems)


def gen_extra_problem(rng, chk, j):
    """-> (problem or None, family, hints)"""
    if j % 11 == 0:
        return gen_broadcast_problem(rng, chk), "broadcast", dict(placer=1 + rng.randrange(N_PLAIN_PLACERS),
                                                                  radius=rng.choice((1, 2, 2)))
    if j % 2 == 1:
        p = gen_problem(rng, chk)
        return (None if p is None else coreless_variant(rng, p)), "coreless", {}
    # long tables, which the wrapper then has to fit into little router space
    if j % 4 == 0:
        return gen_corridor_problem(rng, chk), "corridor", {}
    return gen_dense_problem(rng, chk), "plain", {}


def tight_router_space(rng, tabs, chips):
    """free router space per chip for a second run of the wrapper on the same problem: one to three of the chips
    with the longest tables report less space than the unminimised table needs, the others exactly enough, one more
    than enough, or plenty"""
    by_len = sorted(tabs, key=lambda c: (-len(tabs[c]), c))
    free = {}
    for c in chips:
        n = len(tabs.get(c, ()))
        free[c] = rng.choice((1023, 1023, n, n + 1))
    for c in rng.sample(by_len[:5], min(len(by_len[:5]), rng.randint(1, 3))):
        n = len(tabs[c])
        free[c] = max(1, n - rng.choice((1, 2, 3, max(1, n // 3), max(1, n // 2), max(1, n // 2), max(1, 2 * n // 3))))
    return free


METHOD_SHAPES = [None, None, [oc_mod.minimise], (oc_mod.minimise, remove_default_routes.minimise),
                 [remove_default_routes.minimise, oc_mod.minimise], (remove_default_routes.minimise,)]
METHOD_NAMES = ["default", "default", "[oc]", "(oc, rdr)", "[rdr, oc]", "(rdr,)"]


def system_info_of(machine, busy, rtr_free=None):
    """a SystemInfo describing `machine` (all cores idle except `busy` {(x, y): set(cores)}); `rtr_free` {(x, y): n}
    is the free router space a chip reports (1023 where not given)"""
    rtr_free = rtr_free or {}
    chips = {}
    for (x, y) in machine:
        ncores = machine[(x, y)][Cores]
        states = [AppState.idle] * ncores
        for c in busy.get((x, y), ()):
            if c < ncores:
                states[c] = AppState.run
        links = set(l for l in Links if (x, y, l) in machine)
        chips[(x, y)] = ChipInfo(num_cores=ncores, core_states=states, working_links=links,
                                 largest_free_sdram_block=machine[(x, y)][SDRAM],
                                 largest_free_sram_block=machine[(x, y)].get(SRAM, 0),
                                 largest_free_rtr_mc_block=rtr_free.get((x, y), 1023), ethernet_up=(x, y) == (0, 0),
                                 ip_address="127.0.0.1", local_ethernet_chip=(0, 0))
    si = SystemInfo(machine.width, machine.height, chips)
    return si


PLACERS = [
    ("default", lambda rs: dict()),
    ("hilbert", lambda rs: dict(place=hilbert.place)),
    ("rcm", lambda rs: dict(place=rcm.place)),
    ("breadth_first", lambda rs: dict(place=breadth_first.place)),
    ("sequential", lambda rs: dict(place=sequential.place)),
    ("rand", lambda rs: dict(place=rand.place, place_kwargs=dict(random=random.Random(rs)))),
    ("sa-python", lambda rs: dict(place=sa.place, place_kwargs=dict(random=random.Random(rs), effort=0.1,
                                                                   kernel=PythonKernel))),
]
MINIMISERS = [
    ("none", None),
    ("rdr", (remove_default_routes.minimise,)),
    ("oc", (oc_mod.minimise,)),
    ("chain", (remove_default_routes.minimise, oc_mod.minimise)),
]
GUARDS = (InsufficientResourceError, InvalidConstraintError, MachineHasDisconnectedSubregion,
          MinimisationFailedError, MultisourceRouteError)


def expected_of(nets, placements, allocations, cons, core=Cores):
    endpoints = {c.vertex: c.route for c in cons if isinstance(c, RouteEndpointConstraint)}
    out = []
    for n in nets:
        cores, exits = set(), set()
        for s in n.sinks:
            x, y = placements[s]
            if s in endpoints:
                r = endpoints[s]
                if int(r) < 6:
                    exits.add((x, y, int(r)))
                else:
                    cores.add((x, y, int(r) - 6))
            elif core in allocations.get(s, {}):
                sl = allocations[s][core]
                for c in range(sl.start, sl.stop):
                    cores.add((x, y, c))
        sx, sy = placements[n.source]
        out.append(dict(src=[sx, sy], cores=sorted(list(c) for c in cores), exits=sorted(list(e) for e in exits)))
    return out


def make_trace(chk, rng, machine, nets, net_keys, placements, allocations, cons, tables, label, core=Cores):
    tr = proj.machine_json(machine)
    tr["kw"] = KW
    tr["label"] = label
    tr["tables"] = [[x, y, [enc_entry(e) for e in t]] for (x, y), t in sorted(tables.items())]
    tr["nets"] = expected_of(nets, placements, allocations, cons, core)
    evs = []
    for i, n in enumerate(nets):
        for k in matching_keys(rng, net_keys[n], chk.pick(1, 4)):
            evs.append(["inject", i + 1, k])
    evs.append(["done"])
    tr["ev"] = evs
    return tr


class PipelineDidNotReturn(Exception):
    """a call into rig was still running after CALL_LIMIT seconds (the real tree needs milliseconds): recorded as a
    "raise" event like any other undocumented way to end, instead of the check standing still until its wall limit"""


CALL_LIMIT = float(os.environ.get("VERIF_C01_CALL_LIMIT", "20"))


class call_limit(object):
    def __enter__(self):
        self.on = hasattr(signal, "setitimer") and threading.current_thread() is threading.main_thread()
        if self.on:
            def fire(signum, frame):
                raise PipelineDidNotReturn("no result after %g s" % CALL_LIMIT)
            self.old = signal.signal(signal.SIGALRM, fire)
            signal.setitimer(signal.ITIMER_REAL, CALL_LIMIT)
        return self

    def __exit__(self, *exc):
        if self.on:
            signal.setitimer(signal.ITIMER_REAL, 0)
            signal.signal(signal.SIGALRM, self.old)
        return False


def failure_trace(machine, label, ex):
    """the pipeline ended with an exception that is not one of the documented ways to fail"""
    tr = proj.machine_json(machine)
    tr.update(kw=KW, label=label, tables=[], nets=[], ev=[["raise", type(ex).__name__], ["done"]])
    return tr


def run(chk):
    rng = random.Random(chk.seed)
    chk.design("MulticastDesign", "MulticastDesign_%s.cfg" % chk.tier, expect_actions=("Grow", "Round", "Quiesce"))
    # removing entries that default routing cannot stand in for must be refuted
    r = chk.design("MulticastDesign", "MulticastDesign_wrongdrop.cfg", allow_error=True, label="expected to fail")
    if r.ok or "NoTrouble" not in (r.error or ""):
        from ..core import MachineryError
        raise MachineryError("MulticastDesign with the wrong removal rule should violate NoTrouble: %s" % r.error)
    chk.count("design variants refuted as expected (wrong default-route removal rule)")
    traces = []
    nprob = chk.pick(500, 6000)
    nextra = chk.pick(45, 450)
    rng2 = random.Random(chk.seed * 104729 + 17)      # decisions added later draw here: the main stream is unchanged
    ended = {}
    fams = {}
    for i in range(nprob + nextra):
        fam, hints = "main", {}
        if i < nprob:
            p = gen_problem(rng, chk)
        else:
            p, fam, hints = gen_extra_problem(rng, chk, i - nprob)
        if p is None:
            continue
        vr, nets, net_keys, m, cons = p
        pname, pk = PLACERS[hints.get("placer", i % len(PLACERS))]
        radius = rng.choice((0, 1, 2, 20))
        radius = hints.get("radius", radius)
        fams[fam] = fams.get(fam, 0) + 1
        ftag = "" if fam == "main" else " [%s]" % fam
        rs = chk.seed * 7919 + i
        random.seed(rs)
        kw = pk(rs)
        place_f = kw.get("place", default_place)
        try:
            with call_limit():
                placements = place_f(vr, nets, m, cons, **kw.get("place_kwargs", {}))
                allocations = allocate(vr, nets, m, cons, placements)
                routes = route(vr, nets, m, cons, placements, allocations, Cores, radius)
                tables0 = routing_tree_to_tables(routes, net_keys)
        except GUARDS as ex:
            ended[type(ex).__name__] = ended.get(type(ex).__name__, 0) + 1
            continue
        except Exception as ex:                  # judged by the specification (OnlyDocumentedErrors)
            traces.append(failure_trace(m, "hand %s r=%d%s" % (pname, radius, ftag), ex))
            continue
        for mname, methods in MINIMISERS:
            n_max = max([len(t) for t in tables0.values()] or [0])
            for tgt in ([None] if methods is None else [None, rng.choice((0, max(1, n_max // 2), n_max, 1023))]):
                label = "hand %s r=%d min=%s target=%s%s" % (pname, radius, mname, tgt, ftag)
                if i >= nprob and tgt is not None and rng.random() < 0.5:
                    # the other documented shape of the targets: a dictionary chip -> length or None
                    tgt = {chip: rng.choice((tgt, tgt, None, 1023, len(t))) for chip, t in tables0.items()}
                    label = "hand %s r=%d min=%s target=per chip%s" % (pname, radius, mname, ftag)
                try:
                    with call_limit():
                        tables = tables0 if methods is None else minimise_tables(tables0, tgt, methods)
                except GUARDS as ex:
                    ended[type(ex).__name__] = ended.get(type(ex).__name__, 0) + 1
                    continue
                except Exception as ex:
                    traces.append(failure_trace(m, label, ex))
                    continue
                if methods is not None:
                    note_merged(tables0, tables)
                traces.append(make_trace(chk, rng, m, nets, net_keys, placements, allocations, cons, tables, label))
                chk.note_case((label, traces[-1]["tables"], traces[-1]["nets"]),
                              nontrivial=any(len(t[2]) > 1 for t in traces[-1]["tables"]))
        # through the wrappers
        if i % 3 == 0 or (i >= nprob and fam != "broadcast"):
            busy = {}
            if rng.random() < 0.5:
                for xy in rng.sample(list(m), min(3, len(list(m)))):
                    busy[xy] = set(rng.sample(range(m[xy][Cores]), min(2, m[xy][Cores])))
            busy_all = {xy: set(b) | {0} for xy, b in busy.items()}
            for xy in m:
                busy_all.setdefault(xy, {0})
            si = system_info_of(m, busy_all)
            apps = {v: "app.aplx" for v in vr}
            wcons = [c for c in cons if not isinstance(c, ReserveResourceConstraint)]
            # the wrappers let the caller name the resources; every second call uses names of its own
            own = i % 6 == 0
            names = {Cores: OWN_CORES, SDRAM: OWN_SDRAM, SRAM: OWN_SRAM} if own else {}
            wvr = {v: {names.get(r, r): q for r, q in res.items()} for v, res in vr.items()}
            wkw = dict(core_resource=OWN_CORES, sdram_resource=OWN_SDRAM, sram_resource=OWN_SRAM) if own else {}
            wcore = OWN_CORES if own else Cores
            try:
                random.seed(rs)
                with call_limit():
                    pl, al, amap, tabs = place_and_route_wrapper(wvr, apps, nets, net_keys, si, wcons,
                                                                 route_kwargs=dict(radius=radius),
                                                                 **dict(pk(rs), **wkw))
                m2 = Machine(m.width, m.height, chip_resources=dict(m.chip_resources),
                             chip_resource_exceptions=dict(m.chip_resource_exceptions),
                             dead_chips=set(m.dead_chips), dead_links=set(m.dead_links))
                traces.append(make_trace(chk, rng, m2, nets, net_keys, pl, al, wcons, tabs,
                                         "place_and_route_wrapper %s r=%d%s" % (pname, radius, " own resource names" if own else ""),
                                         core=wcore))
                chk.note_case(("wrapper", traces[-1]["tables"], traces[-1]["nets"]))
                # busy cores must not be used by any vertex
                traces[-1]["busy"] = [[x, y, sorted(b)] for (x, y), b in sorted(busy_all.items())]
                traces[-1]["label"] += ftag
                # once more on a machine whose routers have little room left: the probe reports, chip by chip,
                # less / exactly / just more than the unminimised tables need, so the wrapper's minimisation stage
                # really runs (with 1023 free entries everywhere it never does), chip by chip with another outcome;
                # the caller also chooses the methods
                for rep in range(3 if (tabs and fam == "corridor") else 1 if tabs else 0):
                    free = tight_router_space(rng2, tabs, list(m))
                    shape = rng2.randrange(len(METHOD_SHAPES))
                    mkw = {} if METHOD_SHAPES[shape] is None else dict(minimise_tables_methods=METHOD_SHAPES[shape])
                    tlabel = "place_and_route_wrapper %s r=%d little router space methods=%s%s" % (
                        pname, radius, METHOD_NAMES[shape], ftag)
                    try:
                        random.seed(rs)
                        with call_limit():
                            pl, al, amap, tabs2 = place_and_route_wrapper(
                                wvr, apps, nets, net_keys, system_info_of(m, busy_all, free), wcons,
                                route_kwargs=dict(radius=radius), **dict(pk(rs), **dict(wkw, **mkw)))
                        traces.append(make_trace(chk, rng2, m2, nets, net_keys, pl, al, wcons, tabs2, tlabel, core=wcore))
                        chk.note_case(("wrapper-tight", traces[-1]["tables"], traces[-1]["nets"]))
                        chk.count("wrapper runs on routers with little room")
                        if any(len(tabs2.get(c, ())) < len(t) for c, t in tabs.items()):
                            chk.count("wrapper runs on routers with little room: some table came back shorter")
                        if any((e.key, e.mask) not in {(o.key, o.mask) for o in tabs.get(c, ())}
                               for c, t in tabs2.items() for e in t):
                            chk.count("wrapper runs on routers with little room: some table came back with merged entries")
                    except GUARDS as ex:
                        ended[type(ex).__name__] = ended.get(type(ex).__name__, 0) + 1
                    except Exception as ex:
                        traces.append(failure_trace(m, tlabel, ex))
            except GUARDS as ex:
                ended[type(ex).__name__] = ended.get(type(ex).__name__, 0) + 1
            except Exception as ex:
                traces.append(failure_trace(m, "place_and_route_wrapper %s r=%d%s" % (pname, radius, ftag), ex))
            try:
                with warnings.catch_warnings():
                    warnings.simplefilter("ignore")
                    random.seed(rs)
                    if own:
                        mo = Machine(m.width, m.height,
                                     chip_resources={names.get(r, r): q for r, q in m.chip_resources.items()},
                                     chip_resource_exceptions={xy: {names.get(r, r): q for r, q in res.items()}
                                                               for xy, res in m.chip_resource_exceptions.items()},
                                     dead_chips=set(m.dead_chips), dead_links=set(m.dead_links))
                        okw = dict(core_resource=OWN_CORES, sdram_resource=OWN_SDRAM)
                    else:
                        mo, okw = m, {}
                    with call_limit():
                        pl, al, amap, tabs = old_wrapper(wvr, apps, nets, net_keys, mo, wcons,
                                                         route_kwargs=dict(radius=radius), **dict(pk(rs), **okw))
                traces.append(make_trace(chk, rng, m, nets, net_keys, pl, al, wcons, tabs,
                                         "deprecated wrapper %s r=%d%s" % (pname, radius, " own resource names" if own else ""),
                                         core=wcore))
                chk.note_case(("old-wrapper", traces[-1]["tables"], traces[-1]["nets"]))
                traces[-1]["label"] += ftag
            except GUARDS as ex:
                ended[type(ex).__name__] = ended.get(type(ex).__name__, 0) + 1
            except Exception as ex:
                traces.append(failure_trace(m, "deprecated wrapper %s r=%d%s" % (pname, radius, ftag), ex))
    for k, v in sorted(fams.items()):
        chk.count("problems of family %s" % k, v)
    for k, v in ended.items():
        chk.count("pipeline runs ended by %s (no verdict: the documented way to fail)" % k, v)
    chk.count("packets injected", sum(len(t["ev"]) - 1 for t in traces))
    chk.rule = ("%d generated problems (connected machines up to %dx%d, torus/mesh, dead chips, one- and two-way dead "
                "links, resource exceptions; 1-14 vertices incl. zero-core device vertices with location + endpoint "
                "constraints, same-chip groups, reservations; 1-8 nets with fan-out 1-8, self-loops, repeated sinks, "
                "weights 0/int/float; orthogonal key/masks over %d bits) x placer (7, rotating) x radius x "
                "{no minimisation, default-route removal, ordered covering, chain} x targets, by hand and through "
                "both wrappers; every net's packet is injected with its key, the all-ones completion of its key and "
                "random matching keys. Then %d further problems of four families: broadcast-sized nets (fan-out "
                "half to all of 20-130 vertices) on faulty 8x8..13x13 machines with router radius 1-2; ordinary "
                "vertices that need no core (memory only / zero cores / nothing) as sources and sinks; corridors "
                "(4-8 x 1-2 chips, one pinned vertex per chip, 8-18 nets with neighbouring keys passing through); "
                "dense tables - with per-chip dictionaries of targets by hand. Every successful call of the new "
                "wrapper is repeated on a machine whose routers report little free space (1-3 chips less than "
                "their table needs, the others exactly / one more / plenty) with the caller's choice of methods. "
                "A call into rig that has not returned after %g s is a judged event. "
                "non-trivial = some chip has more than one entry; distinct = distinct "
                "(tables, nets)" % (nprob, chk.pick(7, 12), chk.pick(7, 12), KW, nextra, CALL_LIMIT))
    chk.exhaustive = False
    if traces:
        chk.sample(dict(traces[0], tables=traces[0]["tables"][:3]))
        chk.sample(dict(traces[-1], tables=traces[-1]["tables"][:3]))

    def key_of(tr, i, clauses):
        e = tr["ev"][i - 1]
        return "%s %s net=%s machine=%dx%d dead=%s deadlinks=%d label=%s" % (
            e[0], ",".join(clauses), tr["nets"][e[1] - 1] if e[0] == "inject" else "", tr["w"], tr["h"], tr["dead"],
            len(tr["deadlinks"]), tr["label"])

    chk.validate("MulticastTrace", "MulticastTrace.cfg", traces, key_of=key_of, batch=800)

    # beyond the property: the whole chain on a simulated machine (probe -> place and route -> load), the installed
    # routers executed by TLC
    from . import deploy
    deploy.run_beyond(chk)


def selftest(chk):
    from rig.routing_table import RoutingTableEntry as RTE
    m = Machine(3, 1, chip_resources={Cores: 18, SDRAM: 64})
    full = 0xffffffff
    tables = {(0, 0): [RTE({Routes.east}, 5, full, {None})],
              (1, 0): [RTE({Routes.east, Routes.core(2)}, 5, full, {Routes.west})],
              (2, 0): [RTE({Routes.core(1)}, 5, full, {Routes.west})]}
    net = Net("s", ["a", "b"])
    pl = {"s": (0, 0), "a": (1, 0), "b": (2, 0)}
    al = {"s": {Cores: slice(1, 2)}, "a": {Cores: slice(2, 3)}, "b": {Cores: slice(1, 2)}}

    class K(object):
        quick = True

        def pick(self, a, b):
            return a
    good = make_trace(K(), random.Random(0), m, [net], {net: (5, full)}, pl, al, [], tables, "selftest")
    import copy

    def mut(f):
        t = copy.deepcopy(good); f(t); return t
    cases = [
        (good, None),
        (mut(lambda t: t["tables"][1][2][0].__setitem__(4, 1)), "ExactDelivery"),            # core route lost
        (mut(lambda t: t["tables"][2][2][0].__setitem__(4, (1 << 7) | 1)), "NoCirculation"),  # wraps round the torus
        (mut(lambda t: t["tables"].__delitem__(0)), "NoDrop"),                                # no entry at the source
        (mut(lambda t: t["deadlinks"].append([1, 0, 0])), "LiveHardwareOnly"),
        (mut(lambda t: t["nets"][0]["cores"].pop()), "ExactDelivery"),
        (mut(lambda t: t["tables"][1][2][0].__setitem__(3, 0)), "FixedBits"),
    ]
    rej = chk.validate("MulticastTrace", "MulticastTrace.cfg", [c[0] for c in cases])
    got = {id(t): cl for t, _, cl in rej}
    msgs = []
    for t, want in cases:
        cl = got.get(id(t))
        if (want is None) != (cl is None) or (want and want not in cl):
            msgs.append("expected %s, got %s" % (want, cl))
    return not msgs, "; ".join(msgs) or "%d corrupted traces rejected with the expected clauses" % (len(cases) - 1)
