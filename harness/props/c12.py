"""C12 - flood-fill region list selects exactly the requested chips and cores.

D: RegionsDesign.tla - the collapse rule on a scaled hierarchy, every insertion order.
T: compress_flood_fill_regions / get_region_for_chip results as events judged by RegionsTrace.tla
   (covering + counting, strict order, well-formed words).
"""
import random
import struct

from rig.machine_control import regions


def word_bytes(w):
    return list(struct.pack(">I", w))


def block(x0, y0, n, cores):
    return {(x0 + dx, y0 + dy): set(cores) for dx in range(n) for dy in range(n)}


def gen_targets(rng, chk):
    """structured target sets: sparse, full / nearly full blocks of every level, straddling, mixed cores"""
    out = []
    # sparse
    for n in (1, 2, 5, 17, 60):
        t = {}
        for _ in range(n):
            t.setdefault((rng.randrange(256), rng.randrange(256)), set()).update(
                rng.sample(range(18), rng.randint(1, 4)))
        out.append(t)
    sizes = [4, 16] + ([64] if True else [])
    for n in sizes:
        reps = chk.pick(3, 10) if n < 64 else chk.pick(1, 3)
        for rep in range(reps):
            aligned = rep % 2 == 0
            x0 = rng.randrange(0, 256 - n + 1, n) if aligned else rng.randrange(0, 256 - n)
            y0 = rng.randrange(0, 256 - n + 1, n) if aligned else rng.randrange(0, 256 - n)
            cores = rng.sample(range(18), rng.randint(1, 3))
            t = block(x0, y0, n, cores)
            out.append(dict(t))                                   # full
            t2 = dict(t); t2.pop(rng.choice(sorted(t2)))
            out.append(t2)                                        # one chip short
            t3 = {k: set(v) for k, v in t.items()}
            k = rng.choice(sorted(t3)); t3[k] = set(t3[k]) | {rng.randrange(18)}
            k = rng.choice(sorted(t3)); t3[k] = set(list(t3[k])[:1])
            out.append(t3)                                        # different core sets on neighbours
            t4 = {k: set(v) for k, v in t.items()}
            # a second, sparse core inside the full block and a neighbouring partial block
            for _ in range(3):
                k = rng.choice(sorted(t4)); t4[k] = set(t4[k]) | {(cores[0] + 1) % 18}
            if x0 + 2 * n <= 256:
                for (k, v) in block(x0 + n, y0, n, [cores[0]]).items():
                    if rng.random() < 0.9:
                        t4[k] = set(v)
            out.append(t4)
    # a whole machine that is exactly one block (every chip of an origin-anchored 4x4 / 16x16 / 64x64), and nothing else
    for n in (4, 16, 64):
        out.append(block(0, 0, n, [1]))
        out.append(block(0, 0, n, [0, 17]))
    # cores 16 and 17 with neighbours differing in the low select bits
    out.append({(0, 0): {17}, (1, 0): {1}})
    out.append({(0, 0): {16}, (1, 0): {0}, (2, 0): {17, 1}})
    # several full 4x4 blocks filling a 16x16 except one, per core
    t = {}
    for bx in range(4):
        for by in range(4):
            if (bx, by) != (2, 1):
                t.update(block(32 + 4 * bx, 48 + 4 * by, 4, [3]))
    t.update(block(32 + 8, 48 + 4, 4, [5]))
    out.append(t)
    out.append({})
    return out


def run(chk):
    rng = random.Random(chk.seed)
    chk.design("RegionsDesign", "RegionsDesign.cfg", expect_actions=("AddCore",))
    traces = []
    targets = gen_targets(rng, chk)
    for rep in range(chk.pick(40, 1500)):           # random medium-density sets in a small window
        x0, y0 = rng.randrange(0, 240), rng.randrange(0, 240)
        t = {}
        for _ in range(rng.randint(1, 120)):
            t.setdefault((x0 + rng.randrange(9), y0 + rng.randrange(9)), set()).add(rng.choice((0, 1, 17)))
        targets.append(t)
    for t in targets:
        pairs = list(regions.compress_flood_fill_regions(t))
        tg = [[x, y, sorted(int(c) for c in cs)] for (x, y), cs in sorted(t.items())]
        ev = ["ff", tg, [word_bytes(r) + [int(m)] for r, m in pairs]]
        traces.append(dict(ev=[ev]))
        chk.note_case(tg, nontrivial=len(tg) > 1)
    # the caller's own history: one dictionary object, changed in place between calls (a core added to / removed
    # from a chip's set, a set replaced, a chip added) - the answer is a function of the argument's CONTENTS
    for rep in range(chk.pick(60, 1500)):
        t = {k: set(v) for k, v in rng.choice(targets).items()} or {(3, 3): {1}}
        evs = []
        for step in range(4):
            pairs = list(regions.compress_flood_fill_regions(t))
            tg = [[x, y, sorted(int(c) for c in cs)] for (x, y), cs in sorted(t.items())]
            evs.append(["ff", tg, [word_bytes(r) + [int(m)] for r, m in pairs]])
            chk.note_case(("history", step, tg), nontrivial=len(tg) > 1)
            xy = rng.choice(sorted(t))
            how = rng.randrange(4)
            if how == 0:
                t[xy].add(rng.choice([c for c in range(18) if c not in t[xy]] or [0]))
            elif how == 1 and len(t[xy]) > 1:
                t[xy].discard(rng.choice(sorted(t[xy])))
            elif how == 2:
                t[xy] = {rng.randrange(18)}
            else:
                t[((xy[0] + 1) % 256, xy[1])] = {rng.randrange(18)}
        traces.append(dict(ev=evs, label="one dictionary changed in place between calls"))
    # the pairs as they are PRODUCED FOR A FLOOD FILL: MachineController.flood_fill_aplx with an application map of
    # two or three binaries against the simulated machine; the core-select packets the machine received between the
    # start and the end of each fill are that binary's pairs (the fill is matched to its binary by the data it
    # carried), judged exactly like a return value of compress_flood_fill_regions
    from . import c09
    wd = c09.Workdir(chk)
    wired = 0
    for rep in range(chk.pick(15, 300)):
        w, h = rng.choice(((2, 2), (4, 4), (5, 3), (8, 8)))
        free = [(x, y, p) for x in range(w) for y in range(h) for p in range(1, 18)]
        rng.shuffle(free)
        bins = []
        for i in range(rng.randint(2, 3)):
            data = bytes(bytearray([i + 1] + [rng.randrange(256) for _ in range(4 * rng.randint(1, 60) - 1)]))
            tg = {}
            for _ in range(rng.choice((1, 3, 17, 40, 90))):
                if free:
                    x, y, p = free.pop()
                    tg.setdefault((x, y), set()).add(p)
            if tg:
                bins.append((data, tg))
        if len(bins) < 2:
            continue
        sc = dict(w=w, h=h, ncores=18, buf=rng.choice((64, 256)), app=30 + rep % 200, wait=1, ntries=1, usecount=0,
                  style="map", bins=bins, miss=[], label="C12: pairs on the wire")
        tr9, _, _ = c09.run_scenario(wd, sc)
        cur = None
        for e in tr9["ev"]:
            if e[0] == "start":
                cur = dict(sel=[], data=[])
            elif cur is not None and e[0] == "select":
                cur["sel"].append(list(e[1]) + [int(e[2])])
            elif cur is not None and e[0] == "data":
                cur["data"] += list(e[6])
            elif cur is not None and e[0] == "end":
                which = [tg for d, tg in bins if list(bytearray(d)) == cur["data"]]
                if len(which) == 1:
                    tg = [[x, y, sorted(int(c) for c in cs)] for (x, y), cs in sorted(which[0].items())]
                    traces.append(dict(ev=[["ff", tg, cur["sel"]]], label="flood_fill_aplx, pairs as received"))
                    chk.note_case(("wire", tg), nontrivial=True)
                    wired += 1
                else:
                    chk.count("fills whose data is no requested binary (left to C09)")
                cur = None
    chk.count("fills of multi-binary loads whose core-select packets were judged", wired)
    evs = []
    for _ in range(chk.pick(300, 10000)):
        x, y, lv = rng.randrange(256), rng.randrange(256), rng.randrange(4)
        evs.append(["chip", x, y, lv, word_bytes(regions.get_region_for_chip(x, y, lv))])
        chk.note_case(("chip", x, y, lv))
    for x, y in ((0, 0), (255, 255), (3, 4), (252, 3)):
        evs.append(["chip", x, y, 3, word_bytes(regions.get_region_for_chip(x, y))])
    traces.append(dict(ev=evs))
    # ---- job R: insertion orders chosen by TLC's simulator (RegionsSim) are replayed into the real tree; the
    # observable after every few insertions is judged like any other result
    from .. import tlc as tlcmod
    from ..core import MachineryError
    import re
    r = tlcmod.run_tlc("RegionsSim", "RegionsSim.cfg", workers=1, timeout=3000,
                       simulate="num=%d" % chk.pick(60, 1200), depth=70, seed=chk.seed + 1)
    chk.jobs.append(dict(job="S", module="RegionsSim", cfg="RegionsSim.cfg", **r.summary()))
    if not r.ok or not r.infos:
        raise MachineryError("simulation of RegionsSim failed: %s" % (r.error or "no behaviour printed"))
    ox, oy = 16 * rng.randrange(16), 16 * rng.randrange(16)        # where the 16x16 area sits in the machine
    for line in sorted(set(r.infos)):
        order = [tuple(int(v) for v in m) for m in re.findall(r"<<(\d+), (\d+), (\d+)>>", line)]
        tree = regions.RegionCoreTree()
        sofar = {}
        evs = []
        for n, (b, c, p) in enumerate(order, 1):
            x, y = ox + 4 * (b % 4) + c % 4, oy + 4 * (b // 4) + c // 4
            tree.add_core(x, y, p)
            sofar.setdefault((x, y), set()).add(p)
            if n % 8 == 0 or n == len(order):
                pairs = sorted(tree.get_regions_and_coremasks())
                tg = [[tx, ty, sorted(cs)] for (tx, ty), cs in sorted(sofar.items())]
                evs.append(["ff", tg, [word_bytes(w) + [int(mk)] for w, mk in pairs]])
        traces.append(dict(ev=evs, label="tlc-simulated insertion order"))
        chk.replayed += 1
        chk.note_case(("order", order[:12]))
    chk.extra["tlc_simulated_behaviours_replayed_into_impl"] = chk.replayed

    chk.rule = ("target sets: sparse random; full, one-chip-short, mixed-core and two-core 4x4 / 16x16 / 64x64 blocks at "
                "aligned and straddling positions; cores 16/17; dense random 9x9 windows; empty set; random "
                "get_region_for_chip calls at all four levels. non-trivial = more than one target chip; distinct = "
                "distinct target set")
    chk.exhaustive = False
    chk.sample(traces[0]["ev"][0]); chk.sample(traces[-2]["ev"][0]); chk.sample(evs[0])

    def key_of(tr, i, clauses):
        e = tr["ev"][i - 1]
        return "%s %s %s" % (e[0], ",".join(clauses), (str(e[1])[:80]))

    chk.validate("RegionsTrace", "RegionsTrace.cfg", traces, key_of=key_of, batch=2000)


def selftest(chk):
    t = {(0, 0): {1}, (1, 0): {1, 2}}
    pairs = [word_bytes(r) + [int(m)] for r, m in regions.compress_flood_fill_regions(t)]
    tg = [[x, y, sorted(cs)] for (x, y), cs in sorted(t.items())]
    cases = [
        (dict(ev=[["ff", tg, pairs]]), None),
        (dict(ev=[["ff", tg, pairs[:-1]]]), "NothingMissing"),
        (dict(ev=[["ff", tg, pairs + [[4, 3, 0, 1, 1]]]]), "NothingExtraOrTwice"),
        (dict(ev=[["ff", tg, pairs[::-1]]]), "StrictlyIncreasing"),
        (dict(ev=[["chip", 5, 6, 3, word_bytes(regions.get_region_for_chip(6, 6))]]), "ChipRegionCovers"),
    ]
    rej = chk.validate("RegionsTrace", "RegionsTrace.cfg", [c[0] for c in cases])
    got = {id(t): cl for t, _, cl in rej}
    msgs = []
    for tr, want in cases:
        cl = got.get(id(tr))
        if (want is None) != (cl is None) or (want and want not in cl):
            msgs.append("expected %s, got %s" % (want, cl))
    return not msgs, "; ".join(msgs) or "%d corrupted traces rejected with the expected clauses" % (len(cases) - 1)
