"""C12 - flood-fill region list selects exactly the requested chips and cores.

D: RegionsDesign.tla - the collapse rule on a scaled hierarchy, every insertion order.
T: compress_flood_fill_regions / get_region_for_chip results as events judged by RegionsTrace.tla
   (covering + counting, strict order, well-formed words); the core-select packets of real flood fills, first
   and repeated after faults (a repeated fill is judged against what the machine had not loaded yet).
"""
import random
import struct

from rig.machine_control import regions


def word_bytes(w):
    return list(struct.pack(">I", w))


def block(x0, y0, n, cores):
    return {(x0 + dx, y0 + dy): set(cores) for dx in range(n) for dy in range(n)}


def gen_targets(rng, chk):
    """structured target sets: sparse, full / nearly full blocks of every level, straddling, mixed cores"""
    out = []
    # sparse
    for n in (1, 2, 5, 17, 60):
        t = {}
        for _ in range(n):
            t.setdefault((rng.randrange(256), rng.randrange(256)), set()).update(
                rng.sample(range(18), rng.randint(1, 4)))
        out.append(t)
    sizes = [4, 16] + ([64] if True else [])
    for n in sizes:
        reps = chk.pick(3, 10) if n < 64 else chk.pick(1, 3)
        for rep in range(reps):
            aligned = rep % 2 == 0
            x0 = rng.randrange(0, 256 - n + 1, n) if aligned else rng.randrange(0, 256 - n)
            y0 = rng.randrange(0, 256 - n + 1, n) if aligned else rng.randrange(0, 256 - n)
            cores = rng.sample(range(18), rng.randint(1, 3))
            t = block(x0, y0, n, cores)
            out.append(dict(t))                                   # full
            t2 = dict(t); t2.pop(rng.choice(sorted(t2)))
            out.append(t2)                                        # one chip short
            t3 = {k: set(v) for k, v in t.items()}
            k = rng.choice(sorted(t3)); t3[k] = set(t3[k]) | {rng.randrange(18)}
            k = rng.choice(sorted(t3)); t3[k] = set(list(t3[k])[:1])
            out.append(t3)                                        # different core sets on neighbours
            t4 = {k: set(v) for k, v in t.items()}
            # a second, sparse core inside the full block and a neighbouring partial block
            for _ in range(3):
                k = rng.choice(sorted(t4)); t4[k] = set(t4[k]) | {(cores[0] + 1) % 18}
            if x0 + 2 * n <= 256:
                for (k, v) in block(x0 + n, y0, n, [cores[0]]).items():
                    if rng.random() < 0.9:
                        t4[k] = set(v)
            out.append(t4)
    # a whole machine that is exactly one block (every chip of an origin-anchored 4x4 / 16x16 / 64x64), and nothing else
    for n in (4, 16, 64):
        out.append(block(0, 0, n, [1]))
        out.append(block(0, 0, n, [0, 17]))
    # cores 16 and 17 with neighbours differing in the low select bits
    out.append({(0, 0): {17}, (1, 0): {1}})
    out.append({(0, 0): {16}, (1, 0): {0}, (2, 0): {17, 1}})
    # several full 4x4 blocks filling a 16x16 except one, per core
    t = {}
    for bx in range(4):
        for by in range(4):
            if (bx, by) != (2, 1):
                t.update(block(32 + 4 * bx, 48 + 4 * by, 4, [3]))
    t.update(block(32 + 8, 48 + 4, 4, [5]))
    out.append(t)
    out.append({})
    return out


def canon(plain):
    return [[int(x), int(y), sorted(int(c) for c in cs)] for (x, y), cs in sorted(plain.items())]


def ff_event(plain, pairs):
    return ["ff", canon(plain), [word_bytes(int(r)) + [int(m)] for r, m in pairs]]


def call_ff(arg):
    """compress_flood_fill_regions on any argument; an exception of rig becomes an (ill-formed) pair, never a crash"""
    try:
        return list(regions.compress_flood_fill_regions(arg)), None
    except Exception as exc:                                   # judged: WellFormedWords rejects the zero word
        return [(0, 0)], "%s: %s" % (type(exc).__name__, str(exc)[:80])


# (the documented type is {(x, y): set of cores}: lists with repeats, tuples and one-shot iterators were tried by the
# sixth-session audit and taken out again - an implementation that reads a core collection twice, or uses set
# operations on it, is within the documentation: seeded-benign/C12-validate-out-of-range raised a false alarm)
SHAPES = ("frozenset", "reversed OrderedDict", "shuffled dict", "defaultdict", "numpy int64")


def dress(plain, shape, rng):
    """the same target set as another legal argument object (the answer is a function of the set it denotes)"""
    import collections
    items = sorted(plain.items())
    if shape == "list with repeats":
        out = {}
        for k, cs in items:
            lst = [c for c in cs for _ in range(rng.randint(1, 3))]
            rng.shuffle(lst)
            out[k] = lst
        return out
    if shape == "tuple":
        return {k: tuple(sorted(cs, reverse=True)) for k, cs in items}
    if shape == "frozenset":
        return {k: frozenset(cs) for k, cs in items}
    if shape == "one-shot iterator":
        return {k: iter(sorted(cs)) for k, cs in items}
    if shape == "reversed OrderedDict":
        return collections.OrderedDict((k, set(cs)) for k, cs in reversed(items))
    if shape == "shuffled dict":
        rng.shuffle(items)
        return {k: set(cs) for k, cs in items}
    if shape == "defaultdict":
        out = collections.defaultdict(set)
        rng.shuffle(items)
        for k, cs in items:
            out[k] |= set(cs)
        return out
    if shape == "numpy int64":
        import numpy
        return {(numpy.int64(x), numpy.int64(y)): set(numpy.int64(c) for c in cs) for (x, y), cs in items}
    raise ValueError(shape)


def gen_far(rng, chk, traces):
    """the far ends of the quantifier that the structured sets above do not reach: the top of the hierarchy (the whole
    256 x 256 machine, several 64 x 64 blocks in one level-0 word), all eighteen cores, chips with an empty core set,
    other legal argument objects, and the tree used as its docstring describes it (a sequence of add_core calls, with
    cores named more than once, two trees alive at once, read out more than once)"""
    c1, c2 = rng.sample(range(18), 2)
    # ---- whole machine
    whole = block(0, 0, 256, [c1])
    w2 = {k: set(v) for k, v in whole.items()}
    w2.pop((rng.randrange(256), rng.randrange(256)))
    bl = rng.sample([(bx, by) for bx in range(4) for by in range(4)], 4)
    w3 = {}
    w3.update(block(64 * bl[0][0], 64 * bl[0][1], 64, [c1]))
    w3.update(block(64 * bl[1][0], 64 * bl[1][1], 64, [c1]))
    w3.update(block(64 * bl[2][0], 64 * bl[2][1], 64, [c1, c2]))
    w3.update(block(64 * bl[3][0] + 16, 64 * bl[3][1] + 32, 16, [c2]))
    big = [("whole machine one chip short, chips in shuffled order", w2, "shuffled dict"),
           ("three full 64x64 blocks (two cores) and a 16x16 block", w3, "shuffled dict")]
    for label, plain, shape in big:
        pairs, exc = call_ff(dress(plain, shape, rng) if shape else plain)
        traces.append(dict(ev=[ff_event(plain, pairs)], label=label + (" - " + exc if exc else "")))
        chk.note_case(("far", label, len(plain), c1, c2), nontrivial=True)
        chk.count("whole-machine / level-0 target sets")
    # ---- plain sets to be dressed: blocks that collapse twice, all eighteen cores, empty core sets, a window
    def pool():
        x16, y16 = 16 * rng.randrange(16), 16 * rng.randrange(16)
        p1 = block(x16, y16, 16, [c1, c2])
        for _ in range(3):
            p1[(x16 + rng.randrange(16), y16 + rng.randrange(16))].add((c2 + 1) % 18)
        x4, y4 = 4 * rng.randrange(64), 4 * rng.randrange(64)
        p2 = block(x4, y4, 4, range(18))
        p2[((x4 + 4) % 256, y4)] = set(range(18))
        p2[((x4 + 5) % 256, y4)] = set(range(18)) - {rng.randrange(18)}
        p3 = block(x16, y16, 16, range(18))
        p3.pop((x16 + rng.randrange(16), y16 + rng.randrange(16)))
        p4 = {}
        xw, yw = rng.randrange(240), rng.randrange(240)
        for _ in range(rng.randint(20, 120)):
            p4.setdefault((xw + rng.randrange(9), yw + rng.randrange(9)), set()).add(rng.choice((0, 1, 16, 17)))
        for _ in range(4):                                      # chips named with no core: nothing is requested there
            p4[(xw + rng.randrange(12), yw + rng.randrange(12))] = set()
        p5 = {(rng.randrange(256), rng.randrange(256)): set()}
        return [p1, p2, p3, p4, p5]
    for shape in SHAPES:
        for plain in pool():
            pairs, exc = call_ff(dress(plain, shape, rng))
            traces.append(dict(ev=[ff_event(plain, pairs)], label="argument shape: " + shape + (" - " + exc if exc else "")))
            chk.note_case(("shape", shape, canon(plain)[:40]), nontrivial=len(plain) > 1)
            chk.count("target sets given as " + shape)
    # every core of one dictionary in one shared set object (the caller built the map with one set per application)
    shared = set([c1, c2])
    plain = block(16 * rng.randrange(16), 16 * rng.randrange(16), 16, shared)
    arg = {k: shared for k in plain}
    pairs, exc = call_ff(arg)
    traces.append(dict(ev=[ff_event(plain, pairs)], label="one set object shared by all chips" + (" - " + exc if exc else "")))
    # ---- the tree itself: add_core sequences in which cores are named again (before and after their block has
    # collapsed), read out part-way and twice at the end; the pairs are sorted as compress_flood_fill_regions does
    broken = set()                                              # trees whose add_core raised: an exception of rig
    def read(tree, sofar):                                      # is reported as an ill-formed pair, never a crash
        try:
            pairs = sorted(tree.get_regions_and_coremasks())
        except Exception:
            pairs = [(0, 0)]
        return ff_event(sofar, [(0, 0)] if id(tree) in broken else pairs)
    def feed(tree, sofar, x, y, p):
        sofar.setdefault((x, y), set()).add(p)
        try:
            tree.add_core(x, y, p)
        except Exception:
            chk.count("add_core raised on an in-range core")
            broken.add(id(tree))
    for rep in range(chk.pick(6, 60)):
        kind = rep % 3 if rep < 3 or not chk.quick else 2 * (rep % 2)    # one 64x64 sequence in the quick tier
        if kind == 0:
            x0, y0 = 16 * rng.randrange(16), 16 * rng.randrange(16)
            plain = block(x0, y0, 16, [c1])
            for k in rng.sample(sorted(plain), 40):
                plain[k].add(c2)
        elif kind == 1:
            x0, y0 = 64 * rng.randrange(4), 64 * rng.randrange(4)
            plain = block(x0, y0, 64, [c2])
            plain.update(block(x0 + 16, y0 + 48, 16, [c1, c2]))
            plain.pop((x0 + rng.randrange(64), y0 + rng.randrange(64)))
        else:
            plain = {}
            xw, yw = rng.randrange(248), rng.randrange(248)
            for _ in range(rng.randint(30, 150)):
                plain.setdefault((xw + rng.randrange(8), yw + rng.randrange(8)), set()).add(rng.choice((c1, c2, 17)))
        seq = [(x, y, p) for (x, y), cs in sorted(plain.items()) for p in sorted(cs)]
        rng.shuffle(seq)
        tree, sofar, evs = regions.RegionCoreTree(), {}, []
        marks = set(len(seq) * q // 4 for q in ((1, 2, 3) if kind != 1 else (2,)))
        for n, (x, y, p) in enumerate(seq, 1):
            feed(tree, sofar, x, y, p)
            if rng.random() < 0.15:                             # named again straight away / an earlier one again
                feed(tree, sofar, *rng.choice(seq[:n]))
            if n in marks:
                evs.append(read(tree, sofar))
        evs.append(read(tree, sofar))
        again = list(seq)
        rng.shuffle(again)
        for x, y, p in again[:max(50, len(again) // 3)]:        # after every block that could collapse has collapsed
            feed(tree, sofar, x, y, p)
        evs.append(read(tree, sofar))
        if kind != 1:
            evs.append(read(tree, sofar))                       # reading out changes nothing
        traces.append(dict(ev=evs, label="add_core sequence with cores named again"))
        chk.note_case(("again", kind, canon(plain)[:30]), nontrivial=True)
        chk.count("add_core sequences with cores named again")
    # the whole machine through the tree, then some of its cores named again
    tree, sofar = regions.RegionCoreTree(), {}
    for (x, y) in sorted(whole):
        feed(tree, sofar, x, y, c2)
    for _ in range(200):
        feed(tree, sofar, rng.randrange(256), rng.randrange(256), c2)
    for _ in range(3):                                          # and a second core on three chips
        feed(tree, sofar, rng.randrange(256), rng.randrange(256), c1)
    traces.append(dict(ev=[read(tree, sofar)], label="whole machine by add_core, cores named again"))
    chk.count("whole-machine / level-0 target sets")
    # ---- two trees alive at once, fed alternately
    for rep in range(chk.pick(4, 40)):
        x0, y0 = 16 * rng.randrange(15), 16 * rng.randrange(16)
        pa = block(x0, y0, 16, [c1]) if rep % 2 == 0 else block(x0 + 4, y0 + 4, 4, [c1, c2])
        pb = block(x0, y0, 4, [c1])
        pb.update(block(x0 + 16, y0, 16, [c2]))
        for k in rng.sample(sorted(pb), 5):
            pb[k].add(c1)
        sa = [(x, y, p) for (x, y), cs in sorted(pa.items()) for p in sorted(cs)]
        sb = [(x, y, p) for (x, y), cs in sorted(pb.items()) for p in sorted(cs)]
        rng.shuffle(sa); rng.shuffle(sb)
        ta, tb, fa, fb, ea, eb = regions.RegionCoreTree(), regions.RegionCoreTree(), {}, {}, [], []
        while sa or sb:
            if sa and (not sb or rng.random() < 0.5):
                feed(ta, fa, *sa.pop())
            else:
                feed(tb, fb, *sb.pop())
            if rng.random() < 0.01:
                ea.append(read(ta, fa)); eb.append(read(tb, fb))
        ea.append(read(ta, fa)); eb.append(read(tb, fb)); ea.append(read(ta, fa))
        traces.append(dict(ev=ea, label="two trees alive at once (first)"))
        traces.append(dict(ev=eb, label="two trees alive at once (second)"))
        chk.note_case(("two trees", x0, y0, rep % 2), nontrivial=True)
        chk.count("pairs of trees fed alternately")


def wire_events(chk, tr9, bins, traces):
    """the core-select packets the machine received between the start and the end of each fill of one recorded load,
    as events: the first fill of a binary is asked for the binary's targets ("ff"); a later fill of the same binary
    (a retry) for what is still missing of them - the event carries the targets and every core the machine reported
    as loaded by this binary's earlier fills ("refill"; the specification takes the difference).  Returns the number
    of first fills and of later fills judged."""
    first = again = 0
    got = {}                                                    # binary -> {(x, y, p)} loaded by its fills so far
    cur = None
    for e in tr9["ev"]:
        if e[0] == "start":
            cur = dict(sel=[], data=[])
        elif cur is not None and e[0] == "select":
            cur["sel"].append(list(e[1]) + [int(e[2])])
        elif cur is not None and e[0] == "data":
            cur["data"] += list(e[6])
        elif cur is not None and e[0] == "end":
            which = [b for b, (d, _) in enumerate(bins) if list(bytearray(d)) == cur["data"]]
            if len(which) == 1:
                b = which[0]
                tg = [[x, y, sorted(int(c) for c in cs)] for (x, y), cs in sorted(bins[b][1].items())]
                if b not in got:
                    traces.append(dict(ev=[["ff", tg, cur["sel"]]], label="flood_fill_aplx, pairs as received"))
                    chk.note_case(("wire", tg), nontrivial=True)
                    first += 1
                else:
                    traces.append(dict(ev=[["refill", tg, [list(c) for c in sorted(got[b])], cur["sel"]]],
                                       label="load_application, pairs of a retry fill as received"))
                    chk.note_case(("rewire", tg, sorted(got[b])), nontrivial=True)
                    again += 1
                got.setdefault(b, set()).update(tuple(int(v) for v in c) for c in e[4])
            else:
                chk.count("fills whose data is no requested binary (left to C09)")
            cur = None
    return first, again


def gen_refills(rng, chk, wd, traces):
    """loads that do not succeed at once: an application map of one to three binaries, each on several chips with
    different cores, against a machine on which whole chips miss a fill and single cores do not come up after it
    (both per fill, by a random schedule); load_application repeats the load of what is missing.  Every fill's
    core-select packets are judged: a repeated fill must select exactly the cores still missing at that time."""
    from . import c09
    from ..env.simnet import SimNet
    from ..env.spinnaker_sim import STATE_IDLE
    from rig.machine_control import scp_connection, machine_controller

    class CoreFaultMachine(c09.AppMaskMachine):
        """cores that do not come up: when a fill ends, the cores the schedule names for that fill (the n-th since the
        machine was reset) are left as they were at power-on, and the machine does not report them as loaded"""
        nfill = 0
        dud = staticmethod(lambda n, x, y, p: False)

        def _cmd_20(self, chip, p, a, data, rec):
            res = c09.AppMaskMachine._cmd_20(self, chip, p, a, data, rec)
            ff = rec.get("ff")
            if ff is not None and ff[0] == "start":
                self.nfill += 1
            elif ff is not None and ff[0] == "end" and "loaded" in rec:
                kept = []
                for (x, y, i) in rec["loaded"]:
                    if self.dud(self.nfill, x, y, i):
                        c = self.chips[(x, y)]
                        c.core_state[i], c.core_app[i], c.core_image[i] = STATE_IDLE, 0, None
                        self._sync_core(c, i)
                    else:
                        kept.append((x, y, i))
                rec["loaded"] = kept
            return res

    sims = {}
    judged = [0, 0]
    raised = 0
    for rep in range(chk.pick(40, 600)):
        w, h = rng.choice(((2, 1), (2, 2), (3, 3), (4, 4), (5, 3), (8, 8)))
        chips = [(x, y) for x in range(w) for y in range(h)]
        nb = rng.choice((1, 2, 2, 3))
        bins = []
        taken = set()
        for i in range(nb):
            data = bytes(bytearray([i + 1] + [rng.randrange(256) for _ in range(4 * rng.randint(1, 40) - 1)]))
            tg = {}
            for xy in rng.sample(chips, min(len(chips), rng.choice((2, 2, 3, 5, 9, 30)))):
                ps = [p for p in range(1, 18) if (xy, p) not in taken]
                ps = rng.sample(ps, min(len(ps), rng.choice((1, 1, 2, 3, 6))))
                if ps:
                    tg[xy] = set(ps)
                    taken.update((xy, p) for p in ps)
            if tg:
                bins.append((data, tg))
        if not bins:
            continue
        ntries = rng.choice((1, 2, 2, 3))
        nfills = (ntries + 1) * len(bins)
        targeted = sorted({xy for _, tg in bins for xy in tg})
        pm, pd = rng.choice(((0.3, 0.0), (0.0, 0.3), (0.2, 0.2), (0.1, 0.5)))
        miss = [[xy for xy in targeted if rng.random() < pm] for _ in range(nfills)]
        duds = [set((xy[0], xy[1], p) for _, tg in bins for xy, ps in tg.items() for p in ps if rng.random() < pd)
                for _ in range(nfills)]
        if rep % 2:                                             # whichever binary's fill comes first: one of its
            for _, tg in bins:                                  # cores, on one of its chips, does not come up
                xy = rng.choice(sorted(tg))
                for k in range(len(bins)):
                    duds[k].add((xy[0], xy[1], rng.choice(sorted(tg[xy]))))
        sc = dict(w=w, h=h, ncores=18, buf=rng.choice((64, 256)), app=30 + rep % 200, wait=rng.randrange(2),
                  ntries=ntries, usecount=rng.randrange(2), style="two" if len(bins) == 1 and rep % 2 else "map",
                  shape=rng.choice(("dict", "dict", "ordered", "appmap", "frozen")), bins=bins, miss=miss,
                  label="C12: pairs of retry fills on the wire")
        sim = sims.get((w, h))
        if sim is None:
            sim = sims[(w, h)] = CoreFaultMachine(w, h, c09.STRUCT_TEXT)
        c09.reset_sim(sim, sc["buf"], 18)
        sim.nfill = 0
        sim.dud = lambda n, x, y, p, duds=duds: n <= len(duds) and (x, y, p) in duds[n - 1]
        net = SimNet(sim)
        net.install(scp_connection, machine_controller)
        try:
            tr9, _ = c09.one_call(sim, machine_controller.MachineController("sim"), wd, sc)
        finally:
            net.uninstall()
            sim.dud = lambda n, x, y, p: False
        first, again = wire_events(chk, tr9, bins, traces)
        judged[0] += first
        judged[1] += again
        raised += tr9["ev"][-1][0] == "raise"
    chk.count("first fills of faulty loads whose core-select packets were judged", judged[0])
    chk.count("retry fills whose core-select packets were judged against what was still missing", judged[1])
    chk.count("faulty loads that ended in an exception", raised)


def gen_chip_sweep(rng, chk, traces):
    """get_region_for_chip as a long-running program on a big machine uses it: in ONE process, for thousands of chips
    spread over the whole 256 x 256 address range, at every level, in shuffled order, every question asked twice at
    different times (the answer is a function of the co-ordinates and the level, whatever was asked before).  The
    chips: whole columns and whole rows next to each other (every pair of chips one step apart in one co-ordinate and
    any distance apart in the other), one chip in every 16 x 16 block, and chips differing from one another in one bit
    of one co-ordinate or with the co-ordinates exchanged."""
    def ask(x, y, lv, dflt):
        try:
            wd = regions.get_region_for_chip(x, y) if dflt else regions.get_region_for_chip(x, y, lv)
            return ["chip", x, y, lv, word_bytes(int(wd))]
        except Exception:                                       # judged: the zero word covers no chip
            chk.count("get_region_for_chip raised")
            return ["chip", x, y, lv, [0, 0, 0, 0]]
    chips = set()
    x0, y0 = rng.randrange(255), rng.randrange(255)
    for x in (x0, x0 + 1, rng.randrange(256)):
        chips.update((x, y) for y in range(256))
    for y in (y0, y0 + 1, rng.randrange(256)):
        chips.update((x, y) for x in range(256))
    for bx in range(16):
        for by in range(16):
            chips.add((16 * bx + rng.randrange(16), 16 * by + rng.randrange(16)))
    for _ in range(chk.pick(6, 60)):
        x, y = rng.randrange(256), rng.randrange(256)
        chips.add((x, y)); chips.add((y, x))
        for b in range(8):
            chips.add((x ^ (1 << b), y)); chips.add((x, y ^ (1 << b)))
    if not chk.quick:
        chips.update((rng.randrange(256), rng.randrange(256)) for _ in range(6000))
    first = [(x, y, lv) for (x, y) in sorted(chips) for lv in range(4)]
    rng.shuffle(first)
    second = list(first)
    rng.shuffle(second)
    if chk.quick:
        second = second[:len(second) // 2]
    # the second round begins while the first is still going on: early questions come back soon, late ones late
    order, k = [], 0
    for n, q in enumerate(first):
        order.append(q)
        if n >= len(first) // 2 and k < len(second):
            order.append(second[k]); k += 1
    order += second[k:]
    evs = [ask(x, y, lv, lv == 3 and (x + y) % 2 == 0) for (x, y, lv) in order]
    for k in range(0, len(evs), 1000):
        traces.append(dict(ev=evs[k:k + 1000], label="get_region_for_chip for many chips of a big machine in one process"))
    chk.evaluations += len(evs)
    chk.count("get_region_for_chip calls of the many-chip sweep", len(evs))
    chk.count("chips of the many-chip sweep", len(chips))


def run(chk):
    rng = random.Random(chk.seed)
    chk.design("RegionsDesign", "RegionsDesign.cfg", expect_actions=("AddCore",))
    traces = []
    targets = gen_targets(rng, chk)
    for rep in range(chk.pick(40, 1500)):           # random medium-density sets in a small window
        x0, y0 = rng.randrange(0, 240), rng.randrange(0, 240)
        t = {}
        for _ in range(rng.randint(1, 120)):
            t.setdefault((x0 + rng.randrange(9), y0 + rng.randrange(9)), set()).add(rng.choice((0, 1, 17)))
        targets.append(t)
    for t in targets:
        pairs = list(regions.compress_flood_fill_regions(t))
        tg = [[x, y, sorted(int(c) for c in cs)] for (x, y), cs in sorted(t.items())]
        ev = ["ff", tg, [word_bytes(r) + [int(m)] for r, m in pairs]]
        traces.append(dict(ev=[ev]))
        chk.note_case(tg, nontrivial=len(tg) > 1)
    # the caller's own history: one dictionary object, changed in place between calls (a core added to / removed
    # from a chip's set, a set replaced, a chip added) - the answer is a function of the argument's CONTENTS
    for rep in range(chk.pick(60, 1500)):
        t = {k: set(v) for k, v in rng.choice(targets).items()} or {(3, 3): {1}}
        evs = []
        for step in range(4):
            pairs = list(regions.compress_flood_fill_regions(t))
            tg = [[x, y, sorted(int(c) for c in cs)] for (x, y), cs in sorted(t.items())]
            evs.append(["ff", tg, [word_bytes(r) + [int(m)] for r, m in pairs]])
            chk.note_case(("history", step, tg), nontrivial=len(tg) > 1)
            xy = rng.choice(sorted(t))
            how = rng.randrange(4)
            if how == 0:
                t[xy].add(rng.choice([c for c in range(18) if c not in t[xy]] or [0]))
            elif how == 1 and len(t[xy]) > 1:
                t[xy].discard(rng.choice(sorted(t[xy])))
            elif how == 2:
                t[xy] = {rng.randrange(18)}
            else:
                t[((xy[0] + 1) % 256, xy[1])] = {rng.randrange(18)}
        traces.append(dict(ev=evs, label="one dictionary changed in place between calls"))
    # the far ends (own generator state: the families above stay what they were for a given seed)
    gen_far(random.Random(chk.seed * 7919 + 12), chk, traces)
    # the pairs as they are PRODUCED FOR A FLOOD FILL: MachineController.flood_fill_aplx with an application map of
    # two or three binaries against the simulated machine; the core-select packets the machine received between the
    # start and the end of each fill are that binary's pairs (the fill is matched to its binary by the data it
    # carried), judged exactly like a return value of compress_flood_fill_regions
    from . import c09
    wd = c09.Workdir(chk)
    wired = 0
    for rep in range(chk.pick(15, 300)):
        w, h = rng.choice(((2, 2), (4, 4), (5, 3), (8, 8)))
        free = [(x, y, p) for x in range(w) for y in range(h) for p in range(1, 18)]
        rng.shuffle(free)
        bins = []
        for i in range(rng.randint(2, 3)):
            data = bytes(bytearray([i + 1] + [rng.randrange(256) for _ in range(4 * rng.randint(1, 60) - 1)]))
            tg = {}
            for _ in range(rng.choice((1, 3, 17, 40, 90))):
                if free:
                    x, y, p = free.pop()
                    tg.setdefault((x, y), set()).add(p)
            if tg:
                bins.append((data, tg))
        if len(bins) < 2:
            continue
        sc = dict(w=w, h=h, ncores=18, buf=rng.choice((64, 256)), app=30 + rep % 200, wait=1, ntries=1, usecount=0,
                  style="map", bins=bins, miss=[], label="C12: pairs on the wire")
        tr9, _, _ = c09.run_scenario(wd, sc)
        wired += wire_events(chk, tr9, bins, traces)[0]
    chk.count("fills of multi-binary loads whose core-select packets were judged", wired)
    # ... and the pairs of the fills that REPEAT a binary's load after a fault (own generator state)
    gen_refills(random.Random(chk.seed * 104729 + 12), chk, wd, traces)
    # get_region_for_chip at random places, then as a program talking to many chips of a big machine asks it
    evs = []
    for _ in range(chk.pick(300, 10000)):
        x, y, lv = rng.randrange(256), rng.randrange(256), rng.randrange(4)
        evs.append(["chip", x, y, lv, word_bytes(regions.get_region_for_chip(x, y, lv))])
        chk.note_case(("chip", x, y, lv))
    for x, y in ((0, 0), (255, 255), (3, 4), (252, 3)):
        evs.append(["chip", x, y, 3, word_bytes(regions.get_region_for_chip(x, y))])
    traces.append(dict(ev=evs))
    gen_chip_sweep(random.Random(chk.seed * 15485863 + 12), chk, traces)
    # ---- job R: insertion orders chosen by TLC's simulator (RegionsSim) are replayed into the real tree; the
    # observable after every few insertions is judged like any other result
    from .. import tlc as tlcmod
    from ..core import MachineryError
    import re
    r = tlcmod.run_tlc("RegionsSim", "RegionsSim.cfg", workers=1, timeout=3000,
                       simulate="num=%d" % chk.pick(60, 1200), depth=70, seed=chk.seed + 1)
    chk.jobs.append(dict(job="S", module="RegionsSim", cfg="RegionsSim.cfg", **r.summary()))
    if not r.ok or not r.infos:
        raise MachineryError("simulation of RegionsSim failed: %s" % (r.error or "no behaviour printed"))
    ox, oy = 16 * rng.randrange(16), 16 * rng.randrange(16)        # where the 16x16 area sits in the machine
    for line in sorted(set(r.infos)):
        order = [tuple(int(v) for v in m) for m in re.findall(r"<<(\d+), (\d+), (\d+)>>", line)]
        tree = regions.RegionCoreTree()
        sofar = {}
        evs = []
        for n, (b, c, p) in enumerate(order, 1):
            x, y = ox + 4 * (b % 4) + c % 4, oy + 4 * (b // 4) + c // 4
            tree.add_core(x, y, p)
            sofar.setdefault((x, y), set()).add(p)
            if n % 8 == 0 or n == len(order):
                pairs = sorted(tree.get_regions_and_coremasks())
                tg = [[tx, ty, sorted(cs)] for (tx, ty), cs in sorted(sofar.items())]
                evs.append(["ff", tg, [word_bytes(w) + [int(mk)] for w, mk in pairs]])
        traces.append(dict(ev=evs, label="tlc-simulated insertion order"))
        chk.replayed += 1
        chk.note_case(("order", order[:12]))
    chk.extra["tlc_simulated_behaviours_replayed_into_impl"] = chk.replayed

    chk.rule = ("target sets: sparse random; full, one-chip-short, mixed-core and two-core 4x4 / 16x16 / 64x64 blocks at "
                "aligned and straddling positions; cores 16/17; dense random 9x9 windows; empty set; random "
                "get_region_for_chip calls at all four levels; the whole 256 x 256 machine (full, one chip short, by add_core), "
                "several 64x64 blocks in one level-0 word, all eighteen cores, chips with an empty core set, the same sets "
                "as lists with repeats / tuples / frozensets / iterators / OrderedDict / defaultdict / numpy integers / one "
                "shared set object, add_core sequences naming cores again after their block collapsed, two trees alive at "
                "once; the core-select packets of multi-binary flood fills and of the REPEATED fills of loads on a machine "
                "where chips miss a fill and single cores do not come up (each judged against what was still missing); "
                "get_region_for_chip for ~1900 chips over the whole address range (adjacent whole columns and rows, one "
                "chip per 16x16 block, one-bit neighbours) at every level in one process, shuffled, asked again later. "
                "non-trivial = more than one target chip; distinct = "
                "distinct target set")
    chk.exhaustive = False
    chk.sample(traces[0]["ev"][0]); chk.sample(traces[-2]["ev"][0]); chk.sample(evs[0])

    def key_of(tr, i, clauses):
        e = tr["ev"][i - 1]
        return "%s %s %s" % (e[0], ",".join(clauses), (str(e[1])[:80]))

    chk.validate("RegionsTrace", "RegionsTrace.cfg", traces, key_of=key_of, batch=2000)


def selftest(chk):
    t = {(0, 0): {1}, (1, 0): {1, 2}}
    pairs = [word_bytes(r) + [int(m)] for r, m in regions.compress_flood_fill_regions(t)]
    tg = [[x, y, sorted(cs)] for (x, y), cs in sorted(t.items())]
    rest = [word_bytes(r) + [int(m)] for r, m in regions.compress_flood_fill_regions({(1, 0): {1}})]
    cases = [
        (dict(ev=[["ff", tg, pairs]]), None),
        (dict(ev=[["ff", tg, pairs[:-1]]]), "NothingMissing"),
        (dict(ev=[["ff", tg, pairs + [[4, 3, 0, 1, 1]]]]), "NothingExtraOrTwice"),
        (dict(ev=[["ff", tg, pairs[::-1]]]), "StrictlyIncreasing"),
        (dict(ev=[["chip", 5, 6, 3, word_bytes(regions.get_region_for_chip(6, 6))]]), "ChipRegionCovers"),
        # a retry fill: chip (0, 0) core 1 and chip (1, 0) core 2 are loaded, core 1 of chip (1, 0) is still missing
        (dict(ev=[["refill", tg, [[0, 0, 1], [1, 0, 2]], rest]]), None),
        (dict(ev=[["refill", tg, [[0, 0, 1], [1, 0, 2]], pairs]]), "NothingExtraOrTwice"),
        (dict(ev=[["refill", tg, [[0, 0, 1]], rest]]), "NothingMissing"),
        (dict(ev=[["refill", tg, [], pairs]]), None),
    ]
    rej = chk.validate("RegionsTrace", "RegionsTrace.cfg", [c[0] for c in cases])
    got = {id(t): cl for t, _, cl in rej}
    msgs = []
    for tr, want in cases:
        cl = got.get(id(tr))
        if (want is None) != (cl is None) or (want and want not in cl):
            msgs.append("expected %s, got %s" % (want, cl))
    return not msgs, "; ".join(msgs) or "%d corrupted traces rejected with the expected clauses" % len([c for c in cases if c[1]])
