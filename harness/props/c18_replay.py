"""C18, job R - behaviours of the context stack machine chosen by TLC's simulator, replayed into the real controllers.

S: ContextSim.tla (EXTENDS ContextDesign) is simulated by TLC (`-simulate`).  The methods the simulated program calls
   are the REAL decorated methods of MachineController / BMPController: their signatures, found by introspection by
   c18.Driver, are handed to TLC as data (SIM_FILE) in the method encoding of Context.tla, and the design's parameter
   names are replaced by the controller's contextual names (x, y, p, processor, app_id / cabinet, frame, board) plus
   one name no method declares.  A behaviour = initial context; Enter of a fresh block / of a context object the
   program keeps (entered again later, also inside itself); application(id) with the id positional / keyword / left
   to the context; update_current_context; ExitNormally; ExitByException at any depth, propagating through any number
   of enclosing blocks before it is caught; Invoke of a method of one of the three shapes (all contextual parameters
   required / one with a default / star-args with keyword-only ones) with every parameter positional / keyword / left
   to the context / to the default / to nobody.  Constants: 3 values, depth <= 5 (the exhaustive design job: 2 values,
   depth <= 3).  With every step the design prints what it predicts: the arguments in force, the stop signals a leave
   sends, whether a call is refused and the value each contextual parameter is bound to.
R: each behaviour becomes a program of nested `with` blocks (real exceptions, real `with`) run by c18.execute against
   c18's recording network, one event per step; the prediction is attached to the event and ContextReplayTrace.tla
   (EXTENDS ContextTrace: every clause of C18 stays live) demands MatchesPrediction: the datagrams' chip, core,
   application id / board and connection, the stop signals and the arguments the controller reports equal what the
   design predicted.  In 40% of the programs the driver also hangs recording functions of the caller's own on half of
   the blocks (Context.before_close, before entering / inside the body; "cb" events, no prediction): what the design
   predicts for a leave - the stop signal above all - must hold with them.

No oracle here: the file translates a printed behaviour into calls and copies the printed predictions into the events.
"""
import json
import os
import random
import re
import threading

from .. import tlc as tlcmod
from ..core import MachineryError, NCPU
from . import c18

UNDECLARED = "nonesuch"            # a contextual name no method declares
SIM_CFG = "ContextSim.cfg"
TRACE_MODULE, TRACE_CFG = "ContextReplayTrace", "ContextReplayTrace.cfg"


# ------------------------------------------------------------------------------------------ input of the simulator
def sim_input(drv):
    """The signatures of the methods that can be driven, as data for ContextSim.tla."""
    meths = []
    for name in drv.drivable:
        mi = drv.methods[name]
        assert UNDECLARED not in mi.declared()
        if mi.varargs:
            meths.append([mi.encode(), 0, len(drv.star[name]), 0])
            continue
        n = 0                         # the longest positional prefix for which there are values to pass
        for p in mi.pos:
            if p not in drv.names and c18.canned(name, p) is c18.MISSING:
                break
            n += 1
        meths.append([mi.encode(), n, 0, 1 if name in c18.HEAVY else 0])
    return dict(kind=drv.kind, params=list(drv.names) + [UNDECLARED], meths=meths)


def simulate(chk, drv, n, seed, out):
    path = os.path.join(chk.tmp, "c18-sim-%s-%d.json" % (drv.kind, seed))
    tlcmod.write_json(path, sim_input(drv))
    out[drv.kind] = tlcmod.run_tlc("ContextSim", SIM_CFG, workers=1, timeout=3000, simulate="num=%d" % n, depth=120,
                                   seed=seed, env={"SIM_FILE": path})


def behaviours(chk, drivers, counts, seed):
    """Run the simulator once per controller kind (side by side); {kind: [history, ...]}."""
    res, threads = {}, []
    for kind, drv in drivers.items():
        if counts.get(kind):
            th = threading.Thread(target=simulate, args=(chk, drv, counts[kind], seed, res))
            th.start()
            threads.append(th)
    for th in threads:
        th.join()
    out = {}
    missing = [k for k in drivers if counts.get(k) and k not in res]
    if missing:
        raise MachineryError("simulation of ContextSim did not run for %s" % missing)
    for kind in sorted(res):
        r = res[kind]
        chk.jobs.append(dict(job="S", module="ContextSim", cfg=SIM_CFG, label="simulated %s programs" % kind,
                             **r.summary()))
        if not r.ok or not r.infos:
            raise MachineryError("simulation of ContextSim (%s) failed: %s" % (kind, r.error or "no behaviour printed"))
        seen, hs = set(), []
        for line in r.infos:
            if line not in seen:
                seen.add(line)
                hs.append(json.loads(line.replace('\\"', '"')))
        out[kind] = hs
        m = re.search(r"number of states generated: (\d+)", r.out)      # (the simulator's own wording)
        chk.jobs[-1]["generated"] = int(m.group(1)) if m else 0
    return out


# ------------------------------------------------------------------------------------------ history -> program
def to_program(drv, hist):
    """The printed history as a tree of nodes for c18.execute, and the prediction of every event it will record."""
    root, open_nodes, preds = [], [], []
    children = [root]
    last_left, force = None, hist[0]["map"]
    for h in hist[1:]:
        op = h["op"]
        if op in ("enter", "app"):
            if op == "enter":
                node = c18.block("plain", [], map=dict(h["map"]), keep=None if h["key"] == 0 else h["key"] - 1)
                preds.append(["enter", h["force"]])
            else:
                node = c18.block("app", [], call=drv.app_call(None, h["id"], h["how"]))
                preds.append(["app", h["force"], h["id"]])
            children[-1].append(node)
            open_nodes.append(node)
            children.append(node["children"])
        elif op == "exit":
            node = open_nodes.pop()
            children.pop()
            # an exception that is not already unwinding is raised at the end of this block's body
            unwinding = last_left is not None
            node["raises"] = h["how"] == "exception" and not unwinding
            node["catches"] = h["how"] != "exception"
            last_left = node if h["how"] == "exception" else None
            preds.append(["exit", h["how"], h["stops"], h["force"]])
        elif op == "catch":
            last_left["catches"] = True
            last_left = None
        elif op == "update":
            children[-1].append(dict(t="update", map=dict(h["map"])))
            preds.append(["update", h["force"]])
        elif op == "invoke":
            children[-1].append(dict(t="invoke", meth=h["meth"], pos_enc=h["pos"], kw_enc=h["kw"]))
            preds.append(["invoke", h["refused"], h["bound"]])
        else:
            raise MachineryError("ContextSim printed an unknown step %r" % (h,))
        force = h.get("force", force)
    if open_nodes or last_left is not None:
        raise MachineryError("ContextSim printed an unfinished behaviour")
    preds.append(["end", force])
    return root, preds


def values_in(hist):
    vs = set()
    for h in hist:
        vs.update(v for _, v in h.get("map", []))
        vs.update(e[1] for e in h.get("pos", []) if e[0] == "int")
        vs.update(e[1] for _, e in h.get("kw", []) if e[0] == "int")
        if "id" in h:
            vs.add(h["id"])
    return vs


def setup_for(drv, hist, rng, observe=None):
    """The environment of one behaviour (not the simulator's business): machine, live Ethernet links / BMP hosts."""
    init = dict(hist[0]["map"])
    vs = values_in(hist) | {0}
    observe = rng.random() < 0.75 if observe is None else observe
    if drv.kind == "bmp":
        hosts = [(c, f) for c in sorted(vs) for f in sorted(vs)]
        hosts += sorted(set((rng.choice(sorted(vs)), rng.choice(sorted(vs)), rng.choice(sorted(vs) + [23]))
                            for _ in range(rng.randint(0, 6))))
        rng.shuffle(hosts)
        return dict(init=init, hosts=hosts, observe=observe)
    called = set(h.get("meth") for h in hist)
    # (the methods that visit every chip are called on one-board machines only, as in c18.random_mc)
    heavy = called & {"get_system_info", "get_routing_table_entries"}
    fit = [m for m in c18.MACHINES if min(m[0], m[1]) > max(vs) and not (heavy and m[0] * m[1] > 64)]
    w, h, root = rng.choice(fit)
    cands = [(x, y) for x in range(w) for y in range(h)
             if ((x - root[0]) % 12, (y - root[1]) % 12) in ((0, 0), (4, 8), (8, 4))]
    cands = sorted(set(cands + [(rng.randrange(w), rng.randrange(h)) for _ in range(2)]))
    return dict(init=init, w=w, h=h, root=root, up=[c for c in cands if rng.random() < 0.6], observe=observe)


def replay_one(drv, hist, rng, label="tlc-simulated", observe=None, discover=None, callbacks=None):
    program, preds = to_program(drv, hist)
    setup = setup_for(drv, hist, rng, observe)
    lead = 0
    if drv.kind == "mc" and (rng.random() < 0.5 if discover is None else discover):
        # connections are discovered first in half of the programs (the driver's step, not the simulator's)
        program.insert(0, drv.make_call("discover_connections", rng, dict(x=0, y=0), "omit"))
        lead = 1
    if rng.random() < (0.4 if callbacks is None else callbacks):
        # the caller hangs recording functions of their own on some of the blocks (before_close): the driver's
        # step too; the design's prediction of what a leave does is the same with them
        c18.decorate(drv, program, rng, None, 0.5, pool=[], raising=False)
    tr = c18.execute(drv, setup, program, label)
    tr.pop("opened")
    preds = [["none"]] * lead + preds
    # one event per step, in the order of the history; whatever does not line up is judged as it falls
    i = 0
    for ev in tr["ev"]:
        if ev[0] == "cb":
            ev.append(["none"])
            continue
        ev.append(preds[i] if i < len(preds) else ["none"])
        i += 1
    tr["predicted_steps"] = len(preds) - lead
    return tr


# ------------------------------------------------------------------------------------------ the job
def key_of(tr, i, clauses):
    """A rejection is filed under the clauses of C18 it breaks (so that a finding already known under ContextTrace is
    recognised); under MatchesPrediction only when that is the only clause."""
    rest = [c for c in clauses if c != "MatchesPrediction"]
    return c18.key_of(tr, i, rest or clauses)


def run_replay(chk, counts=None, seed=None):
    counts = counts or dict(mc=chk.pick(240, 4000), bmp=chk.pick(60, 1000))
    seed = chk.seed + 1 if seed is None else seed
    drivers = dict(mc=c18.Driver(chk, "mc", chk.tmp), bmp=c18.Driver(chk, "bmp", chk.tmp))
    hists = behaviours(chk, drivers, counts, seed)
    rng = random.Random(chk.seed + 18)
    traces, steps, depth = [], {}, 0
    for kind in sorted(hists):
        for hist in hists[kind]:
            tr = replay_one(drivers[kind], hist, rng)
            traces.append(tr)
            chk.replayed += 1
            d = 0
            for h in hist[1:]:
                what = h["op"] if h["op"] != "exit" else "exit " + h["how"]
                if h["op"] == "invoke":
                    what = "invoke refused" if h["refused"] else "invoke accepted"
                if h["op"] == "enter" and h["key"]:
                    what = "enter kept object"
                steps[what] = steps.get(what, 0) + 1
                d += 1 if h["op"] in ("enter", "app") else -1 if h["op"] == "exit" else 0
                depth = max(depth, d)
            chk.note_case((kind, hist), nontrivial=any(h["op"] == "invoke" and not h["refused"] for h in hist[1:]))
    chk.extra["tlc_simulated_behaviours_replayed_into_impl"] = chk.replayed
    chk.extra["replay"] = dict(
        behaviours={k: len(v) for k, v in hists.items()}, steps=steps, deepest_nesting=depth,
        datagrams=sum(len(e[5]) for t in traces for e in t["ev"] if e[0] == "invoke"),
        methods_called=len(set((t["kind"], e[1]) for t in traces for e in t["ev"] if e[0] == "invoke")))
    if traces:
        chk.sample(dict(traces[0], ev=traces[0]["ev"][:5], prog="(omitted)"))
    # (a few hundred short traces: TLC's start-up dominates, more workers only contend)
    chk.validate(TRACE_MODULE, TRACE_CFG, traces, key_of=key_of, batch=2000, label="replay of simulated behaviours",
                 workers=chk.pick(4, NCPU))
    return traces


# ------------------------------------------------------------------------------------------ self-test
def selftest(chk):
    import copy
    drivers = dict(mc=c18.Driver(chk, "mc", chk.tmp), bmp=c18.Driver(chk, "bmp", chk.tmp))
    hists = behaviours(chk, drivers, dict(mc=60, bmp=30), 7)
    rng = random.Random(3)

    def has(hist, pred):
        return any(pred(h) for h in hist[1:])

    def where(tr, pred):
        return next(i for i, e in enumerate(tr["ev"]) if pred(e))

    def mut(base, f):
        t = copy.deepcopy(base)
        f(t["ev"])
        return t

    # (behaviours that are clean on the unchanged tree: no call of the five methods of the known findings)
    subject = ("get_processor_status", "get_iobuf", "get_iobuf_bytes", "read_vcpu_struct_field", "write_vcpu_struct_field")
    wanted = (lambda s: s["op"] == "app", lambda s: s["op"] == "enter",
              lambda s: s["op"] == "invoke" and not s["refused"] and any(k == "x" for k, _ in s["bound"]),
              lambda s: s["op"] == "invoke" and s["refused"],
              lambda s: s["op"] == "exit" and s["how"] == "exception")
    good = [h for h in hists["mc"] if all(has(h, w) for w in wanted) and not has(h, lambda s: s.get("meth") in subject)]
    bgood = [h for h in hists["bmp"]
             if has(h, lambda s: s["op"] == "invoke" and not s["refused"] and len(s["bound"]) == 3)]
    if not good or not bgood:
        raise MachineryError("c18_replay selftest: no simulated behaviour with an application block, an accepted and a "
                             "refused call and an exception")
    mgood = replay_one(drivers["mc"], good[0], rng, "selftest", observe=True, discover=False, callbacks=0)
    bgood = replay_one(drivers["bmp"], bgood[0], rng, "selftest", observe=True, callbacks=0)
    if any(e[-1] == ["none"] for e in mgood["ev"] + bgood["ev"]):
        raise MachineryError("c18_replay selftest: an event without a prediction")

    i_enter = where(mgood, lambda e: e[0] == "enter")
    i_ok = where(mgood, lambda e: e[0] == "invoke" and e[-1][1] == 0 and any(k == "x" for k, _ in e[-1][2]))
    i_ref = where(mgood, lambda e: e[0] == "invoke" and e[-1][1] == 1)
    i_stop = where(mgood, lambda e: e[0] == "exit" and e[-1][2])
    i_exc = where(mgood, lambda e: e[0] == "exit" and e[1] == "exception")
    i_app = where(mgood, lambda e: e[0] == "app")
    b_ok = where(bgood, lambda e: e[0] == "invoke" and e[-1][1] == 0 and len(e[-1][2]) == 3)

    def bump_bound(name):
        def f(evs):
            for pr in evs[i_ok][-1][2]:
                if pr[0] == name:
                    pr[1] = ["int", pr[1][1] + 1]
        return f

    def bump_board(evs):
        for pr in evs[b_ok][-1][2]:
            if pr[0] == "board":
                pr[1] = ["int", pr[1][1] + 1]
    only = ["MatchesPrediction"]
    cases = [
        (mgood, None), (bgood, None),
        # the prediction is corrupted: only MatchesPrediction can notice
        (mut(mgood, lambda evs: evs[i_enter][-1][1].append(["y", 77])), only),
        (mut(mgood, bump_bound("x")), only),
        (mut(mgood, lambda evs: evs[i_ok][-1].__setitem__(1, 1)), only),
        (mut(mgood, lambda evs: evs[i_ref][-1].__setitem__(1, 0)), only),
        (mut(mgood, lambda evs: evs[i_stop][-1][2].__setitem__(0, evs[i_stop][-1][2][0] + 1)), only),
        (mut(mgood, lambda evs: evs[i_stop][-1].__setitem__(2, [])), only),
        (mut(mgood, lambda evs: evs[i_exc][-1].__setitem__(1, "normal")), only),
        (mut(mgood, lambda evs: evs[i_app][-1][1].pop()), only),
        (mut(mgood, lambda evs: evs[-1][-1][1].append(["x", 3])), only),
        (mut(mgood, lambda evs: evs[i_ok].__setitem__(-1, evs[i_enter][-1])), only),         # prediction of another step
        (mut(bgood, bump_board), only),
        # the observation is corrupted: the clause of C18 and MatchesPrediction both notice
        (mut(mgood, lambda evs: evs[i_ok][5][0].__setitem__(1, evs[i_ok][5][0][1] + 1)), ["MatchesPrediction", "ResolvedX"]),
        (mut(mgood, lambda evs: evs[i_stop].__setitem__(2, [])), ["ApplicationExitStops", "MatchesPrediction"]),
        (mut(mgood, lambda evs: evs[i_enter][2].append(["y", 77])), ["EnterInForce", "MatchesPrediction"]),
        (mut(bgood, lambda evs: evs[b_ok][5][0].__setitem__(3, evs[b_ok][5][0][3] + 1)), ["MatchesPrediction", "ResolvedBoard"]),
    ]
    rej = chk.validate(TRACE_MODULE, TRACE_CFG, [c[0] for c in cases])
    got = {id(t): cl for t, _, cl in rej}
    msgs = []
    for n, (tr, want) in enumerate(cases):
        cl = got.get(id(tr))
        if (want is None) != (cl is None) or (want and sorted(want) != sorted(cl)):
            msgs.append("case %d: expected %s, got %s" % (n, want, cl))
    return not msgs, "; ".join(msgs) or ("%d simulated behaviours printed; %d traces with a corrupted prediction or "
                                         "observation rejected with exactly the expected clauses" %
                                         (sum(len(v) for v in hists.values()), len(cases) - 2))
