"""C04 - table minimisation never changes where any matched key is routed.

D: OrderedCoveringDesign.tla - merge / default-removal rules preserve Equivalent (exhaustive, small W).
T: every result of remove_default_routes / ordered_covering / minimise_table / minimise_tables, and every
   intermediate table of ordered covering (single-stepped through its own target_length / aliases parameters),
   judged by RoutingTableTrace.tla (Equivalent over all 2^W keys, NotLonger, MeetsTarget, FailHonest...).
"""
import itertools
import random

from rig.routing_table import RoutingTableEntry as RTE, Routes, MinimisationFailedError
from rig.routing_table import minimise_table, minimise_tables
from rig.routing_table import remove_default_routes, ordered_covering as oc_mod

ROUTE_SETS = [{Routes.east}, {Routes.north}, {Routes.east, Routes.core(1)}, {Routes.core(2)}]
SOURCE_SETS = [{None}, {Routes.west}, {Routes.south}, {Routes.west, Routes.south}, {Routes.west, None}]


def bits(s):
    n = 0
    for r in s:
        n |= (1 << 24) if r is None else (1 << int(r))
    return n


def enc_table(t, fx=None):
    """entries as <<keylo, keyhi, masklo, maskhi, route, srcs>>; with a layout `fx` whose active bits are not the low
    ones, key and mask first go through fx.low (a fixed permutation of the 32 bit positions that brings the active
    bits to positions 0..w-1: a bijection on keys, so first-match semantics are untouched)"""
    lo = fx.low if fx is not None and fx.scattered else (lambda v: v)
    out = []
    for e in t:
        k, m = lo(e.key), lo(e.mask)
        out.append([k & 0xffff, k >> 16, m & 0xffff, m >> 16, bits(e.route), bits(e.sources)])
    return out


def tern_to_km(s):
    """'01X' -> (key, mask) over len(s) bits, MSB first"""
    k = m = 0
    for ch in s:
        k <<= 1
        m <<= 1
        if ch == "1":
            k |= 1
            m |= 1
        elif ch == "0":
            m |= 1
    return k, m


def km_intersect(a, b):
    return ((a[0] ^ b[0]) & a[1] & b[1]) == 0


def generality(km, w):
    return w - bin(km[1]).count("1")


class Fix(object):
    """fixed bits above the active width: the same for every entry of a table (and shared by runs of
    consecutive tables, so that key/masks of different tables in one process can coincide)"""
    _shared = {}

    @classmethod
    def shared(cls, rng, w, period=60):
        f, n = cls._shared.get(w, (None, 0))
        if f is None or n >= period:
            f, n = cls(rng, w, scatter=0.45), 0
        cls._shared[w] = (f, n + 1)
        return f

    def __init__(self, rng, w, scatter=0.0):
        hi_mask = rng.getrandbits(32 - w) if rng.random() < 0.7 else (1 << (32 - w)) - 1
        hi_key = rng.getrandbits(32 - w) & hi_mask
        # where the w active bits live among the 32: the low end (as every table had them at first), the top end
        # (bit 31 included), or anywhere
        self.w = w
        c = rng.random()
        if c >= scatter:
            self.pos = list(range(w))
        elif c < scatter / 3:
            self.pos = list(range(32 - w, 32))
        else:
            self.pos = sorted(rng.sample(range(32), w))
        self.scattered = self.pos != list(range(w))
        self.rest = [b for b in range(32) if b not in self.pos]
        self._low = {}
        self.k = self._spread(hi_key, self.rest)
        self.m = self._spread(hi_mask, self.rest)

    @staticmethod
    def _spread(v, positions):
        return sum(((v >> j) & 1) << b for j, b in enumerate(positions))

    def up(self, v):
        """a value over the w active bits -> the same bits at their real positions"""
        return self._spread(v, self.pos) if self.scattered else v

    def low(self, v):
        """a 32-bit word -> the word with the active bits at 0..w-1 and the others, in order, above them"""
        r = self._low.get(v)
        if r is None:
            r = sum(((v >> b) & 1) << j for j, b in enumerate(self.pos + self.rest))
            self._low[v] = r
        return r

    def entry(self, km, route, sources):
        return RTE(set(route), self.up(km[0]) | self.k, self.up(km[1]) | self.m, set(sources))


LINKS = [Routes(i) for i in range(6)]


def wide_route(rng):
    """any set of routes: one link (any of the six), one core, several links and cores, or none (packets dropped)"""
    c = rng.random()
    if c < 0.5:
        return {rng.choice(LINKS)}
    if c < 0.58:
        return set()
    if c < 0.75:
        return {Routes.core(rng.randint(0, 17))}
    return set(rng.sample(list(Routes), rng.randint(2, 6)))


def wide_sources(rng, route):
    """any set of source directions; the link opposite a single-link route (a default-routable entry) is favoured"""
    if len(route) == 1 and rng.random() < 0.4:
        r = next(iter(route))
        if r.is_link:
            return {Routes((int(r) + 3) % 6)}
    c = rng.random()
    if c < 0.45:
        return {rng.choice(LINKS)}
    if c < 0.65:
        return {None}
    if c < 0.85:
        return set(rng.sample(LINKS, rng.randint(2, 3)))
    return {None, rng.choice(LINKS)}


def dress(rng, kms, fx):
    """routes and sources for a list of key/masks: the narrow palette (few routes, so that merges abound) or, for
    one table in three, any routes and sources at all"""
    nroutes = rng.choice((1, 2, 2, 3, 4))
    if rng.random() < 0.35:
        palette = [wide_route(rng) for _ in range(nroutes)]
        table = []
        for km in kms:
            route = rng.choice(palette)
            table.append(fx.entry(km, route, wide_sources(rng, route)))
        return table
    table = []
    for km in kms:
        route = rng.choice(ROUTE_SETS[:nroutes])
        src = rng.choice(SOURCE_SETS)
        table.append(fx.entry(km, route, src))
    return table


def random_table(rng, w, n, ordered_overlapping, fx=None):
    """-> (table, layout).  Orthogonal key/masks in any order, or overlapping ones in increasing order of generality;
    one overlapping table in four may list the same key/mask more than once (the later copies are dead entries
    under first-match semantics - still a table in generality order)"""
    kms = []
    tries = 0
    dup = 0.5 if ordered_overlapping and rng.random() < 0.25 else 0.0
    while len(kms) < n and tries < 50 * n + 50:
        tries += 1
        s = "".join(rng.choice("01X" if rng.random() < 0.5 else "01") for _ in range(w))
        km = tern_to_km(s)
        if ordered_overlapping:
            if km not in kms:
                kms.append(km)
                if dup and rng.random() < 0.15:
                    kms.append(km)
            elif dup and rng.random() < dup:
                kms.append(km)
        elif all(not km_intersect(km, o) for o in kms):
            kms.append(km)
    if ordered_overlapping:
        kms.sort(key=lambda km: generality(km, w))      # stable: increasing generality
    else:
        rng.shuffle(kms)
    if fx is None:
        fx = Fix.shared(rng, w)
    return dress(rng, kms, fx), fx


def uniform_mask_table(rng, w, n):
    """-> (table, layout, orthogonal).  Every entry has the same mask (the usual table of exact-match keys, or of
    keys with the same don't-care bits): distinct keys are orthogonal in any order; with a key listed twice the
    table overlaps, and any order is an order of increasing generality."""
    mask = (1 << w) - 1
    if rng.random() < 0.5:
        mask &= rng.getrandbits(w) | (1 << rng.randrange(w))
    keys = sorted({rng.getrandbits(w) & mask for _ in range(n)})
    rng.shuffle(keys)
    orthogonal = True
    if rng.random() < 0.5 and keys:
        for _ in range(rng.randint(1, 2)):
            keys.insert(rng.randrange(len(keys) + 1), rng.choice(keys))
        orthogonal = False
    fx = Fix.shared(rng, w)
    return dress(rng, [(k, mask) for k in keys], fx), fx, orthogonal


def many_chips(table, target, rng):
    """minimise_tables for several chips at once; the answer for the chip that holds `table`.  The other chips hold
    the same keys, masks and routes with other source directions (packets turning a corner instead of going straight
    through, or the reverse) and have no target, so only this chip's target can fail."""
    def sibling():
        return [RTE(e.route, e.key, e.mask, rng.choice(SOURCE_SETS) if rng.random() < 0.6 else e.sources)
                for e in table]
    chips = [((1, 2), list(table))]
    for xy in rng.sample([(0, 0), (2, 1), (3, 3)], rng.randint(0, 2)):
        chips.append((xy, sibling()))
    rng.shuffle(chips)
    tables = dict(chips)
    if len(tables) == 1:
        targets = target              # one number (or None) for every chip: the other accepted shape
    else:
        targets = {xy: (target if xy == (1, 2) else None) for xy in tables}
    return minimise_tables(tables, targets).get((1, 2), [])


def run_methods(table, w, rng, chk, stepped=True, any_order=False, fx=None, configs=False, orthogonal=False):
    """all minimisers x targets on one table -> one trace"""
    n = len(table)
    evs = []
    orig = enc_table(table, fx)          # what the caller gave, recorded before rig sees it
    methods = [("rdr", remove_default_routes.minimise)]
    if not any_order:
        methods += [("oc", oc_mod.minimise), ("mt", minimise_table),
                    ("mts", lambda t, tl: many_chips(t, tl, rng))]
    if configs and not any_order:
        # the same public calls in their other documented configurations: ordered covering proper (no default-route
        # pass, raising), the method chain with the caller's own list of methods
        methods += [("occ", lambda t, tl: oc_mod.ordered_covering(t, tl)[0]),
                    ("mt-oc", lambda t, tl: minimise_table(t, tl, methods=(oc_mod.minimise,))),
                    ("mt-rev", lambda t, tl: minimise_table(t, tl, [oc_mod.minimise, remove_default_routes.minimise]))]
    if configs and orthogonal:
        # documented for tables without aliased entries
        methods += [("rdr-na", lambda t, tl: remove_default_routes.minimise(t, tl, check_for_aliases=False))]
    if w <= 4 or not chk.quick:
        targets = [None, 0, n // 2, n, n + 2] + ([rng.randint(0, n + 1)] if n > 2 else [])
    else:       # quick tier, wide tables: three targets (the all-keys quantifier dominates the cost)
        targets = [None, rng.randint(0, n + 1), rng.choice((0, n // 2, n, n + 2))]
    reached = {}
    for name, f in methods:
        try:
            reached[name] = len(f(list(table), None))
        except Exception:
            reached[name] = -1
    if "mt" in reached:
        both = min(n, reached["rdr"], reached["oc"]) if min(reached["rdr"], reached["oc"]) >= 0 else -1
        reached["mt"] = reached["mts"] = both
        if "mt-rev" in reached:
            reached["mt-rev"] = both
            reached["mt-oc"] = min(n, reached["oc"]) if reached["oc"] >= 0 else -1
    for name, f in methods:
        for tgt in (targets if len(name) <= 3 else targets[:1] + [rng.choice(targets[1:])]):
            try:
                new = f(list(table), tgt)
                evs.append(["min", name, [] if tgt is None else [tgt], "ok", enc_table(new, fx), 0, 0])
            except MinimisationFailedError as ex:
                evs.append(["min", name, [] if tgt is None else [tgt], "fail", [],
                            -1 if ex.final_length is None else int(ex.final_length), reached[name]])
            except Exception as ex:
                evs.append(["min", name, [] if tgt is None else [tgt], type(ex).__name__, [], 0, 0])
            chk.evaluations += 1
    if stepped and not any_order and n > 1:
        cur, aliases = list(table), dict()
        for _ in range(n):
            try:
                nxt, aliases = oc_mod.ordered_covering(cur, len(cur) - 1, aliases, no_raise=True)
            except Exception as ex:
                evs.append(["min", "oc-step", [], type(ex).__name__, [], 0, 0])
                break
            if len(nxt) >= len(cur):
                break
            evs.append(["step", enc_table(nxt, fx)])
            cur = nxt
            chk.count("ordered-covering merges single-stepped")
    return dict(w=w, orig=orig, ev=evs)


def small_tables(chk, rng):
    """W = 3: orthogonal tables in every order and generality-ordered overlapping tables"""
    w = 3
    kms = [tern_to_km("".join(p)) for p in itertools.product("01X", repeat=w)]
    routes = ROUTE_SETS[:2]
    srcs = SOURCE_SETS[:3]
    fx = Fix(rng, w)
    out = []
    # all tables of 1 and 2 entries
    for n in (1, 2):
        for combo in itertools.chain(itertools.permutations(kms, n), [(km, km) for km in kms] if n == 2 else []):
            orth = all(not km_intersect(a, b) for a, b in itertools.combinations(combo, 2))
            ordered = all(generality(combo[i], w) <= generality(combo[i + 1], w) for i in range(n - 1))
            if not (orth or ordered):
                continue
            rsss = [(rs, ss) for rs in itertools.product(range(len(routes)), repeat=n)
                    for ss in itertools.product(range(len(srcs)), repeat=n)]
            if chk.quick and n == 2:
                rsss = rng.sample(rsss, 3)       # thorough: all 36 route/source combinations
            for rs, ss in rsss:
                out.append([fx.entry(combo[i], routes[rs[i]], srcs[ss[i]]) for i in range(n)])
    chk.extra["small_tables_complete_upto"] = (
        "all orthogonal (any order) and generality-ordered key/mask sequences of <= 2 entries over 3 key bits "
        "(the same key/mask twice included); "
        + ("3 sampled" if chk.quick else "all 36") + " route/source combinations each")
    # 3- and 4-entry tables: sampled
    want = chk.pick(800, 40000)
    while want > 0:
        n = rng.choice((3, 3, 4))
        combo = [rng.choice(kms) for _ in range(n)]         # a key/mask may come up twice: an overlapping table
        orth = all(not km_intersect(a, b) for a, b in itertools.combinations(combo, 2))
        if not orth:
            combo.sort(key=lambda km: generality(km, w))
        out.append([fx.entry(km, rng.choice(routes), rng.choice(srcs)) for km in combo])
        want -= 1
    return w, out, fx


def run(chk):
    rng = random.Random(chk.seed)
    chk.design("OrderedCoveringDesign", "OrderedCoveringDesign_%s.cfg" % chk.tier,
               expect_actions=("MergeAny", "DropDefaults", "AddEntry", "Start"))
    if not chk.quick:
        chk.design("OrderedCoveringDesign", "OrderedCoveringDesign_w2l4.cfg", label="2 key bits, tables of <= 4 entries")
    traces = []
    # the empty table, every method and target
    traces.append(run_methods([], 3, rng, chk))
    w, tabs, fx = small_tables(chk, rng)
    for t in tabs:
        traces.append(run_methods(t, w, rng, chk, stepped=len(t) > 2, fx=fx))
        chk._nontrivial.add(str(traces[-1]["orig"]))
    # random larger tables
    for i in range(chk.pick(240, 20000)):
        w = rng.choice((4, 4, 5, 5, 6, 6, 7, 8) if not chk.quick else (4, 4, 5, 5, 5, 6, 6)) if rng.random() < (0.99 if chk.quick else 0.97) else rng.choice((8, 9, 10))
        n = rng.randint(2, min(40, 2 ** w))
        overlapping = rng.random() < 0.5
        t, fx = random_table(rng, w, n, ordered_overlapping=overlapping)
        traces.append(run_methods(t, w, rng, chk, fx=fx, configs=rng.random() < 0.25, orthogonal=not overlapping))
        if fx.scattered:
            chk.count("tables whose active key bits are not the low ones")
        if len({e.route for e in t}) < len(t):
            chk._nontrivial.add(str(traces[-1]["orig"]))
        # history: a follow-up table in the same process whose genuine entries carry the key/masks the
        # previous minimisation produced by merging (re-minimising a minimised table, related chips)
        if w <= 7 and rng.random() < 0.6:
            try:
                prev = oc_mod.minimise(list(t), None)
            except Exception:
                prev = []
            t2 = [RTE(rng.choice(ROUTE_SETS[:3]), e.key, e.mask, rng.choice(SOURCE_SETS)) for e in prev]
            extra, _ = random_table(rng, w, rng.randint(1, 4), ordered_overlapping=True, fx=fx)
            have = {(e.key, e.mask) for e in t2}
            for e in extra:
                if (e.key, e.mask) not in have:
                    have.add((e.key, e.mask))
                    t2.append(e)
            t2.sort(key=lambda e: bin(e.mask).count("1"), reverse=True)      # stable: increasing generality
            if len(t2) > 1:
                traces.append(run_methods(t2, w, rng, chk, stepped=False, fx=fx))
                chk.count("follow-up tables built from earlier merge products")
    # tables whose entries all have one mask (exact-match keys, or the same don't-care bits everywhere), some with a
    # key listed twice: the case default-route removal treats specially
    for i in range(chk.pick(60, 3000)):
        w = rng.choice((3, 4, 4, 5))
        t, fx, orth = uniform_mask_table(rng, w, rng.randint(2, min(12, 2 ** w)))
        traces.append(run_methods(t, w, rng, chk, stepped=False, fx=fx, configs=rng.random() < 0.5, orthogonal=orth))
        chk.count("one-mask tables" + ("" if orth else " with a key listed twice"))
    # every (source link, route link) pair - the six straight-through ones and the thirty turns - as the first entry
    # of a small orthogonal table next to an entry that routes to a core (all 18 cores come up) from one link
    fx = Fix(rng, 3, scatter=0.5)
    for i, (src, dst) in enumerate(itertools.product(LINKS, LINKS)):
        keys = rng.sample(range(8), 3)
        t = [fx.entry((keys[0], 7), {dst}, {src}),
             fx.entry((keys[1], 7), {Routes.core(i % 18)}, {LINKS[(i // 18 + i) % 6]}),
             fx.entry((keys[2], 7), {dst}, {src, rng.choice(LINKS + [None])})]
        traces.append(run_methods(t, 3, rng, chk, stepped=False, fx=fx, orthogonal=True, configs=i % 6 == 0))
        chk.count("source-link x route-link pair tables")
    # default-route removal alone: any ordered table at all (arbitrary order, overlapping)
    for i in range(chk.pick(300, 6000)):
        w = rng.choice((3, 4, 5, 6))
        t, fx = random_table(rng, w, rng.randint(1, 12), ordered_overlapping=True)
        rng.shuffle(t)
        traces.append(run_methods(t, w, rng, chk, any_order=True, fx=fx))
    # ---- beyond C04: rig's own table utilities (expand_entries, table_is_subset_of), same first-match semantics
    import warnings
    from rig.routing_table import expand_entries, table_is_subset_of
    extras = []
    for i in range(chk.pick(300, 5000)):
        w = rng.choice((3, 4, 5, 6))
        t, fx = random_table(rng, w, rng.randint(1, 10), ordered_overlapping=rng.random() < 0.5)
        evs = []
        with warnings.catch_warnings():
            warnings.simplefilter("ignore")
            try:
                evs.append(["expand", enc_table(list(expand_entries(t)), fx)])
            except Exception as ex:
                evs.append(["min", "expand_entries", [], type(ex).__name__, [], 0, 0])
            others = [list(t)]
            try:
                others.append(oc_mod.minimise(list(t), None))
            except Exception:
                pass
            if len(t) > 1:
                k = rng.randrange(len(t))
                mutated = list(t)
                mutated[k] = RTE(rng.choice(ROUTE_SETS), t[k].key, t[k].mask, t[k].sources)
                others.append(mutated)
                others.append(t[:k] + t[k + 1:])
            for o in others:
                try:
                    evs.append(["subset", enc_table(o, fx), 1 if table_is_subset_of(t, o) else 0])
                except Exception as ex:
                    evs.append(["min", "table_is_subset_of", [], type(ex).__name__, [], 0, 0])
        extras.append(dict(w=w, orig=enc_table(t, fx), ev=evs))
    chk.validate_beyond("RoutingTableTrace", "RoutingTableTrace.cfg", extras,
                        "expand_entries / table_is_subset_of against first-match semantics", batch=3000)

    chk.rule = ("the empty table; all tables of <= 2 entries and sampled 3-4 entry tables over 3 key bits (orthogonal in "
                "any order, or overlapping in generality order), random tables over 4..10 active bits with up to 40 "
                "entries and random fixed bits elsewhere (active bits at the low end, the top end or scattered over "
                "the 32; narrow or arbitrary route/source palettes; overlapping tables may repeat a key/mask), "
                "one-mask tables with and without a repeated key, all 36 source-link x route-link pairs; each through remove_default_routes, ordered_covering, "
                "minimise_table, minimise_tables with targets None/0/n//2/n/n+2/random, plus ordered covering "
                "single-stepped merge by merge; for a quarter also ordered_covering() itself (raising), "
                "minimise_table with the caller's own methods and remove_default_routes(check_for_aliases=False) on "
                "orthogonal tables; arbitrary-order overlapping tables through remove_default_routes "
                "only. evaluations = minimiser calls; non-trivial = table with two entries of equal route (a merge "
                "candidate) or any small table; distinct = distinct original table")
    chk.exhaustive = False
    chk.sample(traces[0]); chk.sample(traces[len(tabs) // 2]); chk.sample(traces[-400]); chk.sample(traces[-1])

    def key_of(tr, i, clauses):
        e = tr["ev"][i - 1]
        if e[0] == "min":
            return "min %s target=%s outcome=%s %s orig=%s" % (e[1], e[2], e[3], ",".join(clauses),
                                                            "[]" if not tr["orig"] else "len%d" % len(tr["orig"]))
        return "step %s orig=len%d" % (",".join(clauses), len(tr["orig"]))

    # empty-table keys are specific (the input is fully described by "[]"); others carry the table in the replay file
    chk.validate("RoutingTableTrace", "RoutingTableTrace.cfg", traces, key_of=key_of, batch=1500)


def selftest(chk):
    fx = Fix(random.Random(1), 4)
    t = [fx.entry(tern_to_km("0001"), {Routes.north}, {None}), fx.entry(tern_to_km("0010"), {Routes.north}, {None}),
         fx.entry(tern_to_km("1XXX"), {Routes.east}, {Routes.west})]
    good = run_methods(t, 4, random.Random(0), chk)
    bad_merge = [fx.entry(tern_to_km("00XX"), {Routes.north}, {None}), t[2]]
    wrong_route = [fx.entry(tern_to_km("0001"), {Routes.east}, {None}), t[1], t[2]]
    dropped_nondefault = [t[0], t[2]]
    lost_sources = [t[0], t[1], fx.entry(tern_to_km("1XXX"), {Routes.east}, {Routes.south})]
    cases = [
        (good, None),
        (dict(w=4, orig=enc_table(t), ev=[["min", "x", [], "ok", enc_table(bad_merge), 0, 0]]), None),  # legal merge
        (dict(w=4, orig=enc_table(t), ev=[["min", "x", [], "ok", enc_table(wrong_route), 0, 0]]), "Equivalent"),
        (dict(w=4, orig=enc_table(t), ev=[["min", "x", [], "ok", enc_table(dropped_nondefault), 0, 0]]), "Equivalent"),
        (dict(w=4, orig=enc_table(t), ev=[["min", "x", [], "ok", enc_table(lost_sources), 0, 0]]), "Equivalent"),
        (dict(w=4, orig=enc_table(t), ev=[["min", "x", [1], "ok", enc_table(t[:2] + t[2:]), 0, 0]]), "MeetsTarget"),
        (dict(w=4, orig=enc_table(t), ev=[["min", "x", [1], "fail", [], 1, 2]]), "FailHonest"),
        (dict(w=4, orig=enc_table(t), ev=[["min", "x", [], "IndexError", [], 0, 0]]), "OnlyDocumentedError"),
        (dict(w=4, orig=enc_table(t), ev=[["min", "x", [], "ok", enc_table(t + t[:1]), 0, 0]]), "NotLonger"),
    ]
    rej = chk.validate("RoutingTableTrace", "RoutingTableTrace.cfg", [c[0] for c in cases])
    got = {id(t): cl for t, _, cl in rej}
    msgs = []
    for tr, want in cases:
        cl = got.get(id(tr))
        if (want is None) != (cl is None) or (want and want not in cl):
            msgs.append("expected %s, got %s" % (want, cl))
    return not msgs, "; ".join(msgs) or "%d corrupted traces rejected with the expected clauses" % (len(cases) - 2)
