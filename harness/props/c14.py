"""C14 - probed system description and derived machine model match the machine.

D: ProbeDesign.tla - the documented chip-information and point-to-point table layouts of Probe.tla are lossless
   (every link subset, core-state list, router-block size at both ends of the field, every table height across
   the eight-per-word boundary) and the reservation rule (cores busy everywhere -> global ranges, the rest ->
   per-chip ranges) covers exactly the non-idle cores without overlap for every pattern on <= 3 chips x 4 cores,
   the scan procedure being executed core by core.
T: random abstract machine states (trace setup) are planted in a simulated machine (env/probesim.py); the REAL
   MachineController probes it (get_system_info / get_machine / get_software_version / get_processor_status /
   get_iobuf[_bytes] / get_router_diagnostics), build_machine / build_core_constraints /
   build_routing_table_target_lengths are applied to the returned SystemInfo, and everything returned is
   recorded.  Every command the simulator executed is recorded too.  ProbeTrace.tla judges both: what rig
   returned against the abstract state, and the simulator's replies against the documented layouts.
   Small-scope part: build_machine / build_core_constraints on every busy-core pattern of <= 3 chips x 4 cores,
   the SystemInfo being constructed directly from the abstract state.

No oracle here: this file generates machine states, drives rig, and encodes what came back mechanically.
"""
import itertools
import random
import struct
import threading

import pkg_resources

from rig.links import Links
from rig.machine_control import consts, machine_controller, scp_connection
from rig.machine_control.machine_controller import ChipInfo, MachineController, SystemInfo
from rig.place_and_route import Cores, SDRAM, SRAM
from rig.place_and_route.utils import build_core_constraints, build_machine
from rig.routing_table.utils import build_routing_table_target_lengths

from ..env.probesim import ProbeNet, ProbeSim
from ..env.spinnaker_sim import LINK_VEC, RTR_DIAG, SDRAM_BASE, SYSRAM_BASE

VALID_STATES = [0, 1, 2, 3, 4, 5, 6, 7, 8, 9, 10, 11, 15]      # SARK's core states (12-14 do not exist)
BUSY_STATES = [s for s in VALID_STATES if s != 15]
IDLE = 15
STRUCT_TEXT = pkg_resources.resource_string("rig", "boot/sark.struct").decode()
WORDS32 = ("program_state_register", "stack_pointer", "link_register", "mbox_ap_msg", "mbox_mp_msg", "sw_file",
           "sw_line", "time", "iobuf_address")


ISZ_CHOICES = [16, 20, 64, 100, 300, 17, 30, 255, 1]
REFUSALS = [0x87, 0x8b, 0x8c, 0x8e]      # no route, no reply to open, open rejected, Ethernet chip <-> target time-out


def h32(v):
    """a 32-bit quantity as [high half, low half] (TLC integers are 32-bit signed)"""
    return [v >> 16, v & 0xffff]


def u32(hv):
    return (hv[0] << 16) | hv[1]


# ------------------------------------------------------------------------------------------ abstract machine states
def rand_word(rng):
    r = rng.random()
    if r < 0.15:
        return rng.choice([0, 1, 0x7fffffff, 0x80000000, 0xffffffff, 0x0000ffff, 0x00010000])
    if r < 0.5:
        return rng.randrange(1 << 32)
    return rng.randrange(1 << 27)


def gen_shape(rng, big_ok):
    r = rng.random()
    if r < 0.40:
        return rng.randint(1, 4), rng.randint(1, 4)
    if r < 0.62:
        return rng.randint(1, 8), rng.randint(1, 8)
    if r < 0.80:        # tall and narrow: the eight-entries-per-word boundary of the P2P table
        return rng.randint(1, 3), rng.choice([7, 8, 9, 15, 16, 17, 23, 24, 25, 31, 32, 33, rng.randint(1, 40)])
    if r < 0.88:
        return rng.randint(9, 24), rng.randint(1, 3)
    if big_ok:
        return rng.randint(9, 12), rng.randint(9, 12)
    return rng.randint(5, 8), rng.randint(5, 8)


def gen_state(rng, w, h, density=None, label="random"):
    """One abstract machine state (the setup of a trace)."""
    cells = [(x, y) for x in range(w) for y in range(h)]
    if density is None:
        density = rng.choice([1.0, 1.0, 0.95, 0.8, 0.5, 0.2])
    live = [c for c in cells if rng.random() < density]
    if not live:
        live = [rng.choice(cells)]
    if rng.random() < 0.15 and w > 1:           # the last column entirely absent: extent smaller than booted dims
        live = [c for c in live if c[0] != w - 1] or live
    if rng.random() < 0.15 and h > 1:
        live = [c for c in live if c[1] != h - 1] or live
    root = rng.choice(live)
    unresp = []
    if len(live) > 1 and rng.random() < 0.35:
        unresp = rng.sample([c for c in live if c != root], min(len(live) - 1, rng.randint(1, 2)))
    # a chip that is in the P2P table but cannot be reached is either silent or - what real machines mostly do -
    # the Ethernet chip's monitor answers for it with a fatal P2P return code
    refusing = [c for c in unresp if rng.random() < 0.5]
    responding = [c for c in live if c not in unresp]
    rset = set(responding)

    # machine-wide habits and chip-specific deviations
    nc_default = rng.choice([18, 18, 17, 16, rng.randint(1, 18)])
    nc_dev = rng.choice([0.0, 0.1, 0.5, 1.0])
    sdram_default, sram_default = rand_word(rng), rng.randrange(1 << rng.choice([15, 16, 32]))
    mem_dev = rng.choice([0.0, 0.1, 1.0])
    rtr_default = rng.choice([1023, 1023, 1024, rng.randint(0, 1023)])
    rtr_dev = rng.choice([0.0, 0.2, 1.0])
    scheme = rng.choice(["boot", "shared", "shared", "random", "allbusy", "allidle", "mixed"])
    shared_busy = {0} | set(rng.sample(range(1, 18), rng.randint(0, 6)))
    shared_state = {i: rng.choice(BUSY_STATES) for i in range(18)}
    link_mode = rng.choice(["geometry", "geometry", "geometry_torn", "random", "none", "all"])
    eth_p = rng.choice([0.0, 0.1, 0.5])
    # size of one console buffer block: a per-chip system variable, not always a multiple of four
    isz_default = rng.choice(ISZ_CHOICES)
    isz_dev = rng.choice([0.0, 0.0, 0.5])

    chips = []
    for (x, y) in responding:
        nc = nc_default if rng.random() >= nc_dev else rng.randint(1, 18)
        if scheme == "boot":
            states = [7] + [IDLE] * 17
        elif scheme == "allbusy":
            states = [rng.choice(BUSY_STATES) for _ in range(18)]
        elif scheme == "allidle":
            states = [IDLE] * 18
        elif scheme == "random":
            states = [rng.choice(VALID_STATES) if rng.random() < 0.5 else IDLE for _ in range(18)]
        else:
            states = [shared_state[i] if i in shared_busy else IDLE for i in range(18)]
            if scheme == "mixed" or rng.random() < 0.3:
                for i in rng.sample(range(18), rng.randint(1, 5)):
                    states[i] = rng.choice(VALID_STATES)
        states = states[:nc]
        if link_mode == "all":
            links = list(range(6))
        elif link_mode == "none":
            links = []
        elif link_mode == "random":
            links = [l for l in range(6) if rng.random() < 0.5]
        else:
            links = [l for l, (dx, dy) in enumerate(LINK_VEC) if ((x + dx) % w, (y + dy) % h) in rset]
            if link_mode == "geometry_torn":
                links = [l for l in links if rng.random() < 0.8]
        rng.shuffle(links)
        sdram = sdram_default if rng.random() >= mem_dev else rand_word(rng)
        sram = sram_default if rng.random() >= mem_dev else rng.randrange(1 << rng.choice([8, 16, 32]))
        rtr = rtr_default if rng.random() >= rtr_dev else rng.choice([0, 1, 1022, 1023, 1024, 2047, rng.randint(0, 2047),
                                                                     rng.randint(0, 1023)])
        eth = rng.random() < eth_p
        chips.append(dict(x=x, y=y, nc=nc, states=states, links=links, sdram=h32(sdram), sram=h32(sram), rtr=rtr,
                          isz=isz_default if rng.random() >= isz_dev else rng.choice(ISZ_CHOICES),
                          eth=eth, ip=[rng.randrange(256) for _ in range(4)] if (eth or rng.random() < 0.3) else [0, 0, 0, 0],
                          leth=[rng.randrange(256), rng.randrange(256)] if rng.random() < 0.3 else [x - x % 8 if x >= 8 else 0, 0]))
    index = {(c["x"], c["y"]): i + 1 for i, c in enumerate(chips)}
    grid = [[index.get((x, y), (-2 if (x, y) in refusing else -1) if (x, y) in unresp else 0) for y in range(h)]
            for x in range(w)]

    legacy = rng.random() < 0.4
    pcpu = list(range(18))
    rng.shuffle(pcpu)
    ver = dict(legacy=legacy,
               major=rng.choice([0, 1, 2, 3, 13, rng.randint(0, 654)]) if legacy else rng.choice([0, 1, 2, 3, 10, 133, 999]),
               minor=rng.choice([0, 1, 9, 10, 34, 99]) if legacy else rng.choice([0, 1, 9, 10, 100, 255]),
               patch=0 if legacy else rng.choice([0, 1, 7, 10, 42, 1000]),
               labels=[] if legacy else list(rng.choice(["", "", "-dev", "-rc.1", "+build.5", "-alpha+exp.sha.5114f85",
                                                         " beta", "_x"]).encode()),
               name=list(rng.choice(["SC&MP/SpiNNaker", "SARK/SpiNNaker", "BC&MP/Spin5-BMP", "x", "SC&MP/Spinñaker"]).encode()),
               bufsize=rng.choice([256, 256, 128, 64]), date=h32(rng.choice([0, 1400000000, rand_word(rng)])),
               pcpu=pcpu, nul=True if legacy else rng.random() < 0.7)
    if legacy and ver["major"] * 100 + ver["minor"] >= 0xFFFF:
        ver["major"] = 654
    S = dict(w=w, h=h, root=list(root), grid=grid, chips=chips, ver=ver,
             iobuf_size=isz_default, vcpus=[], blocks=[], diags=[], label=label)
    # (the per-core status blocks do not sit at the same address on every chip)
    common = SYSRAM_BASE + 0x4000 + 0x80 * rng.randrange(0, 32)
    for c in chips:
        c["vbase"] = h32(common if rng.random() < 0.3 else SYSRAM_BASE + 0x4000 + 0x80 * rng.randrange(0, 32))
    return S


# Console text: Unicode scalar values by the number of bytes their UTF-8 form takes (both ends of every range, a few
# everyday characters, the byte-order mark, the neighbours of the surrogate gap) - and any other one of that width.
TEXT_POOLS = {
    1: [ord(ch) for ch in "abcdefghij XYZ\n\t0123456789%[]"] + [0x0d, 0x7f, 0x01],
    2: [0x80, 0xa0, 0xb0, 0xb5, 0xc2, 0xc3, 0xe9, 0xf1, 0xff, 0x100, 0x3b1, 0x416, 0x7ff],
    3: [0x800, 0x20ac, 0x2014, 0x2603, 0x4e2d, 0xd7ff, 0xe000, 0xfeff, 0xfffd, 0xffff],
    4: [0x10000, 0x1f600, 0x1f4a9, 0x2000b, 0xe0001, 0x10ffff],
}
TEXT_RANGES = {1: [(0x01, 0x7f)], 2: [(0x80, 0x7ff)], 3: [(0x800, 0xd7ff), (0xe000, 0xffff)], 4: [(0x10000, 0x10ffff)]}
TEXT_STYLES = {"mixed": [1, 2, 3, 4], "accents": [1, 1, 1, 1, 1, 2, 2, 3], "wide": [3, 3, 4], "astral": [4],
               "two": [2], "emoji": [1, 1, 1, 4]}


def gen_text(rng, nbytes, style=None):
    """Console text (a list of Unicode scalar values) whose UTF-8 form is exactly nbytes long."""
    widths = TEXT_STYLES[style or rng.choice(sorted(TEXT_STYLES))]
    cps, left = [], nbytes
    if left >= 3 and rng.random() < 0.15:      # a text may begin with the byte-order mark like any other character
        cps.append(0xfeff)
        left -= 3
    while left:
        wd = rng.choice([k for k in widths if k <= left] or [k for k in (1, 2, 3, 4) if k <= left])
        if rng.random() < 0.6:
            cps.append(rng.choice(TEXT_POOLS[wd]))
        else:
            cps.append(rng.randint(*rng.choice(TEXT_RANGES[wd])))
        left -= wd
    return cps


def plant_extras(rng, S, n_cores=2, n_diags=1, text=None):
    """Per-core status blocks, console buffer chains and router counters for a few cores / chips.

    The contents of a console are of one of three kinds: "ascii" text, "utf8" text (characters of one to four
    bytes, cut into blocks without regard to character boundaries) and "binary" (any bytes; read back as bytes only).
    text: None, or a dict(nblk=, style=) that makes every planted console a full chain of UTF-8 text."""
    chips = S["chips"]
    slot = (max(c["isz"] for c in chips) + 16 + 3) & ~3
    used = {}
    picked = set()
    for _ in range(n_cores):
        c = rng.choice(chips)
        p = rng.randrange(c["nc"])
        isz = c["isz"]
        if (c["x"], c["y"], p) in picked:
            continue
        picked.add((c["x"], c["y"], p))
        b = bytearray(rng.randrange(256) for _ in range(128))
        if rng.random() < 0.2:
            b = bytearray(128)
        b[44] = rng.randint(0, 20)
        b[46] = c["states"][p]
        name = rng.choice(["", "a", "app", "sixteen_chars_xx", "café", "my_app.aplx", "x" * 15]).encode()[:16]
        b[72:88] = name + b"\0" * (16 - len(name))
        # console buffer chain
        kind = "utf8" if text else rng.choice(["ascii", "ascii", "utf8", "utf8", "binary", "binary"])
        nblk = text["nblk"] if text else rng.choice([0, 1, 1, 2, 3, 5])
        slots = used.setdefault((c["x"], c["y"]), set())
        addrs = []
        while len(addrs) < nblk + (1 if rng.random() < 0.3 else 0):      # sometimes a decoy block outside the chain
            k = rng.randrange(64)
            if k not in slots:
                slots.add(k)
                addrs.append(SDRAM_BASE + 0x100000 + k * slot)
        chain, decoys = addrs[:nblk], addrs[nblk:]
        b[88:92] = struct.pack("<I", chain[0] if chain else 0)
        if text:
            lens = [isz] * len(chain) + [rng.randint(0, isz) for _ in decoys]
            if chain and rng.random() < 0.5:
                lens[len(chain) - 1] = rng.randint(1, isz)      # the last block of a chain is rarely full
        else:
            lens = [rng.choice([0, 1, isz, isz, rng.randint(0, isz)]) for _ in chain + decoys]
        # the text of a console is what its blocks hold one after the other: the application's output is cut into
        # blocks wherever a block happens to be full, also in the middle of a character
        cps = gen_text(rng, sum(lens[:len(chain)]), text["style"] if text else None) if kind == "utf8" else []
        stream = "".join(map(chr, cps)).encode("utf-8")
        for i, a in enumerate(chain + decoys):
            nxt = chain[i + 1] if i + 1 < len(chain) else 0
            ln = lens[i]
            if kind == "ascii":
                data = [rng.choice(b"abcdefghij XYZ\n\t0123456789%[]") for _ in range(isz)]
            else:
                data = [rng.randrange(256) for _ in range(isz)]       # (utf8: what lies behind the valid part is junk)
            if kind == "utf8" and i < len(chain):
                data[:ln] = stream[:ln]
                stream = stream[ln:]
            S["blocks"].append(dict(x=c["x"], y=c["y"], addr=h32(a), next=h32(nxt), time=h32(rand_word(rng)),
                                    ms=h32(rand_word(rng)), len=ln, data=data))
        # (statistics only: at how many block boundaries of the chain a character is cut in two)
        starts, edges = set(itertools.accumulate(len(chr(cp).encode("utf-8")) for cp in cps)), set(itertools.accumulate(lens[:len(chain)]))
        S["vcpus"].append(dict(x=c["x"], y=c["y"], p=p, bytes=list(b), kind=kind, text=cps,
                               cuts=len([e for e in edges if e and e < sum(lens[:len(chain)]) and e not in starts])))
    done = set()
    for _ in range(n_diags):
        c = rng.choice(chips)
        if (c["x"], c["y"]) in done:
            continue
        done.add((c["x"], c["y"]))
        S["diags"].append(dict(x=c["x"], y=c["y"], words=[h32(rand_word(rng)) for _ in range(16)]))


# ------------------------------------------------------------------------------------------ the environment
def plant_chip(sim, c, rng):
    """Put the simulated chip into the state the record c describes (mechanical translation)."""
    ch = sim.chips[(c["x"], c["y"])]
    ch.ncores = c["nc"]
    ch.core_state = list(c["states"]) + [0] * (18 - c["nc"])
    ch.links = set(c["links"])
    ch.sdram_next = SDRAM_BASE
    ch.sdram_limit = SDRAM_BASE + u32(c["sdram"])
    ch.sram_free = u32(c["sram"])
    ch.largest_free_rtr_block = (lambda k=c["rtr"]: k)
    ch.eth_up = c["eth"]
    ch.ip = tuple(c["ip"])
    ch.local_eth = tuple(c["leth"])
    ch.info_junk = rng.randrange(1 << 32) if rng.random() < 0.3 else 0
    ch.vcpu_base = u32(c["vbase"])
    ch.iobuf_size = c.get("isz", sim.iobuf_size)         # (hosted jobs plant states with one size for the machine)
    sim.sync_sv(ch)


def changed_chip(rng, c):
    """The record of chip c some time later: applications were loaded or stopped, memory and router entries were
    allocated or freed, a link or a core was lost, the Ethernet cable was pulled.  (The address of the status
    blocks and the console block size stay.)"""
    n = dict(c)
    states = list(c["states"])
    for i in rng.sample(range(len(states)), rng.randint(1, min(3, len(states)))):
        states[i] = rng.choice([s for s in VALID_STATES if s != states[i]])
    if rng.random() < 0.3:
        n["nc"] = rng.randint(1, 18)
        states = (states + [IDLE] * 18)[:n["nc"]]
    n["states"] = states
    if rng.random() < 0.5:
        n["links"] = [l for l in range(6) if rng.random() < 0.5]
    if rng.random() < 0.6:
        n["sdram"] = h32(rand_word(rng))
    if rng.random() < 0.4:
        n["sram"] = h32(rng.randrange(1 << 16))
    if rng.random() < 0.6:
        n["rtr"] = rng.choice([0, 1, 1023, rng.randint(0, 2047)])
    if rng.random() < 0.3:
        n["eth"] = not c["eth"]
        n["ip"] = [rng.randrange(256) for _ in range(4)]
    return n


def configure_sim(S, rng, extra_p2p=()):
    """Build the simulated machine that is in abstract state S (mechanical translation of S)."""
    live = [(c["x"], c["y"]) for c in S["chips"]]
    unresp = [(x, y) for x in range(S["w"]) for y in range(S["h"]) if S["grid"][x][y] == -1]
    refusing = [(x, y) for x in range(S["w"]) for y in range(S["h"]) if S["grid"][x][y] == -2]
    ver = S["ver"]
    sim = ProbeSim(S["w"], S["h"], STRUCT_TEXT, live + unresp + refusing, root=tuple(S["root"]),
                   buffer_size=ver["bufsize"], iobuf_size=S["iobuf_size"])
    for c in S["chips"]:
        plant_chip(sim, c, rng)
    sim.set_unresponsive(unresp)
    sim.set_refusing({xy: rng.choice(REFUSALS) for xy in refusing})
    sim.version = (ver["major"], ver["minor"], ver["patch"])
    sim.legacy_version = ver["legacy"]
    sim.name = bytes(ver["name"]).decode()
    sim.version_labels = bytes(ver["labels"]).decode()
    sim.version_final_nul = ver["nul"]
    sim.build_date = u32(ver["date"])
    sim.phys_cpu = list(ver["pcpu"])
    for v in S["vcpus"]:
        ch = sim.chips[(v["x"], v["y"])]
        ch.write(ch.vcpu_base + sim.vcpu["size"] * v["p"], bytes(v["bytes"]))
    for b in S["blocks"]:
        ch = sim.chips[(b["x"], b["y"])]
        ch.write(u32(b["addr"]), struct.pack("<4I", u32(b["next"]), u32(b["time"]), u32(b["ms"]), b["len"]) + bytes(b["data"]))
    for d in S["diags"]:
        sim.chips[(d["x"], d["y"])].write(RTR_DIAG, b"".join(struct.pack("<I", u32(hv)) for hv in d["words"]))
    for xy in set([tuple(S["root"])]) | set(extra_p2p):
        sim.sync_p2p(xy)
    return sim


def scp_events(sim, start):
    out = []
    for r in sim.log[start:]:
        rc = r.get("rc")
        out.append(["scp", r["cmd"], r["x"], r["y"], r["p"], h32(r["arg1"]), h32(r["arg2"]), h32(r["arg3"]),
                    [] if rc is None else [rc], [h32(a & 0xffffffff) for a in r.get("reply_args", [])],
                    list(r.get("reply_data", b""))])
    return out


# ------------------------------------------------------------------------------------------ encoding what rig returned
def enc_chip(xy, ci):
    return ["chip", xy[0], xy[1], ci.num_cores, [int(s) for s in ci.core_states], [int(l) for l in ci.working_links],
            h32(ci.largest_free_sdram_block), h32(ci.largest_free_sram_block), ci.largest_free_rtr_mc_block,
            bool(ci.ethernet_up), ci.ip_address, list(ci.local_ethernet_chip)]


def enc_sysinfo(si):
    return ([enc_chip(xy, ci) for xy, ci in si.items()] + [
        ["sysinfo", si.width, si.height],
        ["sys_chips", [list(c) for c in si.chips()]],
        ["sys_dead_chips", si.width, si.height, [list(c) for c in si.dead_chips()]],
        ["sys_links", [[x, y, int(l)] for x, y, l in si.links()]],
        ["sys_dead_links", [[x, y, int(l)] for x, y, l in si.dead_links()]],
        ["sys_cores", [[x, y, p, int(s)] for x, y, p, s in si.cores()]],
        ["sys_eth", [[xy[0], xy[1], ip] for xy, ip in si.ethernet_connected_chips()]]])


SYS_PLAN = ["sysinfo", "sys_chips", "sys_dead_chips", "sys_links", "sys_dead_links", "sys_cores", "sys_eth"]


def enc_machine(how, m, rnames):
    def quant(q):
        out = {}
        for k, v in q.items():
            name = rnames.get(k, str(k))
            out[name] = v if name == "cores" else h32(v)
        return out
    return ["machine", how, m.width, m.height, [list(c) for c in m.dead_chips],
            [[x, y, int(l)] for x, y, l in m.dead_links], [list(c) for c in m],
            [[x, y, int(l)] for x, y, l in m.iter_links()], [[c[0], c[1], quant(m[c])] for c in m]]


def enc_constraints(cons, rnames):
    return ["constraints", [[type(c).__name__, rnames.get(getattr(c, "resource", None), "?"),
                             c.reservation.start, c.reservation.stop,
                             [] if c.reservation.step is None else [c.reservation.step],
                             [] if c.location is None else list(c.location)] for c in cons]]


def enc_status(ps):
    out = {}
    for k, v in ps._asdict().items():
        if k in ("registers", "user_vars"):
            out[k] = [h32(a) for a in v]
        elif k in WORDS32:
            out[k] = h32(v)
        elif k == "app_name":
            out[k] = list(v.encode("utf-8"))
        elif k == "version":
            out[k] = list(v)
        else:
            out[k] = int(v)
    return out


def enc_text(x, y, p, t):
    """A console read as text: the class of the object returned and the text as the sequence of its code points (TLC
    cannot take a string apart; a bytes object travels as its bytes, anything else as nothing)."""
    if isinstance(t, str):
        return ["iobuf_text", x, y, p, "str", [ord(ch) for ch in t]]
    return ["iobuf_text", x, y, p, type(t).__name__, list(t) if isinstance(t, (bytes, bytearray)) else []]


def enc_version(ci):
    return dict(position=list(ci.position), physical_cpu=ci.physical_cpu, virt_cpu=ci.virt_cpu,
                software_version=list(ci.software_version), buffer_size=ci.buffer_size, build_date=h32(ci.build_date),
                version_string=list(ci.version_string.encode("utf-8")),
                software_version_labels=list(ci.software_version_labels.encode("utf-8")))


DEFAULT_RNAMES = {Cores: "cores", SDRAM: "sdram", SRAM: "sram"}


def derived_events(si, rng, custom_resources=False):
    """build_machine / build_core_constraints / target lengths applied to a SystemInfo"""
    evs = []
    if custom_resources:
        rc, rs, rr = object(), "my-sdram", 42
        rn = {rc: "cores", rs: "sdram", rr: "sram"}
        evs.append(enc_machine("build_machine", build_machine(si, core_resource=rc, sdram_resource=rs, sram_resource=rr), rn))
        evs.append(enc_constraints(build_core_constraints(si, core_resource=rc), rn))
    else:
        evs.append(enc_machine("build_machine", build_machine(si), DEFAULT_RNAMES))
        evs.append(enc_constraints(build_core_constraints(si), DEFAULT_RNAMES))
    evs.append(["targets", [[xy[0], xy[1], n] for xy, n in build_routing_table_target_lengths(si).items()]])
    return evs


DERIVED_PLAN = ["machine", "constraints", "targets"]


def contains_queries(rng, S, si, n):
    evs = []
    w, h = S["w"], S["h"]
    for _ in range(n):
        x, y = rng.randint(0, w), rng.randint(0, h)
        if S["chips"] and rng.random() < 0.6:
            c = rng.choice(S["chips"])
            x, y = c["x"], c["y"]
        kind = rng.choice(["chip", "link", "core", "state"])
        if kind == "chip":
            q, t = [x, y], (x, y)
        elif kind == "link":
            l = rng.randrange(6)
            q, t = [x, y, l], (x, y, Links(l))
        elif kind == "core":
            p = rng.choice([-1, -2, 18] + list(range(19)))
            q, t = [x, y, p], (x, y, p)
        else:
            p, s = rng.choice([-1, -1, -2] + list(range(19))), rng.choice(VALID_STATES)
            if (x, y) in si and rng.random() < 0.4:        # the state some core of that chip really is in
                s = int(rng.choice(si[(x, y)].core_states))
            q, t = [x, y, p, s], (x, y, p, consts.AppState(s))
        evs.append(["contains", kind, q, bool(t in si)])
    return evs


def shaped(mc, rng, meth, x, y, p=None, pname="p", p_first=True):
    """mc.<meth> for chip (x, y) [core p], the coordinates being passed in one of the documented ways: by position,
    by keyword, or left to an enclosing `with mc(...)` block (all of them, or only the chip)."""
    f = getattr(mc, meth)
    shape = rng.choice(["pos", "pos", "kw", "ctx", "ctx_xy"])
    if shape == "pos":
        if p is None:
            return f(x, y)
        return f(p, x, y) if p_first else f(x, y, p)
    if shape == "kw":
        return f(x=x, y=y) if p is None else f(x=x, y=y, **{pname: p})
    if shape == "ctx" and (p is None or pname == "p"):
        with (mc(x=x, y=y) if p is None else mc(x=x, y=y, p=p)):
            return f()
    with mc(x=x, y=y):
        if p is None:
            return f()
        return f(p) if (p_first and rng.random() < 0.5) else f(**{pname: p})


def chip_query(mc, rng, kind, x, y):
    """one of the single-chip public questions"""
    if kind == "links":
        return ["chipq", kind, x, y, [int(l) for l in shaped(mc, rng, "get_working_links", x, y)]]
    if kind == "ncores":
        return ["chipq", kind, x, y, int(shaped(mc, rng, "get_num_working_cores", x, y))]
    if kind == "ip":
        ip = shaped(mc, rng, "get_ip_address", x, y)
        return ["chipq", kind, x, y, [] if ip is None else [ip]]
    return ["chipq", kind, x, y, enc_chip((x, y), shaped(mc, rng, "get_chip_info", x, y))]


CHIPQ_KINDS = ["links", "ncores", "ip", "info"]


# ------------------------------------------------------------------------------------------ one probing trace
def probe_trace(S, rng, opts):
    """Run the real MachineController against a simulated machine in state S; returns the trace."""
    start_xy = tuple(S["root"])
    explicit_start = opts.get("explicit_start")
    if explicit_start:
        start_xy = (explicit_start["x"], explicit_start["y"])
    sim = configure_sim(S, rng, extra_p2p=[start_xy])
    net = ProbeNet(sim)
    net.install(scp_connection, machine_controller)
    evs, plan = [], []
    mark = [0]

    def flush():
        evs.extend(scp_events(sim, mark[0]))
        mark[0] = len(sim.log)

    calls = []          # (planned result names, thunk returning the events)
    mc = MachineController("sim", n_tries=opts.get("n_tries", 2), timeout=0.05)
    holder = {}

    def do_sysinfo():
        if not explicit_start:
            si = mc.get_system_info()
        else:
            how = rng.choice(["pos", "kw", "ctx"])
            if how == "pos":
                si = mc.get_system_info(*start_xy)
            elif how == "kw":
                si = mc.get_system_info(x=start_xy[0], y=start_xy[1])
            else:
                with mc(x=start_xy[0], y=start_xy[1]):
                    si = mc.get_system_info()
        holder["si"] = si
        return enc_sysinfo(si)
    calls.append((SYS_PLAN, do_sysinfo, True))
    nq = opts.get("contains", 4)
    calls.append((["contains"] * nq, lambda: contains_queries(rng, S, holder["si"], nq), False))
    calls.append((DERIVED_PLAN, lambda: derived_events(holder["si"], rng, opts.get("custom_resources", False)), False))
    for v in S["vcpus"]:
        x, y, p = v["x"], v["y"], v["p"]
        calls.append((["status"], lambda x=x, y=y, p=p: [["status", x, y, p, enc_status(shaped(mc, rng, "get_processor_status", x, y, p))]], False))
        calls.append((["iobuf"], lambda x=x, y=y, p=p: [["iobuf", x, y, p, list(shaped(mc, rng, "get_iobuf_bytes", x, y, p))]], False))
        if v["kind"] != "binary":
            calls.append((["iobuf_text"], lambda x=x, y=y, p=p: [enc_text(x, y, p, shaped(mc, rng, "get_iobuf", x, y, p))], False))
    for d in S["diags"]:
        x, y = d["x"], d["y"]
        calls.append((["diag"], lambda x=x, y=y: [["diag", x, y, [[k, h32(v)] for k, v in
                                                                 shaped(mc, rng, "get_router_diagnostics", x, y)._asdict().items()]]], False))
    for (x, y, p) in opts.get("versions", []):
        if (x, y, p) == (255, 255, 0):
            rx, ry = S["root"]
            calls.append((["version"], lambda rx=rx, ry=ry: [["version", rx, ry, 0, enc_version(mc.get_software_version())]], False))
        else:
            calls.append((["version"], lambda x=x, y=y, p=p: [["version", x, y, p, enc_version(
                shaped(mc, rng, "get_software_version", x, y, p, pname="processor", p_first=False))]], False))
    if opts.get("get_machine"):
        def do_get_machine():
            m = mc.get_machine(*start_xy) if explicit_start else mc.get_machine()
            return [enc_machine("get_machine", m, DEFAULT_RNAMES)]
        calls.append((["machine"], do_get_machine, True))
    for (kind, x, y) in opts.get("chipq", []):
        calls.append((["chipq"], lambda kind=kind, x=x, y=y: [chip_query(mc, rng, kind, x, y)], False))
    order = calls[:3] + rng.sample(calls[3:], len(calls) - 3)
    if opts.get("reprobe"):
        # the machine changes under a controller that has already probed it; what is asked afterwards must be
        # answered from the machine as it is now
        changed = []

        def do_change():
            for c in rng.sample(S["chips"], min(len(S["chips"]), rng.randint(1, 3))):
                n = changed_chip(rng, c)
                plant_chip(sim, n, rng)
                changed.append(n)
            return [["change", changed]]
        order.append(([], do_change, False))
        for kind in opts["reprobe"]["first"]:
            order.append((["chipq"], lambda kind=kind: [chip_query(mc, rng, kind, changed[0]["x"], changed[0]["y"])], False))
        if opts["reprobe"]["how"] == "get_machine":
            order.append((["machine"], lambda: [enc_machine(
                "get_machine", mc.get_machine(*start_xy) if explicit_start else mc.get_machine(), DEFAULT_RNAMES)], True))
        else:
            order.append(calls[0])
            order.append((["contains"] * 2, lambda: contains_queries(rng, S, holder["si"], 2), False))
            order.append(calls[2])
        for kind in opts["reprobe"]["last"]:
            order.append((["chipq"], lambda kind=kind: [chip_query(mc, rng, kind, changed[-1]["x"], changed[-1]["y"])], False))
    for names, thunk, is_probe in order:
        plan.extend(names)
    try:
        for names, thunk, is_probe in order:
            if is_probe:
                flush()
                evs.append(["probe", start_xy[0], start_xy[1]])
            try:
                out = thunk()
            except Exception as ex:       # judged by the spec: probing a machine inside the domain never raises
                flush()
                evs.append(["raise", type(ex).__name__])
                break
            flush()
            evs.extend(out)
    finally:
        net.uninstall()
    evs.append(["end"])
    tr = dict(S)
    tr["plan"] = plan
    tr["ev"] = evs
    return tr


# ------------------------------------------------------------------------------------------ small scope, direct
def direct_trace(S, rng):
    """build_machine / build_core_constraints / target lengths on a SystemInfo constructed from S (no probing)."""
    si = SystemInfo(S["w"], S["h"])
    for c in S["chips"]:
        si[(c["x"], c["y"])] = ChipInfo(
            num_cores=c["nc"], core_states=[consts.AppState(s) for s in c["states"]],
            working_links=set(Links(l) for l in c["links"]), largest_free_sdram_block=u32(c["sdram"]),
            largest_free_sram_block=u32(c["sram"]), largest_free_rtr_mc_block=c["rtr"], ethernet_up=c["eth"],
            ip_address=".".join(map(str, c["ip"])), local_ethernet_chip=tuple(c["leth"]))
    evs = []
    try:
        evs.extend(derived_events(si, rng))
    except Exception as ex:
        evs.append(["raise", type(ex).__name__])
    evs.append(["end"])
    tr = dict(S)
    tr["plan"] = list(DERIVED_PLAN)
    tr["ev"] = evs
    return tr


def small_state(rng, pattern, shuffle_mem):
    """pattern: tuple of (ncores, busy-core tuple) per chip; chips sit in a row, every other cell is absent"""
    n = len(pattern)
    w = max(n, 1)
    chips = []
    for i, (nc, busy) in enumerate(pattern):
        states = [rng.choice(BUSY_STATES) if p in busy else IDLE for p in range(nc)]
        links = [l for l in range(6) if rng.random() < 0.5]
        chips.append(dict(x=i, y=0, nc=nc, states=states, links=links,
                          sdram=h32(rng.choice([100, 200]) if shuffle_mem else 100),
                          sram=h32(rng.choice([7, 9]) if shuffle_mem else 7), rtr=rng.choice([1023, 5]),
                          eth=False, ip=[0, 0, 0, 0], leth=[0, 0], isz=16, vbase=h32(SYSRAM_BASE + 0x4000 + 0x900 * (i % 3))))
    grid = [[i + 1] for i in range(n)] if n else [[0]]
    return dict(w=w, h=1, root=[0, 0], grid=grid, chips=chips,
                ver=dict(legacy=True, major=1, minor=0, patch=0, labels=[], name=[120], bufsize=256, date=[0, 0],
                         pcpu=list(range(18)), nul=True),
                iobuf_size=16, vcpus=[], blocks=[], diags=[], label="small")


def small_patterns(max_chips, max_cores):
    per_chip = [(nc, busy) for nc in range(1, max_cores + 1)
                for k in range(nc + 1) for busy in itertools.combinations(range(nc), k)]
    for n in range(0, max_chips + 1):
        for pat in itertools.product(per_chip, repeat=n):
            yield pat


# ------------------------------------------------------------------------------------------ the check
def key_of(tr, i, clauses):
    e = tr["ev"][i - 1]
    what = e[0] if e[0] != "scp" else "scp cmd=%s" % e[1]
    if e[0] == "raise":
        what += " " + e[1]
    return "%s %s %dx%d %s chips=%d" % (what, ",".join(clauses), tr["w"], tr["h"], tr.get("label", ""), len(tr["chips"]))


def strip(tr):
    t = dict(tr)
    t["vcpus"] = [{k: v for k, v in d.items() if k not in ("kind", "text", "cuts")} for d in tr["vcpus"]]
    return t


def run(chk):
    rng = random.Random(chk.seed)
    # the design job does not depend on the traces: it runs beside their generation
    failure = []

    def design_job():
        try:
            chk.design("ProbeDesign", "ProbeDesign_%s.cfg" % chk.tier,
                       expect_actions=("InfoFlipLink", "InfoNextRtr", "InfoToggleEth", "InfoAddCore",
                                       "InfoRestartCores", "InfoSetAux", "P2PGrow", "P2PMark", "ScanSkip", "ScanOpen",
                                       "ScanExtend", "ScanEmitAndOpen", "ScanFinish"))
        except BaseException as ex:        # re-raised in the main thread below
            failure.append(ex)
    designer = threading.Thread(target=design_job)
    designer.start()
    try:
        probed, direct = generate(chk, rng)
    finally:
        designer.join()
    if failure:
        raise failure[0]
    chk.validate("ProbeTrace", "ProbeTrace.cfg", probed, key_of=key_of, batch=chk.pick(150, 150), label="probed")
    chk.validate("ProbeTrace", "ProbeTrace.cfg", direct, key_of=key_of, batch=8000, label="small scope")
    # beyond the property: the command-line tools (rig-ps, rig-iobuf, rig-counters, rig-info, rig-power, rig-discover,
    # rig-boot) run in-process against simulated hosts and judged against Scripts.tla
    from . import scripts
    scripts.run_beyond(chk)


def generate(chk, rng):
    # ---- small scope: every busy-core pattern on <= 3 chips x 4 cores through build_core_constraints/build_machine
    pats = list(small_patterns(3, 4))
    limit = chk.pick(3000, 10 ** 9)
    exhaustive = len(pats) <= limit
    if not exhaustive:
        small2 = [p for p in pats if len(p) <= 2]
        pats = small2 + rng.sample([p for p in pats if len(p) == 3], limit - len(small2))
    direct = []
    for pat in pats:
        S = small_state(rng, pat, shuffle_mem=rng.random() < 0.5)
        direct.append(direct_trace(S, rng))
        chk.note_case(("small", pat), nontrivial=any(b for _, b in pat))
    chk.extra["small_scope_exhaustive"] = exhaustive
    chk.extra["small_scope_domain"] = ("build_machine / build_core_constraints / build_routing_table_target_lengths on "
                                       "every pattern of busy cores of <= 3 chips with 1..4 cores each (%d patterns%s)"
                                       % (len(pats), "" if exhaustive else ", all of <= 2 chips and a sample of 3 chips"))

    # ---- random machine states probed through the simulated machine
    probed = []
    n_random = chk.pick(260, 2500)
    shapes = []
    for i in range(n_random):
        shapes.append(gen_shape(rng, big_ok=(i % chk.pick(12, 6) == 0)))
    shapes += [(1, 1), (1, 1), (12, 12), (2, 17), (3, 16), (1, 9), (24, 24) if not chk.quick else (10, 11)]
    sparse = [(40, 33, 0.02), (255, 2, 0.05), (2, 255, 0.05), (64, 48, 0.01)]
    if not chk.quick:
        sparse += [(255, 255, 0.0003), (128, 200, 0.001), (255, 255, 0.0002)]
    jobs = [(w, h, None, "random", None) for (w, h) in shapes] + [(w, h, d, "sparse", None) for (w, h, d) in sparse]
    # consoles that hold text outside ASCII (the documentation of get_iobuf fixes the encoding: UTF-8), every width
    # of character, chains whose block size cuts characters in two, read through the text front end
    jobs += [(w, h, 1.0, "text", dict(nblk=n, style=sty, isz=isz)) for (w, h, n, sty, isz) in [
        (2, 2, 2, "mixed", 17), (1, 1, 3, "accents", 30), (2, 1, 5, "wide", 16), (1, 2, 2, "astral", 255),
        (1, 1, 4, "astral", 1), (2, 2, 3, "emoji", 20), (1, 1, 1, "two", 64), (2, 1, 2, "two", rng.choice([1, 17, 255])),
        (1, 1, rng.randint(2, 5), rng.choice(sorted(TEXT_STYLES)), rng.choice(ISZ_CHOICES))]]
    n_chips_probed = 0
    text_stats = dict(read=0, nonascii=0, w2=0, w3=0, w4=0, cut=0, cuts=0)
    for (w, h, dens, label, text) in jobs:
        S = gen_state(rng, w, h, density=dens, label=label)
        big = len(S["chips"]) > 60 or w * h > 2000
        if text:
            for c in S["chips"]:
                c["isz"] = text["isz"]
            plant_extras(rng, S, n_cores=rng.choice([2, 3]), n_diags=rng.choice([0, 1]), text=text)
        else:
            plant_extras(rng, S, n_cores=rng.choice([0, 1, 2, 3]), n_diags=rng.choice([0, 1, 2]))
        for v in S["vcpus"]:
            if v["kind"] == "utf8":
                text_stats["read"] += 1
                text_stats["nonascii"] += any(cp > 0x7f for cp in v["text"])
                text_stats["w2"] += any(0x80 <= cp < 0x800 for cp in v["text"])
                text_stats["w3"] += any(0x800 <= cp < 0x10000 for cp in v["text"])
                text_stats["w4"] += any(cp >= 0x10000 for cp in v["text"])
                text_stats["cut"] += v["cuts"] > 0
                text_stats["cuts"] += v["cuts"]
        opts = dict(contains=rng.choice([0, 3, 6]), custom_resources=rng.random() < 0.2,
                    get_machine=(not big) and rng.random() < 0.3, versions=[])
        if rng.random() < 0.25:
            opts["explicit_start"] = rng.choice(S["chips"])
        opts["chipq"] = []
        for _ in range(rng.choice([0, 0, 1, 2])):
            c = rng.choice(S["chips"])
            opts["chipq"].append((rng.choice(CHIPQ_KINDS), c["x"], c["y"]))
        if not big and rng.random() < 0.3:
            opts["reprobe"] = dict(how=rng.choice(["get_system_info", "get_system_info", "get_machine"]),
                                   first=rng.sample(CHIPQ_KINDS, rng.choice([0, 1, 2])),
                                   last=rng.sample(CHIPQ_KINDS, rng.choice([0, 1])))
        for _ in range(rng.choice([0, 1, 1, 2])):
            if rng.random() < 0.3:
                opts["versions"].append((255, 255, 0))
            else:
                c = rng.choice(S["chips"])
                opts["versions"].append((c["x"], c["y"], rng.randrange(c["nc"])))
        tr = probe_trace(S, rng, opts)
        probed.append(strip(tr))
        n_chips_probed += len(S["chips"])
        chk.note_case((S["w"], S["h"], S["grid"], S["chips"], S["ver"], S["vcpus"], S["blocks"], S["diags"]),
                      nontrivial=len(S["chips"]) > 1 or bool(S["vcpus"]))
    allt = probed + direct
    chk.count("machine states probed through the simulated machine", len(probed))
    chk.count("chips described in those states", n_chips_probed)
    chk.count("states with dead (absent) chips", sum(1 for t in probed if any(0 in col for col in t["grid"])))
    chk.count("states with unresponsive chips", sum(1 for t in probed if any(-1 in col for col in t["grid"])))
    chk.count("states with chips answered for by a fatal return code", sum(1 for t in probed if any(-2 in col for col in t["grid"])))
    chk.count("states changed under the controller and probed again", sum(1 for t in probed for e in t["ev"] if e[0] == "change"))
    chk.count("single-chip questions (working links, cores, IP address, chip info)", sum(1 for t in probed for e in t["ev"] if e[0] == "chipq"))
    chk.count("states with console block sizes that are not a multiple of four", sum(1 for t in probed if any(c["isz"] % 4 for c in t["chips"])))
    chk.count("states with legacy version encoding", sum(1 for t in probed if t["ver"]["legacy"]))
    chk.count("console buffer chains of >= 2 blocks", sum(1 for t in probed for v in t["vcpus"]
              if sum(1 for b in t["blocks"] if (b["x"], b["y"]) == (v["x"], v["y"])) >= 2))
    chk.count("consoles of UTF-8 text read as text (get_iobuf)", text_stats["read"])
    chk.count("... holding characters outside ASCII", text_stats["nonascii"])
    chk.count("... holding characters of two bytes", text_stats["w2"])
    chk.count("... holding characters of three bytes", text_stats["w3"])
    chk.count("... holding characters of four bytes", text_stats["w4"])
    chk.count("... with a character cut in two by a block boundary", text_stats["cut"])
    chk.count("block boundaries inside a character", text_stats["cuts"])
    chk.count("consoles read as text in all (ASCII and UTF-8)", sum(1 for t in probed for e in t["ev"] if e[0] == "iobuf_text"))
    chk.count("probing calls that raised", sum(1 for t in allt for e in t["ev"] if e[0] == "raise"))
    chk.count("simulated SCP commands judged", sum(1 for t in probed for e in t["ev"] if e[0] == "scp"))
    chk.rule = ("abstract machine states: booted dimensions 1x1..12x12 in full (tall/narrow shapes across the 8-rows-per-"
                "word boundary of the P2P table, 24x3), sparse address spaces up to 255x255 (thorough) / 64x48, 255x2, "
                "2x255 (quick); any subset of chips absent, 0-2 chips listed in the P2P table but silent, last row / "
                "column absent; per chip 1..18 cores, core states from SARK's 13 states in schemes fresh-boot / shared "
                "application / random / all busy / all idle / mixed, working links from geometry, torn, random, none, "
                "all; chips in the P2P table that are silent or are answered for with a fatal return code; free SDRAM/SRAM over the whole 32-bit range, router blocks 0..2047, Ethernet up/down with IP and "
                "local Ethernet chip, junk in unassigned reply bits; software version in both encodings with labels "
                "and optional final NUL; 0-3 planted status blocks with console chains of 0-5 blocks (per-chip block "
                "sizes 1..300, also not multiples of four, decoy blocks; contents ASCII text, UTF-8 text with characters of "
                "one to four bytes - both ends of every width, the byte-order mark, the neighbours of the surrogate gap - "
                "cut into blocks without regard to character boundaries, or arbitrary bytes; text is read back through "
                "get_iobuf and travels as code points, everything also as bytes through get_iobuf_bytes; 9 states of "
                "full chains of 1-5 blocks of such text with block sizes 1..255) and 0-2 planted router counter sets; "
                "coordinates passed by position, keyword or enclosing context block; single-chip questions; in 3 of 10 "
                "states 1-3 chips change after the first probe and the machine is probed again through the same controller.  Outside the domain and "
                "never generated: core-state bytes 12-14, an absent or silent root chip.  non-trivial = more than one "
                "responding chip or a planted status block (small scope: at least one busy core); distinct = "
                "distinct abstract states")
    chk.exhaustive = False
    chk.assumptions = [
        "the simulated machine (env/spinnaker_sim.py + env/probesim.py) is an environment: each of its replies is "
        "judged in the same trace against the documented layouts written in spec/Probe.tla (Env clauses)",
        "addresses of the system variables, the P2P table and the router counters are those of sark.struct / the "
        "datasheet as written in Probe.tla",
        "build_application_map is part of the anchored code but the property statement says nothing about it; it "
        "is not judged",
    ]
    small = min((t for t in probed if 2 <= len(t["chips"]) <= 4 and t["vcpus"]), key=lambda t: len(t["ev"]), default=probed[0])
    chk.sample(dict(small, note="small probed machine"))
    chk.sample(dict(direct[len(direct) // 2], note="small-scope direct"))
    rnd = probed[len(probed) // 3]
    chk.sample(dict(rnd, ev=rnd["ev"][:40] + [["...", len(rnd["ev"]) - 40, "more events"]], note="random (truncated)"))
    return probed, direct


# ------------------------------------------------------------------------------------------ self-test
def selftest(chk):
    import copy
    rng = random.Random(5)
    S = gen_state(rng, 3, 2, density=1.0, label="selftest")
    # make the state interesting in a known way: one absent chip, one silent chip, distinct core patterns
    while (len(S["chips"]) < 4 or not any(-1 in col for col in S["grid"]) or not any(-2 in col for col in S["grid"])
           or not any(c["eth"] for c in S["chips"]) or S["ver"]["legacy"]
           or not all(any(s != IDLE for s in c["states"]) and c["links"] and len(c["links"]) < 6 for c in S["chips"])):
        S = gen_state(rng, 3, 2, density=0.9, label="selftest")
    while not (S["vcpus"] and S["diags"] and any(b["len"] > 0 for b in S["blocks"])
               and any(v["kind"] == "utf8" and v["cuts"] and max(v["text"], default=0) >= 0x10000 for v in S["vcpus"])):
        S["vcpus"], S["blocks"], S["diags"] = [], [], []
        plant_extras(rng, S, n_cores=2, n_diags=1)
    c0 = S["chips"][0]
    opts = dict(contains=2, versions=[(c0["x"], c0["y"], 0)], get_machine=False,
                chipq=[(k, c0["x"], c0["y"]) for k in CHIPQ_KINDS],
                reprobe=dict(how="get_system_info", first=["info"], last=["ncores"]))
    good = strip(probe_trace(S, random.Random(1), opts))

    def idx(tr, name, nth=0):
        return [i for i, e in enumerate(tr["ev"]) if e[0] == name][nth]

    def mut(f):
        t = copy.deepcopy(good)
        f(t)
        return t

    def drop(name):
        return lambda t: t["ev"].__delitem__(idx(t, name))

    def swap(a, b):
        def f(t):
            i, j = idx(t, a), idx(t, b)
            t["ev"][i], t["ev"][j] = t["ev"][j], t["ev"][i]
        return f

    def set_ev(name, path, fn, nth=0):
        def f(t):
            o = t["ev"][idx(t, name, nth)]
            for k in path[:-1]:
                o = o[k]
            o[path[-1]] = fn(o[path[-1]])
        return f
    info_i = [i for i, e in enumerate(good["ev"]) if e[0] == "scp" and e[1] == 31 and e[8] == [128]][0]
    p2p_i = [i for i, e in enumerate(good["ev"]) if e[0] == "scp" and e[1] == 2 and e[5][0] == 0xe101][0]

    def corrupt_info(t):
        t["ev"][info_i][10][0] ^= 1
    def corrupt_info_arg(t):
        t["ev"][info_i][9][0][1] ^= 0x100
    def corrupt_p2p(t):
        d = t["ev"][p2p_i][10]
        d[0] = (d[0] & ~7) | (0 if d[0] & 7 == 6 else 6)
    def wrong_state(t):
        t["chips"][1]["nc"] = t["chips"][1]["nc"] % 18 + 1
        t["chips"][1]["states"] = (t["chips"][1]["states"] + [IDLE] * 18)[:t["chips"][1]["nc"]]
    cases = [
        (good, None),
        (mut(set_ev("chip", [3], lambda v: v + 1)), "CoreCountsTrue"),
        (mut(set_ev("chip", [4, 0], lambda v: 5 if v != 5 else 7)), "CoreStatesTrue"),
        (mut(set_ev("chip", [5], lambda v: v[1:])), "WorkingLinksTrue"),
        (mut(set_ev("chip", [6, 1], lambda v: v ^ 1)), "FreeMemoryTrue"),
        (mut(set_ev("chip", [8], lambda v: v ^ 1024)), "RouterBlocksTrue"),
        (mut(set_ev("chip", [11, 0], lambda v: v ^ 1)), "EthernetTrue"),
        (mut(drop("chip")), "ChipsExactlyResponding"),
        (mut(lambda t: t["ev"].insert(idx(t, "chip"), copy.deepcopy(t["ev"][idx(t, "chip")]))), "ChipsExactlyResponding"),
        (mut(set_ev("sys_dead_chips", [3], lambda v: v[1:])), "SysDeadChipsTrue"),
        (mut(set_ev("machine", [5], lambda v: v[1:])), "MachineLinksTrue"),
        (mut(set_ev("machine", [4], lambda v: [])), "MachineHasExactlyThoseChips"),
        (mut(set_ev("machine", [8, 0, 2, "sdram", 1], lambda v: v ^ 2)), "MachineQuantitiesTrue"),
        (mut(set_ev("constraints", [1], lambda v: v[1:])), "ReservationsCoverExactlyNonIdleCores"),
        (mut(set_ev("constraints", [1], lambda v: v + [v[0]])), "ReservationsDisjoint"),
        (mut(set_ev("constraints", [1, 0, 1], lambda v: "sdram")), "ReservationsAreCoreRanges"),
        (mut(set_ev("targets", [1, 0, 2], lambda v: v + 1)), "TargetLengthsTrue"),
        (mut(swap("machine", "constraints")), "AsPlanned"),
        (mut(drop("targets")), "AsPlanned"),
        (mut(lambda t: t["ev"].__delitem__(slice(idx(t, "end") - 1, idx(t, "end")))), "AllPlannedResultsPresent"),
        (mut(set_ev("status", [4, "registers", 3, 0], lambda v: v ^ 1)), "StatusIsMachines_registers"),
        (mut(set_ev("status", [4, "cpu_state"], lambda v: v ^ 1)), "StatusIsMachines_state"),
        (mut(set_ev("status", [4, "app_name"], lambda v: v + [65])), "StatusIsMachines_name_buffer_user"),
        (mut(set_ev("diag", [3], lambda v: [v[1], v[0]] + v[2:])), "CountersAreMachines"),
        (mut(set_ev("version", [4, "software_version", 1], lambda v: v + 1)), "VersionDecoded"),
        (mut(set_ev("version", [4, "physical_cpu"], lambda v: (v + 1) % 18)), "VersionReplyFields"),
        (mut(set_ev("contains", [3], lambda v: not v)), "ContainsTrue"),
        (mut(corrupt_info), "EnvInfoReplyEncodesState"),
        (mut(corrupt_info_arg), "EnvInfoReplyEncodesState"),
        (mut(corrupt_p2p), "EnvReadIsMemory"),
        (mut(wrong_state), "EnvInfoReplyEncodesState"),
        (mut(lambda t: t["ev"].insert(idx(t, "end"), ["raise", "SCPError"])), "NoException"),
    ]
    def chipq_i(t, kind):
        return [i for i, e in enumerate(t["ev"]) if e[0] == "chipq" and e[1] == kind][0]

    def set_q(kind, fn):
        def f(t):
            e = t["ev"][chipq_i(t, kind)]
            e[4] = fn(e[4])
        return f
    refused_i = [i for i, e in enumerate(good["ev"]) if e[0] == "scp" and e[8] and e[8][0] in REFUSALS
                 and good["grid"][e[2]][e[3]] == -2][0]

    def answer_for_refused(t):
        t["ev"][refused_i][8] = [128]
    cases += [
        (mut(set_ev("sys_chips", [1], lambda v: v[1:])), "ChipsExactlyResponding"),
        (mut(set_q("links", lambda v: v[1:] if v else [0])), "WorkingLinksTrue"),
        (mut(set_q("ncores", lambda v: v % 18 + 1)), "CoreCountsTrue"),
        (mut(set_q("ip", lambda v: [] if v else ["1.2.3.4"])), "EthernetTrue"),
        (mut(set_q("info", lambda v: v[:8] + [v[8] ^ 1] + v[9:])), "RouterBlocksTrue"),
        (mut(drop("change")), "EnvInfoReplyEncodesState"),
        (mut(answer_for_refused), "EnvUnreachableChipIsRefused"),
    ]
    iob = [i for i, e in enumerate(good["ev"]) if e[0] == "iobuf" and e[4]]
    if iob:
        def corrupt_iobuf(t):
            t["ev"][iob[0]][4] = t["ev"][iob[0]][4][:-1]
        cases.append((mut(corrupt_iobuf), "IobufIsMachines"))
    txt = [i for i, e in enumerate(good["ev"]) if e[0] == "iobuf_text" and any(cp > 0x7f for cp in e[5])][0]

    def set_text(fn):
        def f(t):
            t["ev"][txt][5] = fn(t["ev"][txt][5])
        return f

    def as_bytes(t):
        e = t["ev"][txt]
        e[4], e[5] = "bytes", list("".join(map(chr, e[5])).encode("utf-8"))
    cases += [
        # every byte of the console taken for a character; one character of the text another one; a character
        # dropped; a character for every half of a four-byte one; the bytes themselves instead of text
        (mut(set_text(lambda v: list("".join(map(chr, v)).encode("utf-8")))), "IobufTextIsMachines"),
        (mut(set_text(lambda v: [cp if cp < 0x80 else 0xfffd for cp in v])), "IobufTextIsMachines"),
        (mut(set_text(lambda v: [cp for cp in v if cp < 0x10000])), "IobufTextIsMachines"),
        (mut(set_text(lambda v: [h for cp in v for h in ([cp] if cp < 0x10000 else
                                                          [0xd800 + ((cp - 0x10000) >> 10), 0xdc00 + (cp & 0x3ff)])])), "IobufTextIsMachines"),
        (mut(as_bytes), "IobufTextIsMachines"),
        (mut(lambda t: t["ev"].__delitem__(txt)), "AsPlanned"),
    ]
    rej = chk.validate("ProbeTrace", "ProbeTrace.cfg", [c[0] for c in cases])
    got = {id(t): cl for t, _, cl in rej}
    msgs = []
    for tr, want in cases:
        cl = got.get(id(tr))
        if (want is None) != (cl is None) or (want and want not in cl):
            msgs.append("expected %s, got %s" % (want, cl))
    return not msgs, "; ".join(msgs) or "%d corrupted traces rejected with the expected clauses" % (len(cases) - 1)
