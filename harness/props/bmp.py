"""Sessions of rig's BMPController against simulated board management processors (beyond the listed properties):
Bmp.tla / BmpDesign.tla / BmpTrace.tla.  Hosted by the C20 check (booting and powering boards belong together).

No oracle here: the driver makes the calls, copies what the simulated BMPs logged and scales the floating-point
ADC figures by 2^14 (exact: every scale factor is a multiple of 2^-14); BmpTrace.tla judges.
"""
import random

from rig.machine_control import scp_connection, bmp_controller
from rig.machine_control.bmp_controller import BMPController

from ..env.bmpsim import BmpSim
from ..env.simnet import SimNet


def halves(a):
    a &= 0xffffffff
    return [(a >> 16) & 0xffff, a & 0xffff]


def project(sims):
    power, led, reg = [], [], []
    for s in sims:
        power += sorted(s.power)
        led += [list(bl) for bl in sorted(s.leds)]
        reg += [[b, f] + halves(a) + halves(v) for (b, f, a), v in sorted(s.regs.items())]
    return dict(power=sorted(set(power)), led=led, reg=reg)


def cmd_records(recs):
    return [[r["cmd"], r["host"], r["board"], halves(r["arg1"]), halves(r["arg2"]), halves(r["arg3"]),
             list(bytearray(r["data"])), r.get("rc") or 0, list(bytearray(r.get("reply_data", b""))),
             [halves(v) for v in r.get("reply_args", [])]] for r in recs]


def perform(bc, name, a):
    kw = dict(cabinet=0, frame=0)
    if name == "set_power":
        boards = a["boards"][0] if a["single"] else list(a["boards"])
        bc.set_power(bool(a["state"]), board=boards, delay=a["delay"] / 1000.0,
                     post_power_on_delay=a["post"] / 1000.0, **kw)
        return ["ok"]
    if name == "set_led":
        boards = a["boards"][0] if a["single"] else list(a["boards"])
        leds = a["leds"][0] if a["single_led"] else list(a["leds"])
        bc.set_led(leds, {0: False, 1: True, 2: None}[a["action"]], board=boards, **kw)
        return ["ok"]
    if name == "read_fpga_reg":
        return ["ok"] + halves(bc.read_fpga_reg(a["fpga"], (a["addr"][0] << 16) | a["addr"][1], board=a["board"], **kw))
    if name == "write_fpga_reg":
        bc.write_fpga_reg(a["fpga"], (a["addr"][0] << 16) | a["addr"][1], (a["value"][0] << 16) | a["value"][1],
                          board=a["board"], **kw)
        return ["ok"]
    if name == "version":
        v = bc.get_software_version(board=a["board"], **kw)
        return ["ok", int(v.code_block), int(v.frame_id), int(v.can_id), int(v.board_id), int(v.buffer_size),
                halves(v.build_date)]
    if name == "read_adc":
        r = bc.read_adc(board=a["board"], **kw)
        return ["ok", [[] if x is None else [int(x * 16384)] for x in r]]
    raise AssertionError(name)


def one_session(rng, nsteps):
    frame = BmpSim("bmp-frame", frame_id=rng.randrange(4))
    hosts = {(0, 0): "bmp-frame"}
    direct = {}
    for b in rng.sample(range(24), rng.choice((0, 0, 1, 2))):
        direct[b] = BmpSim("bmp-board-%d" % b, frame_id=frame.frame_id)
        hosts[(0, 0, b)] = "bmp-board-%d" % b
    sims = [frame] + list(direct.values())
    # (boards with a connection of their own keep their state in their own BMP; registers and LEDs are per board,
    # so the union of the simulated BMPs' states is the frame's state)
    for s in sims:
        for b in range(24):
            if rng.random() < 0.3:
                s.adc[b] = ([rng.randrange(4096) for _ in range(8)] +
                            [rng.choice((-32768, rng.randrange(-5000, 20000))) for _ in range(8)] +
                            [rng.choice((-1, rng.randrange(0, 9000))) for _ in range(4)] + [0, 0])
    net = SimNet(frame)
    for s in sims:
        net.machines[s.name] = s
    net.install(scp_connection, bmp_controller)
    evs = []
    try:
        bc = BMPController(hosts)
        for _ in range(nsteps):
            name = rng.choice(("set_power", "set_power", "set_led", "set_led", "read_fpga_reg", "write_fpga_reg",
                               "write_fpga_reg", "version", "read_adc"))
            boards = rng.sample(range(24), rng.choice((1, 1, 2, 5)))
            if name == "set_power":
                # (a power command is executed by the BMP that receives it, for the boards of its mask: with several
                # connections only the boards behind board 0's connection are named)
                zero = hosts.get((0, 0, 0), "bmp-frame")
                boards = [b for b in boards if hosts.get((0, 0, b), "bmp-frame") == zero] or [0]
                a = dict(state=rng.randint(0, 1), boards=boards, delay=rng.choice((0, 250, 1000)),
                         post=rng.choice((0, 500, 5000)), single=int(len(boards) == 1 and rng.random() < 0.5))
            elif name == "set_led":
                first = hosts.get((0, 0, boards[0]), "bmp-frame")
                boards = [b for b in boards if hosts.get((0, 0, b), "bmp-frame") == first]
                leds = rng.sample(range(8), rng.choice((1, 1, 2, 3)))
                a = dict(leds=leds, action=rng.randint(0, 2), boards=boards,
                         single=int(len(boards) == 1 and rng.random() < 0.5),
                         single_led=int(len(leds) == 1 and rng.random() < 0.5))
            elif name in ("read_fpga_reg", "write_fpga_reg"):
                a = dict(fpga=rng.randrange(3), addr=halves(rng.choice((0, 4, 0x40010, 0x40013, 0xfffffffe, 0x7fff0002))),
                         board=boards[0])
                if name == "write_fpga_reg":
                    a["value"] = halves(rng.choice((0, 1, 0xdeadbeef, 0x80000000, rng.getrandbits(32))))
            else:
                a = dict(board=boards[0])
            logpos = {s.name: len(s.log) for s in sims}
            t0 = net.clock.now
            try:
                outcome = perform(bc, name, a)
            except Exception as ex:          # judged by the specification
                outcome = ["raise", type(ex).__name__]
            recs = [r for s in sims for r in s.log[logpos[s.name]:]]
            evs.append(["api", name, a, outcome, cmd_records(recs), project(sims),
                        int(round((net.clock.now - t0) * 1000))])
    finally:
        net.uninstall()
    return dict(hosts=[[-1, "bmp-frame"]] + [[b, "bmp-board-%d" % b] for b in sorted(direct)], ev=evs)


def run_beyond(chk):
    rng = random.Random(chk.seed + 777)
    chk.design("BmpDesign", "BmpDesign.cfg", label="beyond the property: BMP model")
    traces = [one_session(rng, rng.randint(8, 25)) for _ in range(chk.pick(80, 800))]
    return chk.validate_beyond("BmpTrace", "BmpTrace.cfg", traces,
                               "BMPController sessions against the BMP model (Bmp.tla)", batch=400)


def selftest(chk):
    """Binding demonstration: corrupted outcomes, commands and states must be rejected."""
    import copy
    rng = random.Random(3)
    good = one_session(rng, 120)

    def first(evs, name, pred=lambda e: True):
        return next(i for i, e in enumerate(evs) if e[1] == name and pred(e))

    def mut(f):
        t = copy.deepcopy(good)
        f(t["ev"])
        return t
    try:
        cases = [
            (good, None),
            (mut(lambda ev: ev[first(ev, "set_power")][4][0].__setitem__(2, 5)), "PowerCommand"),
            (mut(lambda ev: ev[first(ev, "set_power", lambda e: e[2]["state"] == 1 and e[2]["post"] > 0)].__setitem__(6, 0)), "PowerOnWaits"),
            (mut(lambda ev: ev[first(ev, "read_fpga_reg")][3].__setitem__(2, 77)), "RegReadIsMachines"),
            (mut(lambda ev: ev[first(ev, "set_led")][5]["led"].append([23, 7])), "SimulatorFollowsBmpModel"),
            (mut(lambda ev: ev[first(ev, "read_adc")][3][1].__setitem__(0, [1])), "AdcDecoded"),
        ]
    except StopIteration:
        return False, "the self-test session lacks one of the calls it corrupts"
    rej = chk.validate("BmpTrace", "BmpTrace.cfg", [c[0] for c in cases])
    got = {id(t): cl for t, _, cl in rej}
    msgs = []
    for t, want in cases:
        cl = got.get(id(t))
        if (want is None) != (cl is None) or (want and want not in cl):
            msgs.append("expected %s, got %s" % (want, cl))
    return not msgs, "; ".join(msgs) or "%d corrupted BMP sessions rejected with the expected clauses" % (len(cases) - 1)
