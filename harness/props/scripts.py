"""rig's command-line tools (rig/scripts: rig-ps, rig-iobuf, rig-counters, rig-info, rig-power, rig-discover,
rig-boot) run in-process against simulated hosts - beyond the listed properties: Scripts.tla / ScriptsDesign.tla /
ScriptsTrace.tla.  Hosted by the C14 check (probing a machine).

One trace = one abstract machine state (planted into env/probesim.py behind the host name "spinn"), a board
management processor ("bmp"), an address where nothing answers ("nobody"), and a sequence of tool runs.  Every tool
is its module's `main(argv)`; sockets, select, time, the keyboard (input) and subprocess are substituted from
outside (env/scriptssim.py), standard output / error and the exit status are captured.

No oracle here: the driver draws machine states and arguments, renders the arguments to a command line, parses
what was printed into records (numbers, names) and copies what the environment observed.  Whether a report is
right is decided by ScriptsTrace.tla from the machine state carried in the same trace.
"""
import builtins
import contextlib
import copy
import io
import os
import random
import re
import struct
import tempfile
import threading

from rig.machine_control import bmp_controller, machine_controller, scp_connection, unbooted_ping
from rig.machine_control import boot as boot_module
from rig.scripts import rig_boot, rig_counters, rig_discover, rig_info, rig_iobuf, rig_power, rig_ps

from . import c14
from .bmp import cmd_records, project
from ..core import RIG_ROOT
from ..env.scriptssim import BOOT_PORT, BootableHost, PingEnv, ScriptsBmp, ScriptsNet, SilentHost
from ..env.spinnaker_sim import LINK_VEC, RTR_DIAG, SDRAM_BASE, SYSRAM_BASE

STATES = [0, 1, 2, 3, 4, 5, 6, 7, 8, 9, 10, 11, 15]
STATE_NAMES = {0: "dead", 1: "power_down", 2: "runtime_exception", 3: "watchdog", 4: "init", 5: "wait", 6: "c_main",
               7: "run", 8: "sync0", 9: "sync1", 10: "pause", 11: "exit", 15: "idle"}      # only to draw patterns from
APP_NAMES = ["scamp-3", "sark", "network_tester", "net", "netw", "my_app.aplx", "a", "sixteen_chars_xxx"[:16], "run",
             "app-1", "app_2", "x.y"]
APP_IDS = [0, 1, 6, 16, 61, 66, 166, 255]
COUNTERS = ["local_multicast", "external_multicast", "local_p2p", "external_p2p", "local_nearest_neighbour",
            "external_nearest_neighbour", "local_fixed_route", "external_fixed_route", "dropped_multicast",
            "dropped_p2p", "dropped_nearest_neighbour", "dropped_fixed_route", "counter12", "counter13", "counter14",
            "counter15"]
# the short spellings as `rig-counters --help` lists them
SHORT = {"local_multicast": "--loc-mc", "external_multicast": "--ext-mc", "local_p2p": "--loc-p2p",
         "external_p2p": "--ext-p2p", "local_nearest_neighbour": "--loc-nn", "external_nearest_neighbour": "--ext-nn",
         "local_fixed_route": "--loc-fr", "external_fixed_route": "--ext-fr", "dropped_multicast": "--drop-mc",
         "dropped_p2p": "--drop-p2p", "dropped_nearest_neighbour": "--drop-nn", "dropped_fixed_route": "--drop-fr",
         "counter12": "--c12", "counter13": "--c13", "counter14": "--c14", "counter15": "--c15"}
h32 = c14.h32


# ------------------------------------------------------------------------------------------ abstract machine states
def gen_text(rng, n):
    return [rng.choice(b"abcdefghij XYZ\n\t0123456789%[]:,") for _ in range(n)]


def gen_machine(rng, w=None, h=None, max_cores=18, torus=None):
    w = w or rng.choice([1, 1, 2, 2, 3, 4])
    h = h or rng.choice([1, 1, 2, 2, 3, 4])
    cells = [(x, y) for x in range(w) for y in range(h)]
    torus = rng.random() < 0.4 if torus is None else torus
    live = set(cells)
    if not torus or rng.random() < 0.3:
        live = set(c for c in cells if rng.random() < rng.choice([1.0, 0.9, 0.7])) | {(0, 0)}
    napps = rng.randint(1, 4)
    apps = [(rng.choice(APP_NAMES), rng.choice(APP_IDS)) for _ in range(napps)]
    link_mode = "all" if torus else rng.choice(["mesh", "mesh", "mesh_torn", "random", "none"])
    nc_default = rng.choice([18, 18, 17, rng.randint(1, max_cores)])
    iobuf_size = rng.choice([16, 24, 40, 64])
    chips = []
    for (x, y) in sorted(live):
        nc = min(max_cores, nc_default if rng.random() < 0.7 else rng.randint(1, max_cores))
        links = []
        for l, (dx, dy) in enumerate(LINK_VEC):
            inside = 0 <= x + dx < w and 0 <= y + dy < h
            far = ((x + dx) % w, (y + dy) % h)
            if link_mode == "all":
                ok = far in live
            elif link_mode == "none":
                ok = False
            elif link_mode == "random":
                ok = rng.random() < 0.5
            else:
                ok = inside and far in live and (link_mode == "mesh" or rng.random() < 0.8)
            if ok:
                links.append(l)
        if torus and rng.random() < 0.1 and links:
            links.remove(rng.choice(links))
        cores = []
        for p in range(nc):
            if p == 0:
                s, app, aid = 7, "scamp-3", 0
            elif rng.random() < 0.45:
                s, app, aid = 15, "sark", 0
            else:
                app, aid = rng.choice(apps)
                s = rng.choice([7, 7, 7, 8, 8, 5, rng.choice(STATES)])
            io = []
            if rng.random() < 0.12:
                for _ in range(rng.choice([1, 1, 2, 3, 4])):
                    io.append([rng.choice([0, 1, iobuf_size, iobuf_size, rng.randint(0, iobuf_size)]),
                               gen_text(rng, iobuf_size)])
            cores.append(dict(s=s, rt=rng.choice([0, 0, 0, rng.randint(0, 20)]) if s != 2 else rng.randint(1, 20),
                              app=app, id=aid, io=io))
        chips.append(dict(x=x, y=y, nc=nc, links=links, cores=cores))
    return dict(w=w, h=h, chips=chips, sw=rng.choice(["SC&MP", "SC&MP", "SARK"]), arch="SpiNNaker",
                ver=[rng.choice([0, 1, 2, 3, 133]), rng.choice([0, 1, 9, 10, 255]), rng.choice([0, 1, 7, 42])],
                labels=rng.choice(["", "", "-dev", "-rc.1", "+build.5"]),
                date=rng.choice([0, 1400000000, 1458202398, 951782400, 2147483647, rng.randrange(1 << 31)]),
                iobuf_size=iobuf_size)


def gen_bmp(rng):
    return dict(version=[rng.choice([1, 2]), rng.choice([0, 1, 36]), rng.choice([0, 3])],
                code_block=rng.choice([0, 1, 2]), date=rng.choice([1400000000, 1458139358, rng.randrange(1 << 31)]),
                adc=([rng.randrange(4096) for _ in range(8)] +
                     [rng.randrange(-5000, 20000) for _ in range(4)] +
                     [rng.choice((-32768, rng.randrange(-5000, 20000))) for _ in range(4)] +
                     [rng.choice((-1, rng.randrange(0, 9000))) for _ in range(4)] + [0, 0]))


def plant(M, rng):
    """The simulated machine that is in state M (mechanical translation into the layout env/probesim.py serves:
    per-core status blocks, IOBUF chains, router registers)."""
    isz = M["iobuf_size"]
    slot = (isz + 16 + 3) & ~3
    S = dict(w=M["w"], h=M["h"], root=[0, 0], chips=[], vcpus=[], blocks=[], diags=[], iobuf_size=isz, label="scripts",
             ver=dict(legacy=False, major=M["ver"][0], minor=M["ver"][1], patch=M["ver"][2],
                      labels=list(M["labels"].encode()), name=list((M["sw"] + "/" + M["arch"]).encode()), bufsize=256,
                      date=h32(M["date"]), pcpu=list(range(18)), nul=True))
    index = {}
    for i, c in enumerate(M["chips"]):
        index[(c["x"], c["y"])] = i + 1
        S["chips"].append(dict(x=c["x"], y=c["y"], nc=c["nc"], states=[k["s"] for k in c["cores"]], links=list(c["links"]),
                               sdram=h32(rng.randrange(1 << 27)), sram=h32(rng.randrange(1 << 15)), rtr=1023, eth=False,
                               ip=[0, 0, 0, 0], leth=[0, 0], vbase=h32(SYSRAM_BASE + 0x4000 + 0x80 * rng.randrange(0, 32))))
        slots = rng.sample(range(200), sum(len(k["io"]) for k in c["cores"]) + 2)
        for p, k in enumerate(c["cores"]):
            b = bytearray(rng.randrange(256) for _ in range(128))
            b[44], b[46], b[47] = k["rt"], k["s"], k["id"]
            name = k["app"].encode()[:16]
            b[72:88] = name + b"\0" * (16 - len(name))
            addrs = [SDRAM_BASE + 0x100000 + slots.pop() * slot for _ in k["io"]]
            b[88:92] = struct.pack("<I", addrs[0] if addrs else 0)
            for j, (ln, data) in enumerate(k["io"]):
                S["blocks"].append(dict(x=c["x"], y=c["y"], addr=h32(addrs[j]), next=h32(addrs[j + 1] if j + 1 < len(addrs) else 0),
                                        time=h32(rng.randrange(1 << 32)), ms=h32(rng.randrange(1000)), len=ln, data=list(data)))
            S["vcpus"].append(dict(x=c["x"], y=c["y"], p=p, bytes=list(b)))
    S["grid"] = [[index.get((x, y), 0) for y in range(M["h"])] for x in range(M["w"])]
    return c14.configure_sim(S, rng)


class Env(object):
    """the hosts of one trace and the substituted modules"""

    def __init__(self, M, bmp, phase0, rng):
        self.M, self.rng = M, rng
        self.sim = plant(M, rng)
        self.spinn = BootableHost("spinn", self.sim, phase=phase0, lag=rng.choice([0, 0, 1, 3]))
        self.bmp = ScriptsBmp("bmp", code_block=bmp["code_block"], build_date=bmp["date"], version=tuple(bmp["version"]))
        self.bmp.adc[0] = list(bmp["adc"])
        self.nobody = SilentHost("nobody")
        self.net = ScriptsNet(dict(spinn=self.spinn, bmp=self.bmp, nobody=self.nobody))
        self.counters = {(c["x"], c["y"]): [gen_count(rng) for _ in range(16)] for c in M["chips"]}
        self.write_counters()
        self._saved = []

    def write_counters(self):
        for xy, vals in self.counters.items():
            self.sim.chips[xy].write(RTR_DIAG, struct.pack("<16I", *vals))

    def reading(self):
        return [[x, y, [h32(v) for v in self.counters[(x, y)]]] for (x, y) in sorted(self.counters)]

    def __enter__(self):
        self.net.install(scp_connection, machine_controller, bmp_controller, boot_module, rig_counters)
        return self

    def __exit__(self, *a):
        self.net.uninstall()

    def substitute(self, obj, attr, val):
        if hasattr(obj, attr):
            self._saved.append((obj, attr, getattr(obj, attr)))
            setattr(obj, attr, val)

    def restore(self):
        for obj, attr, val in reversed(self._saved):
            setattr(obj, attr, val)
        self._saved = []


def gen_count(rng):
    r = rng.random()
    if r < 0.35:
        return (1 << 32) - rng.randint(1, 2000)          # about to wrap
    if r < 0.5:
        return rng.choice([0, 1, 0x7fffffff, 0x80000000, 0xffffffff])
    return rng.randrange(1 << 32)


def gen_step(rng):
    r = rng.random()
    if r < 0.25:
        return 0
    if r < 0.8:
        return rng.randint(1, 5000)
    if r < 0.9:
        return rng.choice([0xffffffff, 0x80000000, 0x7fffffff, 65536, 65535])
    return rng.randrange(1 << 32)


# ------------------------------------------------------------------------------------------ running a tool
def run_main(mod, argv):
    """main(argv) with the standard streams captured -> (exit status, stdout, stderr, exception class or "")"""
    out, err = io.StringIO(), io.StringIO()
    status, raised = -1, ""
    with contextlib.redirect_stdout(out), contextlib.redirect_stderr(err):
        try:
            rv = mod.main(list(argv))
            status = 0 if rv is None else int(rv)
        except SystemExit as ex:                      # the exit status of a process that calls sys.exit
            status = 0 if ex.code is None else (ex.code if isinstance(ex.code, int) else 1)
            if ex.code is not None and not isinstance(ex.code, int):
                err.write(str(ex.code))
        except BaseException as ex:                   # judged by the specification, never a crash of the driver
            raised = type(ex).__name__
    return status, out.getvalue(), err.getvalue(), raised


def result(status, out, err, raised, parsed):
    return dict(status=status, raised=raised, outlen=len(out), errlen=len(err), out=parsed)


def to_int(s):
    return int(s) if re.match(r"^-?\d+$", s) and len(s) < 10 else None


# ---- rig-ps
def render(pat):
    form, lits = pat
    esc = [re.escape(l) for l in lits]
    return {"any": lambda: "", "prefix": lambda: esc[0], "full": lambda: esc[0] + "$",
            "notprefix": lambda: "(?!%s)" % esc[0], "oneof": lambda: "(%s)$" % "|".join(esc),
            "contains": lambda: ".*" + esc[0]}[form]()


def parse_ps(out):
    lines = out.split("\n")
    if lines and lines[-1] == "":
        lines.pop()
    rows, junk = [], []
    for ln in lines[2:]:
        t = ln.split()
        nums = [to_int(v) for v in t[:3] + t[5:6]]
        if len(t) >= 6 and None not in nums:
            rows.append([nums[0], nums[1], nums[2], t[3], t[4], nums[3], " ".join(t[6:])])
        else:
            junk.append(ln[:80])
    return dict(header=lines[:2], rows=rows, junk=junk)


def gen_pattern(rng, values):
    v = rng.choice(values)
    form = rng.choice(["prefix", "prefix", "full", "full", "notprefix", "oneof", "contains", "any"])
    if form == "any":
        return ["any", []]
    if form == "oneof":
        return ["oneof", rng.sample(values, min(len(values), rng.randint(1, 3)))]
    if form in ("prefix", "notprefix"):
        return [form, [v[:rng.randint(1, len(v))]]]
    if form == "contains":
        i = rng.randrange(len(v))
        return [form, [v[i:rng.randint(i + 1, len(v))]]]
    return [form, [v]]


def gen_ps(rng, M, host):
    sel = dict(x=-1, y=-1, p=-1, state=[], name=[], appid=[])
    usage = False
    r = rng.random()
    if r < 0.35:
        c = rng.choice(M["chips"])
        sel["x"], sel["y"] = c["x"], c["y"]
        if rng.random() < 0.5:
            sel["p"] = rng.randrange(c["nc"])
    elif r < 0.40:
        usage = True                                    # x without y
        sel["x"] = rng.choice(M["chips"])["x"]
    names = sorted({k["app"] for c in M["chips"] for k in c["cores"]}) + ["nosuch"]
    ids = sorted({str(k["id"]) for c in M["chips"] for k in c["cores"]}) + ["7"]
    if rng.random() < 0.5:
        sel["state"] = [gen_pattern(rng, list(STATE_NAMES.values()))]
    if rng.random() < 0.35:
        sel["name"] = [gen_pattern(rng, names)]
    if rng.random() < 0.3:
        sel["appid"] = [gen_pattern(rng, ids)]
    return dict(host=host, sel=sel, usage=usage)


def argv_ps(a, rng):
    sel = a["sel"]
    argv = [a["host"]]
    if sel["x"] != -1:
        argv += [str(sel["x"])] + ([] if a["usage"] else [str(sel["y"])])
        if sel["p"] != -1:
            argv.append(str(sel["p"]))
    opts = []
    for key, long_, short in (("state", "--state", "-s"), ("name", "--name", "-n"), ("appid", "--app-id", "-a")):
        for pat in sel[key]:
            opts.append([rng.choice([long_, short]), render(pat)])
    rng.shuffle(opts)
    tail = [w for o in opts for w in o]
    return tail + argv if rng.random() < 0.3 else argv + tail


def run_ps(env, a, rng):
    argv = argv_ps(a, rng)
    sent = len(env.net.datagrams)
    status, out, err, raised = run_main(rig_ps, argv)
    return ["run", "ps", dict(a, argv=argv), result(status, out, err, raised, parse_ps(out)),
            dict(sent=len(env.net.datagrams) - sent)]


# ---- rig-iobuf
def run_iobuf(env, a, rng):
    argv = [a["host"], str(a["x"]), str(a["y"]), str(a["p"])]
    sent = len(env.net.datagrams)
    status, out, err, raised = run_main(rig_iobuf, argv)
    return ["run", "iobuf", dict(a, argv=argv), result(status, out, err, raised, list(out.encode("utf-8"))),
            dict(sent=len(env.net.datagrams) - sent)]


def gen_iobuf(rng, M, host):
    with_text = [(c, p) for c in M["chips"] for p, k in enumerate(c["cores"]) if k["io"]]
    if with_text and rng.random() < 0.75:
        c, p = rng.choice(with_text)
    else:
        c = rng.choice(M["chips"])
        p = rng.randrange(c["nc"])
    return dict(host=host, x=c["x"], y=c["y"], p=p)


# ---- rig-counters
def limbs(n):
    return [n >> 32, (n >> 16) & 0xffff, n & 0xffff]


def parse_csv(text, detailed):
    lines = text.split("\n")
    if lines and lines[-1] == "":
        lines.pop()
    header = lines[0].split(",") if lines else []
    rows, junk = [], []
    for ln in lines[1:]:
        f = ln.split(",")
        m = re.match(r"^(\d{1,7})\.(\d)$", f[0])
        lead = 3 if detailed else 1
        nums = [int(v) if re.match(r"^\d{1,14}$", v) else None for v in f[1:]]
        if m and len(f) >= lead and None not in nums:
            rows.append([int(m.group(1)) * 10 + int(m.group(2))] + (nums[:2] if detailed else [-1, -1]) +
                        [[limbs(v) for v in nums[lead - 1:]]])
        else:
            junk.append(ln[:80])
    return dict(header=header, rows=rows, junk=junk)


def gen_counters(rng, M, host):
    mode = rng.choice(["once", "once", "multiple", "multiple", "command"])
    chosen = rng.sample(COUNTERS, rng.choice([0, 0, 1, 2, 3, 16]))
    return dict(host=host, detailed=rng.random() < 0.5, silent=rng.random() < 0.4, multiple=mode == "multiple",
                tofile=rng.random() < 0.3, command=rng.choice([["true"], ["true", "--detailed", "-m"], ["run", "my app"]])
                if mode == "command" else [], counters=chosen,
                enters=(rng.choice([0, 1, 2, 3, 5]) if mode == "multiple" else rng.choice([1, 1, 1, 3, 0])) if mode != "command" else 0,
                stop=rng.choice(["eof", "int"]))


def run_counters(env, a, rng):
    argv = [a["host"]]
    flags = []
    if a["detailed"]:
        flags.append(rng.choice(["--detailed", "-d"]))
    if a["silent"]:
        flags.append(rng.choice(["--silent", "-s"]))
    if a["multiple"]:
        flags.append(rng.choice(["--multiple", "-m"]))
    for name in a["counters"]:
        flags.append(rng.choice(["--" + name.replace("_", "-"), SHORT[name]]))
    path = None
    if a["tofile"]:
        fd, path = tempfile.mkstemp(prefix="rigverif-scripts-", suffix=".csv")
        os.close(fd)
        os.remove(path)
        flags += [rng.choice(["--output", "-o"]), path]
    if rng.random() < 0.5:
        argv = flags + argv
    else:
        argv = argv + flags
    if a["command"]:
        argv += [rng.choice(["--command", "-c"])] + list(a["command"])
    sim = env.sim
    obs = dict(readings=[env.reading()], polled=[], waits_ms=[], calls=[], triggers=0)
    mark = [len(sim.log)]

    def close_segment():
        seg = [[r["x"], r["y"]] for r in sim.log[mark[0]:]
               if r["cmd"] == 2 and RTR_DIAG <= r["arg1"] < RTR_DIAG + 64 and r.get("rc") == 0x80]
        mark[0] = len(sim.log)
        obs["polled"].append(seg)

    def trigger():
        close_segment()
        wait = rng.choice([100, 300, 1000, 2500, 8700])
        env.net.clock.now += wait / 1000.0
        obs["waits_ms"].append(wait)
        for xy in env.counters:
            env.counters[xy] = [(v + gen_step(rng)) & 0xffffffff for v in env.counters[xy]]
        env.write_counters()
        obs["readings"].append(env.reading())
        obs["triggers"] += 1

    def fake_input(*args):
        if obs["triggers"] >= a["enters"]:
            raise (EOFError if a["stop"] == "eof" else KeyboardInterrupt)()
        trigger()
        return ""

    class FakeSubprocess(object):
        PIPE, STDOUT, DEVNULL = -1, -2, -3

        class CompletedProcess(object):
            returncode, stdout, stderr = 0, b"", b""

            def wait(self, *a, **k):
                return 0

            def communicate(self, *a, **k):
                return b"", b""

        def _ran(self, cmd, *args, **kw):
            obs["calls"].append([str(w) for w in cmd] if isinstance(cmd, (list, tuple)) else [str(cmd)])
            trigger()

        def call(self, cmd, *args, **kw):
            self._ran(cmd)
            return 0
        check_call = call

        def check_output(self, cmd, *args, **kw):
            self._ran(cmd)
            return b""

        def run(self, cmd, *args, **kw):
            self._ran(cmd)
            return self.CompletedProcess()
        Popen = run
    env.substitute(rig_counters, "input", fake_input)
    env.substitute(builtins, "input", fake_input)
    env.substitute(rig_counters, "subprocess", FakeSubprocess())
    sent = len(env.net.datagrams)
    try:
        status, out, err, raised = run_main(rig_counters, argv)
    finally:
        env.restore()
    close_segment()
    text = out
    if path is not None:
        text = ""
        if os.path.exists(path):
            with open(path) as f:
                text = f.read()
            os.remove(path)
    obs["sent"] = len(env.net.datagrams) - sent
    return ["run", "counters", dict(a, argv=[w if w != path else "FILE" for w in argv]),
            result(status, out, err, raised, parse_csv(text, a["detailed"])), obs]


# ---- rig-info
def fixed(sign, whole, frac):
    """a printed decimal figure as an integer number of its last place"""
    v = int(whole) * 10 ** len(frac) + int(frac)
    return -v if sign == "-" else v


NUM2 = r"(-?)(\d{1,5})\.(\d\d)"
NUM1 = r"(-?)(\d{1,5})\.(\d)"
SOFTWARE = re.compile(r"^Software: (\S+) v(\d{1,5})\.(\d{1,5})\.(\d{1,5})(\S*) \(Built (\d{4})-(\d\d)-(\d\d) (\d\d):(\d\d):(\d\d)\)$")


def parse_info(out):
    rep = dict(device=[], software=[], dims=[], chips=[], topology=[], dead=[], apps=[], code_block=[], board=[],
               v12=[], v18=[], v33=[], vin=[], ttop=[], tbtm=[], text0=[], text1=[], fan0=[], fan1=[], junk=[])
    in_apps = False
    for ln in out.split("\n"):
        if ln == "":
            continue
        m = re.match(r"^Device Type: (\S+)$", ln)
        if m:
            rep["device"].append(m.group(1))
            continue
        m = SOFTWARE.match(ln)
        if m:
            g = m.groups()
            rep["software"].append([g[0], [int(g[1]), int(g[2]), int(g[3])], g[4], [int(v) for v in g[5:11]]])
            continue
        m = re.match(r"^Machine dimensions: (\d{1,4})x(\d{1,4})$", ln)
        if m:
            rep["dims"].append([int(m.group(1)), int(m.group(2))])
            continue
        m = re.match(r"^Working chips: (\d{1,6}) \(((?:\d{1,3} cores: \d{1,6})(?:, \d{1,3} cores: \d{1,6})*)?\)$", ln)
        if m:
            hist = [[int(v) for v in re.match(r"^(\d+) cores: (\d+)$", part).groups()]
                    for part in (m.group(2).split(", ") if m.group(2) else [])]
            rep["chips"].append([int(m.group(1)), hist])
            continue
        m = re.match(r"^Network topology: (\S+)$", ln)
        if m:
            rep["topology"].append(m.group(1))
            continue
        m = re.match(r"^Dead links: (\d{1,6}) \(\+ (\d{1,6}) to dead/missing cores\)$", ln)
        if m:
            rep["dead"].append([int(m.group(1)), int(m.group(2))])
            continue
        if ln == "Application states:":
            in_apps = True
            continue
        m = re.match(r"^    (\S+): ((?:\d{1,6} \S+)(?:, \d{1,6} \S+)*)$", ln)
        if m and in_apps:
            for part in m.group(2).split(", "):
                n, state = part.split(" ")
                rep["apps"].append([m.group(1), state, int(n)])
            continue
        m = re.match(r"^Code block in use: (\d{1,3})$", ln)
        if m:
            rep["code_block"].append(int(m.group(1)))
            continue
        m = re.match(r"^Board ID \(slot number\): (\d{1,3})$", ln)
        if m:
            rep["board"].append(int(m.group(1)))
            continue
        m = re.match(r"^1\.2 V supply: %s V, %s V, %s V$" % (NUM2, NUM2, NUM2), ln)
        if m:
            g = m.groups()
            rep["v12"].append([fixed(*g[0:3]), fixed(*g[3:6]), fixed(*g[6:9])])
            continue
        done = False
        for key, label, num, unit in (("v18", r"1\.8 V supply", NUM2, " V"), ("v33", r"3\.3 V supply", NUM2, " V"),
                                      ("vin", "Input supply", NUM2, " V"), ("ttop", "Temperature top", NUM1, r" \*C"),
                                      ("tbtm", "Temperature bottom", NUM1, r" \*C"),
                                      ("text0", "Temperature external 0", NUM1, r" \*C"),
                                      ("text1", "Temperature external 1", NUM1, r" \*C")):
            m = re.match(r"^%s: %s%s$" % (label, num, unit), ln)
            if m:
                rep[key].append(fixed(*m.groups()))
                done = True
                break
        if done:
            continue
        m = re.match(r"^Fan ([01]) speed: (\d{1,6})(?:\.0)? RPM$", ln)
        if m:
            rep["fan" + m.group(1)].append(int(m.group(2)))
            continue
        rep["junk"].append(ln[:80])
    return rep


def run_info(env, a, rng):
    argv = [a["host"]]
    sent = len(env.net.datagrams)
    status, out, err, raised = run_main(rig_info, argv)
    return ["run", "info", dict(a, argv=argv), result(status, out, err, raised, parse_info(out)),
            dict(sent=len(env.net.datagrams) - sent)]


# ---- rig-power
BAD_BOARDS = ["5-3", "a", "1-", "-2", "", "3,,4", "1-2-3", "0x3", "2--4", "1.5"]


def gen_power(rng, host):
    a = dict(host=host, word=rng.choice(["", "", "on", "off", "off", "1", "0"]), ranges=[], delay_ms=-1, usage=False, bad="")
    if rng.random() < 0.75:
        for _ in range(rng.choice([1, 1, 2, 3])):
            lo = rng.randrange(24)
            a["ranges"].append([lo, rng.choice([-1, -1, rng.randint(lo, 23)])])
    if rng.random() < 0.5:
        a["delay_ms"] = rng.choice([0, 100, 1500, 7000])
    r = rng.random()
    if r < 0.12:
        a["usage"], a["bad"] = True, rng.choice(BAD_BOARDS)
    elif r < 0.17:
        a["usage"], a["delay_ms"] = True, -500
    return a


def run_power(env, a, rng):
    argv = [a["host"]] + ([a["word"]] if a["word"] else [])
    spec = ",".join(("%d" % lo) if hi == -1 else ("%d-%d" % (lo, hi)) for lo, hi in a["ranges"])
    if a["bad"] or a["usage"] and a["delay_ms"] != -500:
        argv += ["-b", a["bad"]] if rng.random() < 0.5 else ["--board=" + a["bad"]]
    elif a["ranges"]:
        argv += [rng.choice(["-b", "--board"]), spec]
    if a["delay_ms"] != -1:
        argv += [rng.choice(["-d", "--power-on-delay"]) + ("=" if a["delay_ms"] < 0 else ""), "%g" % (a["delay_ms"] / 1000.0)]
        if a["delay_ms"] < 0:
            argv[-2:] = [argv[-2] + argv[-1]]
    sent, mark, smark, t0 = len(env.net.datagrams), len(env.bmp.log), len(env.sim.log), env.net.clock.now
    status, out, err, raised = run_main(rig_power, argv)
    return ["run", "power", dict(a, argv=argv), result(status, out, err, raised, []),
            dict(sent=len(env.net.datagrams) - sent, cmds=cmd_records(env.bmp.log[mark:]), post=project([env.bmp]),
                 elapsed_ms=int(round((env.net.clock.now - t0) * 1000)),
                 sim_power_cmds=sum(1 for r in env.sim.log[smark:] if r["cmd"] == 57))]


# ---- rig-discover
def gen_discover(rng):
    a = dict(timeout_ms=rng.choice([-1, -1, 500, 2000, 6000, 10000]))
    if a["timeout_ms"] == -1:
        ping = rng.choice([-1, rng.randrange(0, 4500)])
    else:
        t = a["timeout_ms"]
        ping = rng.choice([-1, rng.randrange(0, max(1, t - 50)), rng.randrange(t + 50, 2 * t + 100)])
    return a, ping, "%d.%d.%d.%d" % (rng.choice([10, 192]), rng.randrange(256), rng.randrange(256), rng.randrange(1, 255))


def run_discover(env, a, ping, ip, rng):
    argv = [] if a["timeout_ms"] == -1 else [rng.choice(["-t", "--timeout"]), "%g" % (a["timeout_ms"] / 1000.0)]
    penv = PingEnv(env.net.clock, None if ping < 0 else ping / 1000.0, (ip, BOOT_PORT))
    env.substitute(unbooted_ping, "socket", penv)
    t0 = env.net.clock.now
    try:
        status, out, err, raised = run_main(rig_discover, argv)
    finally:
        env.restore()
    lines = out.split("\n")
    if lines and lines[-1] == "":
        lines.pop()
    return ["run", "discover", dict(a, argv=argv), result(status, out, err, raised, lines),
            dict(sent=0, ping_ms=ping, ip=ip, bound=[int(b[1]) for b in penv.bound],
                 elapsed_ms=int(round((env.net.clock.now - t0) * 1000)))]


# ---- rig-boot
def sv_fields():
    """offset, size and default of the two system variables the presets set, read mechanically from the struct file
    the tool boots with"""
    out, inside = {}, False
    with open(os.path.join(RIG_ROOT, "rig", "boot", "sark.struct")) as f:
        for line in f:
            t = line.split("#")[0].split()
            if len(t) == 3 and t[0] == "name":
                inside = t[2] == "sv"
            elif inside and len(t) >= 5 and t[0] in ("hw_ver", "led0"):
                out[t[0]] = ([int(t[2], 0), {"C": 1, "v": 2, "V": 4}[t[1]]], h32(int(t[4], 0)))
    return out


SV = sv_fields()


def run_boot(env, a, rng):
    argv = [a["host"]] + ([] if a["preset"] == 0 else ["--spin%d" % a["preset"]])
    if rng.random() < 0.4:
        argv.reverse()
    target = {"spinn": env.spinn, "nobody": env.nobody}.get(a["host"], env.net.nowhere)
    mark, dmark = len(target.boot_log), len(env.net.datagrams)
    env.spinn.real_address_given = False
    status, out, err, raised = run_main(rig_boot, argv)
    clip = lambda v: v if v < (1 << 31) else -1
    dg = [[clip(cmd), clip(a1), clip(a3), len(data)] for cmd, a1, a2, a3, data in target.boot_log[mark:]]
    image = target.image() if dg else b""
    return ["run", "boot", dict(a, argv=argv), result(status, out, err, raised, []),
            dict(sent=len(env.net.datagrams) - dmark, dgrams=dg,
                 dst=[[peer[0], peer[1]] for peer, data, fate in env.net.datagrams[dmark:] if peer[1] != 17893],
                 cfg=list(image[384:512]) if len(image) >= 512 else [],
                 fields=dict(hw_ver=SV["hw_ver"][0], led0=SV["led0"][0]),
                 defaults=dict(hw_ver=SV["hw_ver"][1], led0=SV["led0"][1]),
                 phase_after=env.spinn.phase, address_given=bool(env.spinn.real_address_given))]


# ------------------------------------------------------------------------------------------ traces
def one_trace(rng, nruns, M=None, phase0=None, plan=None, label="random"):
    M = M or gen_machine(rng)
    bmp = gen_bmp(rng)
    phase0 = phase0 or rng.choice(["booted", "booted", "booted", "unbooted", "unbooted", "dud"])
    evs = []
    with Env(M, bmp, phase0, rng) as env:
        k = 0
        while k < nruns:
            if plan is not None:
                tool, a = plan[k]
            else:
                tool = rng.choice(["ps", "ps", "ps", "iobuf", "iobuf", "counters", "counters", "counters", "info", "info",
                                   "power", "power", "discover", "boot"])
                if env.spinn.phase == "unbooted" and rng.random() < 0.35:
                    tool = "boot"
                a = None
            k += 1
            host = rng.choice(["spinn"] * 8 + ["nobody", "bmp"])
            if tool == "ps":
                evs.append(run_ps(env, a or gen_ps(rng, M, host), rng))
            elif tool == "iobuf":
                evs.append(run_iobuf(env, a or gen_iobuf(rng, M, host), rng))
            elif tool == "counters":
                evs.append(run_counters(env, a or gen_counters(rng, M, host), rng))
            elif tool == "info":
                evs.append(run_info(env, a or dict(host=rng.choice(["spinn", "spinn", "bmp", "bmp", "nobody"])), rng))
            elif tool == "power":
                evs.append(run_power(env, a or gen_power(rng, rng.choice(["bmp"] * 8 + ["nobody", "spinn"])), rng))
            elif tool == "discover":
                da, ping, ip = a or gen_discover(rng)
                evs.append(run_discover(env, da, ping, ip, rng))
            elif tool == "boot":
                evs.append(run_boot(env, a or dict(host=rng.choice(["spinn"] * 6 + ["nobody", "bmp"]),
                                                   preset=rng.randint(0, 5)), rng))
    evs.append(["end"])
    return dict(machine={k: v for k, v in M.items() if k != "iobuf_size"}, bmp=bmp, phase0=phase0, label=label, ev=evs)


def small_scope(rng, quick):
    """Exhaustive small scope: on one two-chip machine, rig-ps with every combination of position arguments and one
    pattern of each kind; rig-counters with every combination of its switches; rig-power with every state word and a
    list of board specifications; rig-boot with every preset on an unbooted and on a booted board."""
    M = gen_machine(random.Random(12), w=2, h=1, max_cores=4, torus=False)
    positions = [(-1, -1, -1), (0, 0, -1), (1, 0, -1), (1, 0, 1)]
    states = [[], [["prefix", ["run"]]], [["notprefix", ["run"]]], [["full", ["idle"]]], [["oneof", ["sync0", "run", "wait"]]]]
    names = [[], [["prefix", ["s"]]], [["full", ["sark"]]], [["contains", ["a"]]]]
    ids = [[], [["full", ["0"]]], [["prefix", ["1"]]]] if not quick else [[], [["full", ["0"]]]]
    plan = [("ps", dict(host="spinn", usage=False, sel=dict(x=x, y=y, p=p, state=s, name=n, appid=i)))
            for (x, y, p) in positions for s in states for n in names for i in ids]
    for detailed in (False, True):
        for silent in (False, True):
            for tofile in (False, True):
                for mode in ("once", "multiple", "command"):
                    plan.append(("counters", dict(host="spinn", detailed=detailed, silent=silent, multiple=mode == "multiple",
                                                  tofile=tofile, command=["true"] if mode == "command" else [],
                                                  counters=["dropped_multicast", "local_p2p"] if detailed else [],
                                                  enters=0 if mode == "command" else 2, stop="eof")))
    for word in ("", "on", "off", "1", "0"):
        for ranges in ([], [[0, -1]], [[23, -1]], [[0, 3], [5, -1]], [[3, -1], [12, 23]], [[4, 4]]):
            plan.append(("power", dict(host="bmp", word=word, ranges=ranges, delay_ms=-1 if ranges else 100, usage=False, bad="")))
    traces = []
    for i in range(0, len(plan), 40):
        chunk = plan[i:i + 40]
        traces.append(one_trace(rng, len(chunk), M=copy.deepcopy(M), phase0="booted", plan=chunk, label="small scope"))
    for phase0 in ("unbooted", "booted", "dud"):
        for preset in range(6):
            traces.append(one_trace(rng, 2, M=copy.deepcopy(M), phase0=phase0, label="small scope boot",
                                    plan=[("boot", dict(host="spinn", preset=preset)), ("info", dict(host="spinn"))]))
    return traces, len(plan) + 36


DESIGN_ACTIONS = ("Tick", "Sample", "RestrictChip", "RestrictCore", "RestrictState", "RestrictName", "RestrictAppId")


def run_beyond(chk):
    rng = random.Random(chk.seed + 1414)
    failure, refuted = [], {}

    def design_jobs():
        try:
            chk.design("ScriptsDesign", "ScriptsDesign_%s.cfg" % chk.tier, workers=4, expect_actions=DESIGN_ACTIONS,
                       label="beyond the property: command-line tools model")
        except BaseException as ex:
            failure.append(ex)

    def wrong_job(cfg):
        try:
            r = chk.design("ScriptsDesign", cfg, workers=2, allow_error=True,
                           label="beyond the property: command-line tools model, design error expected to be refuted")
            refuted[cfg] = (not r.ok) and "violated" in (r.error or "")
        except BaseException as ex:
            failure.append(ex)
    threads = [threading.Thread(target=design_jobs)] + [threading.Thread(target=wrong_job, args=(c,)) for c in
                                                        ("ScriptsDesign_wrongdelta.cfg", "ScriptsDesign_wrongfilter.cfg")]
    for t in threads:
        t.start()
    try:
        traces, nsmall = small_scope(rng, chk.quick)
        for _ in range(chk.pick(30, 400)):
            traces.append(one_trace(rng, rng.randint(5, 12)))
    finally:
        for t in threads:
            t.join()
    if failure:
        raise failure[0]
    from ..core import MachineryError
    for cfg, ok in refuted.items():
        if not ok:
            raise MachineryError("design job ScriptsDesign/%s: the design error was not refuted" % cfg)
    runs = [e for t in traces for e in t["ev"] if e[0] == "run"]
    info = chk.extra.setdefault("scripts", {})
    info["tool_runs"] = {tool: sum(1 for e in runs if e[1] == tool) for tool in
                         ("ps", "iobuf", "counters", "info", "power", "discover", "boot")}
    info["small_scope_runs"] = nsmall
    info["runs_that_raised"] = sum(1 for e in runs if e[3]["raised"])
    info["runs_with_nonzero_status"] = sum(1 for e in runs if e[3]["status"] not in (0, -1))
    info["design_errors_refuted"] = sorted(refuted)
    return chk.validate_beyond("ScriptsTrace", "ScriptsTrace.cfg", traces,
                               "command-line tools against the machine they report on (Scripts.tla)", batch=60)


# ------------------------------------------------------------------------------------------ self-test
def selftest(chk):
    """Binding demonstration: corrupted reports, observations and event orders must be rejected by the expected
    clauses."""
    rng = random.Random(7)
    M = gen_machine(random.Random(4), w=2, h=2, max_cores=5, torus=False)
    M["chips"][0]["cores"][1]["io"] = [[5, gen_text(rng, M["iobuf_size"])], [M["iobuf_size"], gen_text(rng, M["iobuf_size"])]]
    ctr = dict(host="spinn", detailed=True, silent=True, multiple=True, tofile=False, command=[], counters=["local_p2p"],
               enters=2, stop="eof")
    plan = [("boot", dict(host="spinn", preset=3)),
            ("ps", dict(host="spinn", usage=False, sel=dict(x=-1, y=-1, p=-1, state=[["notprefix", ["idle"]]], name=[], appid=[]))),
            ("iobuf", dict(host="spinn", x=0, y=0, p=1)),
            ("counters", ctr), ("counters", dict(ctr, detailed=False, counters=[])),
            ("info", dict(host="spinn")), ("info", dict(host="bmp")),
            ("power", dict(host="bmp", word="on", ranges=[[0, 3], [5, -1]], delay_ms=1500, usage=False, bad="")),
            ("power", dict(host="bmp", word="off", ranges=[[2, -1]], delay_ms=-1, usage=False, bad="")),
            ("discover", (dict(timeout_ms=2000), 700, "192.168.240.253")),
            ("discover", (dict(timeout_ms=2000), -1, "192.168.240.253")),
            ("boot", dict(host="spinn", preset=0)),
            ("ps", dict(host="nobody", usage=False, sel=dict(x=-1, y=-1, p=-1, state=[], name=[], appid=[])))]
    good = one_trace(rng, len(plan), M=M, phase0="unbooted", plan=plan, label="selftest")

    def ev(t, tool, nth=0):
        return [e for e in t["ev"] if e[0] == "run" and e[1] == tool][nth]

    def mut(f):
        t = copy.deepcopy(good)
        f(t)
        return t

    def swap_boot_and_ps(t):
        t["ev"][0], t["ev"][1] = t["ev"][1], t["ev"][0]

    def bump_limb(t):
        row = ev(t, "counters", 1)[3]["out"]["rows"][0]
        row[3][0][2] = (row[3][0][2] + 1) % 65536
    cases = [
        (good, None),
        (mut(lambda t: ev(t, "ps")[3]["out"]["rows"].pop()), "PsListsExactlySelected"),
        (mut(lambda t: ev(t, "ps")[3]["out"]["rows"][0].__setitem__(3, "idle")), "PsListsExactlySelected"),
        (mut(lambda t: ev(t, "ps")[3]["out"]["rows"].append(ev(t, "ps")[3]["out"]["rows"][0])), "PsNoLineTwice"),
        (mut(lambda t: ev(t, "ps")[3]["out"]["header"].__setitem__(0, "X Y P")), "PsHeaderAsDocumented"),
        (mut(swap_boot_and_ps), "PsFailureReported"),
        (mut(lambda t: ev(t, "ps", 1)[3].__setitem__("status", 0)), "PsFailureReported"),
        (mut(lambda t: ev(t, "iobuf")[3]["out"].pop()), "IobufIsTheCoresText"),
        (mut(lambda t: ev(t, "counters")[3]["out"]["rows"][0][3][0].__setitem__(0, 1)), "ReportsTheAdvanceSinceLastReading"),
        (mut(bump_limb), "ReportsTheAdvanceSinceLastReading"),
        (mut(lambda t: ev(t, "counters")[3]["out"]["rows"].pop()), "OneReportPerSample"),
        (mut(lambda t: ev(t, "counters")[4]["polled"][1].pop(0)), "PolledOnceAtStartAndOncePerSample"),
        (mut(lambda t: ev(t, "counters")[3]["out"]["header"].__setitem__(3, "dropped_p2p")), "CsvHeaderAsDocumented"),
        (mut(lambda t: ev(t, "counters")[3]["out"]["rows"][0].__setitem__(0, 999)), "TimeColumnIsElapsedTime"),
        (mut(lambda t: ev(t, "counters")[3].__setitem__("errlen", 14)), "SilentPrintsNoPrompts"),
        (mut(lambda t: ev(t, "info")[3]["out"]["dims"][0].__setitem__(0, 9)), "InfoDimensionsAreMachines"),
        (mut(lambda t: ev(t, "info")[3]["out"]["software"][0][3].__setitem__(2, 31)), "InfoSoftwareIsMachines"),
        (mut(lambda t: ev(t, "info")[3]["out"]["dead"][0].__setitem__(0, 77)), "InfoDeadLinksCounted"),
        (mut(lambda t: ev(t, "info")[3]["out"]["apps"][0].__setitem__(2, 99)), "InfoApplicationStatesCounted"),
        (mut(lambda t: ev(t, "info")[3]["out"]["chips"][0].__setitem__(0, 3)), "InfoWorkingChipsCounted"),
        (mut(lambda t: ev(t, "info")[3]["out"]["topology"].__setitem__(0, "torus")), "InfoTopologyAdmitted"),
        (mut(lambda t: ev(t, "info", 1)[3]["out"]["v33"].__setitem__(0, ev(t, "info", 1)[3]["out"]["v33"][0] + 2)), "BmpSuppliesAreAdcs"),
        (mut(lambda t: ev(t, "info", 1)[3]["out"]["ttop"].__setitem__(0, ev(t, "info", 1)[3]["out"]["ttop"][0] - 2)), "BmpTemperaturesAreAdcs"),
        (mut(lambda t: ev(t, "power")[4]["post"]["power"].remove(5)), "PowerSwitchesExactlyNamedBoards"),
        (mut(lambda t: ev(t, "power")[4].__setitem__("elapsed_ms", 1000)), "PowerOnDelayObserved"),
        (mut(lambda t: ev(t, "power", 1)[4]["post"]["power"].remove(3)), "PowerSwitchesExactlyNamedBoards"),
        (mut(lambda t: ev(t, "discover")[3]["out"].__setitem__(0, "192.168.240.25")), "DiscoverPrintsTheAddress"),
        (mut(lambda t: ev(t, "discover", 1)[3].__setitem__("status", 0)), "DiscoverSilentWhenNothingHeard"),
        (mut(lambda t: ev(t, "discover")[4].__setitem__("bound", [17893])), "DiscoverListensOnBootPort"),
        (mut(lambda t: ev(t, "boot")[4]["cfg"].__setitem__(SV["hw_ver"][0][0], 5)), "BootImageCarriesThePreset"),
        (mut(lambda t: ev(t, "boot")[4]["dgrams"].pop(3)), "BootSendsWholeImageToBootPort"),
        (mut(lambda t: ev(t, "boot")[4].__setitem__("address_given", False)), "BootWaitsUntilMachineIsUp"),
        (mut(lambda t: ev(t, "boot", 1)[3].__setitem__("status", 0)), "AlreadyBootedReported"),
        (mut(lambda t: ev(t, "iobuf")[3].__setitem__("raised", "UnicodeDecodeError")), "NoUndocumentedException"),
    ]
    rej = chk.validate("ScriptsTrace", "ScriptsTrace.cfg", [c[0] for c in cases])
    got = {id(t): cl for t, _, cl in rej}
    msgs = []
    for t, want in cases:
        cl = got.get(id(t))
        if (want is None) != (cl is None) or (want and want not in cl):
            msgs.append("expected %s, got %s" % (want, cl))
    moved = mut(lambda t: t["ev"].insert(3, ["end"]))
    rej = chk.validate("ScriptsTrace", "ScriptsTrace.cfg", [moved])
    if not rej or "TraceClosed" not in rej[0][2]:
        msgs.append("an 'end' in the middle of a trace was not rejected by TraceClosed")
    return not msgs, "; ".join(msgs) or "%d corrupted tool sessions rejected with the expected clauses" % len(cases)
