"""C10 - routing entries installed in a chip's router are the entries given.

D: RouterLoadDesign.tla - (T) the walk rule of table generation executed in every order of visits on small trees
   gives TablesOf / raises exactly on MultiSource; (R) alloc / stage / load / clear on a 4-entry router keeps
   every loaded table installed exactly.
T: (i) one trace per call of the real routing_tree_to_tables (trees from the real router and hand-shaped
   RoutingTree objects); (ii) one trace per session of the real MachineController (load_routing_table_entries,
   load_routing_tables, get_routing_table_entries, clear_routing_table_entries) against the simulated machine:
   the simulator's command log is transcribed mechanically into events.  Both are judged by RouterLoadTrace.tla.
"""
import copy
import random
import struct
from collections import OrderedDict, defaultdict

import pkg_resources

from rig.netlist import Net
from rig.place_and_route import Cores
from rig.place_and_route.route.ner import route
from rig.place_and_route.constraints import RouteEndpointConstraint
from rig.place_and_route.routing_tree import RoutingTree
from rig.routing_table import RoutingTableEntry, Routes, routing_tree_to_tables
from rig.machine_control import scp_connection, machine_controller
from rig.machine_control.machine_controller import MachineController

from .. import gen, proj
from ..env.spinnaker_sim import SimMachine, CMD_VER, CMD_READ, CMD_WRITE, CMD_ALLOC, CMD_RTR
from ..env.simnet import SimNet
from .c01 import enc_entry
from .c03 import random_problem

VEC = [(1, 0), (1, 1), (0, 1), (-1, 0), (-1, -1), (0, -1)]


# ====================================================================== part (i): trees -> tables
class _VIdx(dict):
    def __missing__(self, k):
        self[k] = len(self)
        return self[k]


def halves(v):
    return [v & 0xffff, (v >> 16) & 0xffff]


def tables_trace(routes, net_keys, label):
    """routes: ordered {net: RoutingTree}; runs the real routing_tree_to_tables and records what came back"""
    vidx = _VIdx()
    trees, keys = [], []
    for net, tree in routes.items():
        nodes, edges, leaves = proj.flatten_tree(tree, vidx)
        trees.append(dict(nodes=nodes, edges=edges, leaves=leaves))
        k, m = net_keys[net]
        keys.append(halves(k) + halves(m))
    try:
        tables = routing_tree_to_tables(routes, net_keys)
    except Exception as ex:
        outcome = ["raise", type(ex).__name__]
    else:
        outcome = ["ok", [[int(x), int(y), [enc_entry(e) for e in t]] for (x, y), t in tables.items()]]
    return dict(chips=[], label=label, ev=[["tables", trees, keys, outcome]])


def chip_once(tr):
    return all(len(set(map(tuple, t["nodes"]))) == len(t["nodes"]) for t in tr["ev"][0][1])


def rand_key(rng):
    style = rng.random()
    if style < 0.3:
        return rng.getrandbits(32), 0xffffffff
    if style < 0.6:
        m = rng.getrandbits(32)
        return rng.getrandbits(32) & m, m
    if style < 0.8:
        return rng.getrandbits(32), rng.getrandbits(32)         # key bits outside the mask
    return rng.choice((0, 1, 0xffffffff, 0x80000000, 0xffff, 0x10000)), rng.choice((0, 0xffffffff, 0xffff0000, 0x8000ffff))


def grow_tree(rng, w, h, root, nnodes, p_leaf=0.5, p_none=0.2, p_link_leaf=0.1, p_dup=0.0):
    """a random RoutingTree on the w x h torus visiting every chip at most once; with p_dup a leaf repeats the route
    of an earlier leaf of its node (two vertices behind one route, e.g. through one route endpoint)"""
    rt = RoutingTree(root, [])
    by_chip = {root: rt}
    for _ in range(nnodes - 1):
        for _try in range(12):
            parent = rng.choice(list(by_chip.values()))
            d = rng.randrange(6)
            if any(r is not None and int(r) == d for r, _ in parent.children):
                continue
            c = ((parent.chip[0] + VEC[d][0]) % w, (parent.chip[1] + VEC[d][1]) % h)
            if c in by_chip:
                continue
            child = RoutingTree(c, [])
            parent.children.append((Routes(d), child))
            by_chip[c] = child
            break
    n = 0
    for node in list(by_chip.values()):
        last = not any(isinstance(ch, RoutingTree) for _, ch in node.children)
        if last or rng.random() < p_leaf:
            for _ in range(rng.choice((1, 1, 2, 3))):
                r = rng.random()
                n += 1
                used = set(int(q) for q, _ in node.children if q is not None)
                leaf_routes = [q for q, ch in node.children if q is not None and not isinstance(ch, RoutingTree)]
                if leaf_routes and rng.random() < p_dup:
                    node.children.append((rng.choice(leaf_routes), "dup%d" % n))
                elif r < p_none:
                    node.children.append((None, "none%d" % n))
                elif r < p_none + p_link_leaf:
                    free = [d for d in range(6) if d not in used]
                    if free:
                        node.children.append((Routes(rng.choice(free)), "dev%d" % n))
                else:
                    free = [c for c in range(6, 24) if c not in used]
                    node.children.append((Routes(rng.choice(free)), "v%d" % n))
        rng.shuffle(node.children)
    return rt


def copy_tree(node):
    return RoutingTree(node.chip, [(r, copy_tree(ch) if isinstance(ch, RoutingTree) else ch)
                                   for r, ch in node.children])


def nodes_of(rt):
    return [n for n in rt if isinstance(n, RoutingTree)]


def feeder(rng, w, h, a):
    """a tree that starts on a chip outside `a`, hops onto one of a's chips and from there is a's subtree"""
    chips = set(n.chip for n in nodes_of(a))
    cands = []
    for n in nodes_of(a):
        for d in range(6):
            c = ((n.chip[0] - VEC[d][0]) % w, (n.chip[1] - VEC[d][1]) % h)
            if c not in chips:
                cands.append((c, d, n))
    if not cands:
        return None
    c, d, n = rng.choice(cands)
    extra = [(Routes.core(rng.randrange(18)), "feed")] if rng.random() < 0.5 else []
    return RoutingTree(c, [(Routes(d), copy_tree(n))] + extra)


def perturb(rng, b, how):
    """make a copy fork differently on one chip: 'more' = one more exit (superset), 'less' = one exit less (subset),
    'other' = one exit replaced"""
    n = rng.choice(nodes_of(b))
    used = set(int(r) for r, _ in n.children if r is not None)
    routed = [i for i, (r, ch) in enumerate(n.children) if r is not None]
    free_cores = [c for c in range(6, 24) if c not in used]
    if how == "more" or not routed:
        n.children.append((Routes(rng.choice(free_cores)), "extra"))
        return "more"
    i = rng.choice(routed)
    if how == "less":
        del n.children[i]
        return "less"
    del n.children[i]
    n.children.append((Routes(rng.choice(free_cores)), "extra"))
    return "other"


def fixed_tree_cases():
    """hand-written shapes named in the property's quantifier"""
    E, NE, N, W, SW, S = (Routes(i) for i in range(6))
    c1, c2, c3 = Routes.core(1), Routes.core(2), Routes.core(17)
    K, K2, M = 0xcafe0000, 0xcafe0001, 0xffff00ff
    out = []

    def case(label, trees, keys):
        routes, nk = OrderedDict(), {}
        for i, (t, k) in enumerate(zip(trees, keys)):
            routes["n%d" % i] = t
            nk["n%d" % i] = k
        out.append((label, routes, nk))
    chain = lambda: RoutingTree((0, 0), [(E, RoutingTree((1, 0), [(E, RoutingTree((2, 0), [(c1, "a")]))]))])
    case("chain", [chain()], [(K, M)])
    fork = lambda: RoutingTree((1, 1), [(c2, "s"), (E, RoutingTree((2, 1), [(c1, "a")])),
                                        (N, RoutingTree((1, 2), [(NE, RoutingTree((2, 3), [(c3, "b"), (c1, "c")]))]))])
    case("branching", [fork()], [(K, M)])
    case("no-route leaf only", [RoutingTree((0, 0), [(E, RoutingTree((1, 0), [(None, "x")]))])], [(K, M)])
    case("no-route leaf beside a core", [RoutingTree((0, 0), [(None, "x"), (c1, "y")])], [(K, M)])
    case("root only, no children", [RoutingTree((3, 3), [])], [(K, M)])
    case("same key, same forks (copy)", [fork(), fork()], [(K, M), (K, M)])
    case("same key, three copies", [chain(), chain(), chain()], [(K, M)] * 3)
    case("same key different mask", [fork(), fork()], [(K, M), (K, 0xffffffff)])
    case("different key same mask", [fork(), fork()], [(K, M), (K2, M)])
    # a second source feeding into the first tree: same forks downstream, two entry directions on (1, 0)
    feed = lambda: RoutingTree((1, 1), [(S, RoutingTree((1, 0), [(E, RoutingTree((2, 0), [(c1, "a")]))]))])
    case("feeder joins chain", [chain(), feed()], [(K, M), (K, M)])
    case("feeder joins chain, feeder first", [feed(), chain()], [(K, M), (K, M)])
    # strict subset / superset of exits on the shared chip (1, 0), both processing orders
    more = lambda: RoutingTree((1, 1), [(S, RoutingTree((1, 0), [(E, RoutingTree((2, 0), [(c1, "a")])), (c2, "z")]))])
    case("superset second", [chain(), more()], [(K, M), (K, M)])
    case("superset first", [more(), chain()], [(K, M), (K, M)])
    less = lambda: RoutingTree((1, 1), [(S, RoutingTree((1, 0), [(None, "q")]))])
    case("empty exits second", [chain(), less()], [(K, M), (K, M)])
    case("empty exits first", [less(), chain()], [(K, M), (K, M)])
    # the fork differs only downstream of the shared chip, and only by a no-route leaf (no difference at all)
    same = lambda: RoutingTree((1, 1), [(S, RoutingTree((1, 0), [(None, "q"), (E, RoutingTree((2, 0), [(c1, "b")]))]))])
    case("differs by a no-route leaf only", [chain(), same()], [(K, M), (K, M)])
    case("differing forks but different keys", [chain(), more()], [(K, M), (K2, M)])
    # roots on the same chip
    case("two roots on one chip, same exits", [RoutingTree((0, 0), [(c1, "a")]), RoutingTree((0, 0), [(c1, "b")])],
         [(K, M), (K, M)])
    case("two roots on one chip, different exits", [RoutingTree((0, 0), [(c1, "a")]), RoutingTree((0, 0), [(c2, "b")])],
         [(K, M), (K, M)])
    # all six directions and all eighteen cores leave one chip
    star = RoutingTree((4, 4), [(Routes(d), RoutingTree(((4 + VEC[d][0]) % 9, (4 + VEC[d][1]) % 9), [(Routes.core(d), d)]))
                                for d in range(6)] + [(Routes.core(c), "c%d" % c) for c in range(18)])
    case("star: every route", [star], [(0xffffffff, 0xffffffff)])
    return out


def hand_tree_cases(chk, rng):
    for label, routes, nk in fixed_tree_cases():
        yield tables_trace(routes, nk, "fixed: " + label)
    for i in range(chk.pick(1500, 20000)):
        w, h = rng.choice(((2, 2), (3, 3), (3, 1), (1, 4), (5, 4), (8, 8)))
        a = grow_tree(rng, w, h, (rng.randrange(w), rng.randrange(h)), rng.choice((1, 2, 3, 5, 9)),
                      p_dup=rng.choice((0, 0, 0.3)))
        kind = rng.choice(("copy", "feeder", "more", "less", "other", "unrelated", "single", "feeder+more", "same-object"))
        trees = [a]
        if kind == "copy":
            trees.append(copy_tree(a))
        elif kind == "same-object":
            trees.append(a)                                     # one RoutingTree object routed under two nets
        elif kind in ("feeder", "feeder+more"):
            f = feeder(rng, w, h, a)
            if f is not None:
                if kind == "feeder+more":
                    kind += ":" + perturb(rng, f.children[0][1], "more")
                trees.append(f)
        elif kind in ("more", "less", "other"):
            b = copy_tree(a)
            kind += ":" + perturb(rng, b, kind)
            trees.append(b)
        elif kind == "unrelated":
            trees.append(grow_tree(rng, w, h, (rng.randrange(w), rng.randrange(h)), rng.choice((1, 2, 4))))
        km = rand_key(rng)
        keys = [km] * len(trees)
        # sometimes a third tree, sometimes near-miss keys
        r = rng.random()
        if r < 0.25:
            trees.append(grow_tree(rng, w, h, (rng.randrange(w), rng.randrange(h)), rng.choice((1, 3))))
            keys.append(rng.choice((km, rand_key(rng), (km[0], km[1] ^ (1 << rng.randrange(32))),
                                    (km[0] ^ (1 << rng.randrange(32)), km[1]))))
        elif r < 0.35 and len(trees) == 2:
            keys[1] = rng.choice(((km[0], km[1] ^ (1 << rng.randrange(32))), (km[0] ^ (1 << rng.randrange(32)), km[1])))
        order = list(range(len(trees)))
        rng.shuffle(order)
        shape = rng.choice(("plain", "plain", "ghost", "lists", "dict", "ghost+dict"))
        routes = dict() if "dict" in shape else OrderedDict()
        for j in order:
            routes["n%d" % j] = trees[j]
        # the keys' dictionary is built in an order of its own; it may name nets that have no tree ("ghost": nets
        # that are routed elsewhere / not at all) and give key and mask as a list
        korder = list(range(len(trees)))
        rng.shuffle(korder)
        nk = {}
        for j in korder:
            nk["n%d" % j] = list(keys[j]) if shape == "lists" else keys[j]
            if "ghost" in shape and rng.random() < 0.7:
                nk["ghost%d" % j] = rng.choice((km, rand_key(rng)))
        label = "hand %s order=%s keys=%s %dx%d" % (kind, order, shape, w, h)
        yield tables_trace(routes, nk, label)
        # histories: the caller's objects are converted again after being changed in place (a tree grows or loses
        # an exit, a net gets another key, a net is dropped from the routes but not from the keys)
        if i % 6 == 0:
            for step in range(rng.choice((1, 1, 2))):
                how = rng.choice(("more", "less", "other", "rekey", "drop", "same"))
                name = rng.choice(sorted(routes))
                if how in ("more", "less", "other"):
                    how = "tree " + perturb(rng, routes[name], how)
                elif how == "rekey":
                    nk[name] = rng.choice((km, rand_key(rng), (km[0], km[1] ^ (1 << rng.randrange(32)))))
                elif how == "drop" and len(routes) > 1:
                    del routes[name]
                yield tables_trace(routes, nk, label + " again(%d) after in-place change: %s of %s" % (step, how, name))


def router_tree_cases(chk, rng):
    """trees from the real router; nets draw their key and mask from a small pool so that sharing happens"""
    for i in range(chk.pick(350, 6000)):
        m = gen.random_machine(rng, maxw=chk.pick(7, 12), maxh=chk.pick(7, 12), p_dead_chip=rng.choice((0, 0.05)),
                               fault_rate=rng.choice((0, 0, 0.05, 0.1)), connected=True)
        vertices, placements, allocations, endpoints, nets = random_problem(rng, m, rng.randint(1, 6))
        cons = [RouteEndpointConstraint(v, r) for v, r in endpoints.items()]
        random.seed(chk.seed * 100003 + i)
        try:
            routes = route({v: {} for v in vertices}, nets, m, cons, placements, allocations, Cores,
                           rng.choice((0, 1, 2, 20)))
        except Exception as ex:
            chk.count("router runs ended by %s (no verdict here: C03's business)" % type(ex).__name__)
            continue
        pool = [rand_key(rng) for _ in range(max(1, int(len(nets) * rng.choice((0.5, 1, 2)))))]
        if rng.random() < 0.3:
            # nets with the same source share a key (the usual way keys are shared)
            by_src = {}
            nk = {n: by_src.setdefault(n.source, rng.choice(pool)) for n in nets}
        else:
            nk = {n: rng.choice(pool) for n in nets}
        order = list(nets)
        rng.shuffle(order)
        yield tables_trace(OrderedDict((n, routes[n]) for n in order), nk,
                           "router %dx%d nets=%d seed=%d" % (m.width, m.height, len(nets), chk.seed * 100003 + i))


# ====================================================================== part (ii): loading
def snapshot(chip):
    return [[i] + halves(e[0]) + halves(e[1]) + halves(e[2]) + [int(e[3])] for i, e in enumerate(chip.rtr) if e is not None]


class RtrSim(SimMachine):
    """SimMachine that (a) records the router contents right after every command that changes them and
    (b) can hand out router blocks by other policies than first fit (all are legal allocators: a block is free and
    inside 1..1023, or the reply is 0)."""
    alloc_policy = "first"          # "first" | "last" | "zero_ok" (a request for 0 entries is granted)

    def _cmd_28(self, chip, p, a, data, rec):
        op, app = a[0] & 0xff, (a[0] >> 8) & 0xff
        if op == 3 and (self.alloc_policy == "last" or (self.alloc_policy == "zero_ok" and a[1] == 0)):
            count, base = a[1], 0
            free = lambda i: chip.rtr[i] is None and i not in chip.rtr_owner
            if count == 0:
                base = next((i for i in range(1, 1024) if free(i)), 0)
            elif count <= 1023:
                for b in range(1024 - count, 0, -1):
                    if all(free(i) for i in range(b, b + count)):
                        base = b
                        break
            for i in range(base, base + count if base else base):
                chip.rtr_owner[i] = app
            rec["rtr_base"] = base
            return (base,), b""
        out = SimMachine._cmd_28(self, chip, p, a, data, rec)
        if op == 5:
            rec["contents"] = snapshot(chip)
        return out

    def _cmd_29(self, chip, p, a, data, rec):
        out = SimMachine._cmd_29(self, chip, p, a, data, rec)
        rec["contents"] = snapshot(chip)
        return out


def small(v, lim=1 << 24):
    return int(v) if 0 <= v < lim else -1


def log_events(sim, recs, mode):
    """mechanical transcription of executed commands into events (see RouterLoadTrace.tla)"""
    evs = []
    for r in recs:
        chip = sim.chips.get((r["x"], r["y"]))
        cmd = r["cmd"]
        if cmd == CMD_VER:
            continue
        if cmd == CMD_READ:
            if mode == "get" and chip is not None and 0 <= r["arg1"] - chip.rtr_copy < 16384:
                evs.append(["copy", r["x"], r["y"], r["arg1"] - chip.rtr_copy, list(bytearray(r.get("reply_data", b"")))])
            continue
        if chip is None:
            evs.append(["other", cmd])
        elif cmd == CMD_ALLOC and (r["arg1"] & 0xff) == 3:
            evs.append(["alloc", r["x"], r["y"], small(r["arg2"]), small(r["arg1"] >> 8),
                        small((r.get("reply_args") or [0])[0])])
        elif cmd == CMD_ALLOC and (r["arg1"] & 0xff) == 5:
            evs.append(["free", r["x"], r["y"], small(r["arg1"] >> 8), r.get("contents", [])])
        elif cmd == CMD_WRITE:
            evs.append(["write", r["x"], r["y"], small(r["arg1"] - chip.sdram_sys, 1 << 20), list(bytearray(r["data"]))])
        elif cmd == CMD_RTR and (r["arg1"] & 0xff) == 2:
            evs.append(["rtrload", r["x"], r["y"], r["arg1"] >> 16, (r["arg1"] >> 8) & 0xff,
                        small(r["arg2"] - chip.sdram_sys, 1 << 20), small(r["arg3"]), r.get("contents", [])])
        else:
            evs.append(["other", cmd])
    return evs


def enc_given(entries):
    return [halves(e.key) + halves(e.mask) + [sorted(int(r) for r in e.route)] for e in entries]


class Session(object):
    """one simulated machine, one MachineController, a recorded sequence of calls"""

    def __init__(self, w, h, buffer_size=256, policy="first", label=""):
        st = pkg_resources.resource_string("rig", "boot/sark.struct").decode()
        self.sim = RtrSim(w, h, st, buffer_size=buffer_size)
        self.sim.alloc_policy = policy
        # every chip has its own staging buffer and router copy address
        for k, ((x, y), c) in enumerate(sorted(self.sim.chips.items())):
            c.sdram_sys += 0x4000 * k
            c.rtr_copy += 0x8000 * k
            c.write(self.sim.sv_addr("sdram_sys"), struct.pack("<I", c.sdram_sys))
            c.write(self.sim.sv_addr("rtr_copy"), struct.pack("<I", c.rtr_copy))
            self.sim._sync_router(c)
        self.net = SimNet(self.sim)
        self.ev = []
        self.label = label
        self.setup = None
        self.ops = []

    def prepare(self, xy, used):
        """put the chip's router into a given state before the session starts: used = {index: (key, mask, route, app)}"""
        c = self.sim.chips[xy]
        for i, e in used.items():
            c.rtr[i] = e
            c.rtr_owner[i] = e[3]
        self.sim._sync_router(c)

    def start(self):
        self.setup = [[x, y, snapshot(c)] for (x, y), c in sorted(self.sim.chips.items())]
        self.net.install(scp_connection, machine_controller)
        self.mc = MachineController("sim")

    def _contents(self, chips):
        return [[x, y, snapshot(self.sim.chips[(x, y)])] for (x, y) in chips]

    def _call(self, mode, f):
        n0 = len(self.sim.log)
        try:
            res = f()
            outcome = "ok"
        except Exception as ex:
            res = None
            outcome = type(ex).__name__
        self.ev.extend(log_events(self.sim, self.sim.log[n0:], mode))
        return outcome, res

    def _elsewhere(self, xy, app):
        """another chip and application of the session: an enclosing context block that the call's own arguments
        must override"""
        others = [c for c in sorted(self.sim.chips) if c != xy] or [xy]
        return others[(xy[0] + xy[1] + app) % len(others)], (app + 7) % 256

    def load_entries(self, xy, app, entries, via_context=False):
        """via_context: False = all arguments explicit; True = chip and application from a context block;
        "override" = explicit arguments inside a block naming another chip and application; "nested" = application
        from an outer block, chip from an inner one"""
        self.ops.append("load_entries %s app=%d n=%d %s ctx=%s" % (xy, app, len(entries), type(entries).__name__,
                                                                   via_context))
        self.ev.append(["load", app, [[xy[0], xy[1], enc_given(entries)]], "load_routing_table_entries"])
        if via_context is True:
            def f():
                with self.mc(x=xy[0], y=xy[1], app_id=app):
                    self.mc.load_routing_table_entries(entries)
        elif via_context == "override":
            (ox, oy), oapp = self._elsewhere(xy, app)

            def f():
                with self.mc(x=ox, y=oy, app_id=oapp):
                    self.mc.load_routing_table_entries(entries, x=xy[0], y=xy[1], app_id=app)
        elif via_context == "nested":
            (ox, oy), oapp = self._elsewhere(xy, app)

            def f():
                with self.mc(app_id=app, x=ox, y=oy):
                    with self.mc(x=xy[0], y=xy[1]):
                        self.mc.load_routing_table_entries(entries)
        else:
            f = lambda: self.mc.load_routing_table_entries(entries, x=xy[0], y=xy[1], app_id=app)
        outcome, _ = self._call("load", f)
        self.ev.append(["ret", outcome, self._contents([xy])])
        return outcome

    def load_tables(self, tables, app, via_context=False):
        """via_context: False = application as positional argument; "keyword"; True = from a context block (which
        also names a chip: the tables' own chips must win)"""
        self.ops.append("load_tables %s app=%d %s ctx=%s" % ([(xy, len(t)) for xy, t in tables.items()], app,
                                                             type(tables).__name__, via_context))
        self.ev.append(["load", app, [[xy[0], xy[1], enc_given(t)] for xy, t in tables.items()], "load_routing_tables"])
        chips = list(tables)
        if via_context is True:
            (ox, oy), _ = self._elsewhere(chips[0] if chips else (0, 0), app)

            def f():
                with self.mc(app_id=app, x=ox, y=oy):
                    self.mc.load_routing_tables(tables)
        elif via_context == "keyword":
            f = lambda: self.mc.load_routing_tables(routing_tables=tables, app_id=app)
        else:
            f = lambda: self.mc.load_routing_tables(tables, app)
        outcome, _ = self._call("load", f)
        self.ev.append(["ret", outcome, self._contents(chips)])
        return outcome

    def get(self, xy, via_context=False):
        self.ops.append("get %s ctx=%s" % (xy, via_context))
        self.ev.append(["get", xy[0], xy[1]])
        if via_context:
            def f():
                with self.mc(x=xy[0], y=xy[1]):
                    return self.mc.get_routing_table_entries()
        else:
            f = lambda: self.mc.get_routing_table_entries(xy[0], xy[1])
        outcome, res = self._call("get", f)
        items = []
        try:
            for i, it in enumerate(res or []):
                if it is not None:
                    e, app, core = it
                    items.append([i] + halves(e.key) + halves(e.mask) + [sorted(int(r) for r in e.route), int(app), int(core)])
            total = len(res) if res is not None else -1
        except Exception as ex:           # what came back is not a list of (entry, app, core) / None
            outcome, total, items = "unreadable result: " + type(ex).__name__, -1, []
        self.ev.append(["got", outcome, total, items])

    def clear(self, xy, app, via_context=False):
        self.ops.append("clear %s app=%d ctx=%s" % (xy, app, via_context))
        self.ev.append(["clear", xy[0], xy[1], app])
        if via_context:
            def f():
                with self.mc(x=xy[0], y=xy[1], app_id=app):
                    self.mc.clear_routing_table_entries()
        else:
            f = lambda: self.mc.clear_routing_table_entries(xy[0], xy[1], app)
        outcome, _ = self._call("clear", f)
        self.ev.append(["cleared", outcome])

    def finish(self):
        self.net.uninstall()
        self.ev.append(["end", self._contents(sorted(self.sim.chips))])
        return dict(chips=self.setup, ev=self.ev, label=self.label, ops=self.ops)


def rand_routes(rng):
    r = rng.random()
    if r < 0.25:
        return {Routes(rng.randrange(24))}
    if r < 0.3:
        return set()
    if r < 0.35:
        return set(Routes)
    return {Routes(b) for b in range(24) if rng.random() < rng.choice((0.1, 0.5, 0.9))}


def rand_entries(rng, n):
    out = []
    for _ in range(n):
        k, m = rand_key(rng)
        src = rng.choice(({None}, {Routes(rng.randrange(6))}, {None, Routes.north}))
        out.append(RoutingTableEntry(rand_routes(rng), k, m, src))
    return out


def single_bit_table(rng):
    t = [RoutingTableEntry({Routes(b)}, rng.getrandbits(32), rng.getrandbits(32)) for b in range(24)]
    if rng.random() < 0.5:
        rng.shuffle(t)
    return t


def foreign(rng, app):
    k, m = rand_key(rng)
    return (k, m, rng.getrandbits(24), app)


def prepare_free_list(rng, ses, xy, kind):
    """states of the router's free list before the session (returns the size of the largest free block)"""
    used = {}
    apps = [a for a in (1, 17, 30, 200, 255)]
    if kind == "empty":
        pass
    elif kind == "full":
        for i in range(1, 1024):
            used[i] = foreign(rng, rng.choice(apps))
    elif kind == "alternate":
        for i in range(rng.choice((1, 2)), 1024, 2):
            used[i] = foreign(rng, rng.choice(apps))
    elif kind == "blocks":
        i = 1
        while i < 1024:
            gap = rng.choice((0, 1, 2, 5, 17, 60, 300))
            run = rng.choice((1, 1, 3, 20, 100, 400))
            i += gap
            app = rng.choice(apps)
            for j in range(i, min(1024, i + run)):
                used[j] = foreign(rng, app)
            i += run
    elif kind == "hole":
        lo = rng.randint(1, 1000)
        hi = min(1024, lo + rng.choice((1, 2, 8, 24, 25, 100)))
        for i in range(1, 1024):
            if not lo <= i < hi:
                used[i] = foreign(rng, rng.choice(apps))
    elif kind == "light":
        for _ in range(rng.randint(1, 4)):
            i = rng.randint(1, 1000)
            app = rng.choice(apps)
            for j in range(i, i + rng.choice((1, 2, 5, 20))):
                used[j] = foreign(rng, app)
    elif kind == "head":
        for i in range(1, rng.randint(2, 1023)):
            used[i] = foreign(rng, apps[0])
    ses.prepare(xy, used)
    best = cur = 0
    for i in range(1, 1024):
        cur = cur + 1 if i not in used else 0
        best = max(best, cur)
    return best


def gen_session(chk, rng, idx, big=False):
    w, h = rng.choice(((1, 1), (2, 1), (2, 2), (3, 2)))
    buf = rng.choice((256, 256, 128, 64)) if big else rng.choice((256, 256, 128, 64, 48, 16, 24))
    policy = rng.choice(("first", "first", "last", "zero_ok"))
    ses = Session(w, h, buffer_size=buf, policy=policy, label="session %d %dx%d buffer=%d alloc=%s" % (idx, w, h, buf, policy))
    chips = sorted(ses.sim.chips)
    free = {}
    kinds = {}
    # at most two chips start from a heavily used router (recording their contents dominates the trace size)
    heavy = set(rng.sample(chips, min(len(chips), rng.choice((0, 1, 1, 2)))))
    for xy in chips:
        if xy in heavy and not (big and rng.random() < 0.7):
            kinds[xy] = rng.choice(("blocks", "blocks", "hole", "head", "alternate", "full"))
        else:
            kinds[xy] = rng.choice(("empty", "light"))
        free[xy] = prepare_free_list(rng, ses, xy, kinds[xy])
    ses.label += " free-list=%s" % [kinds[xy] for xy in chips]
    ses.start()
    apps = [rng.randrange(1, 256) for _ in range(3)] + [rng.choice((0, 1, 16, 255))]

    def size_for(xy):
        r = rng.random()
        f = free[xy]
        if big and r < 0.6:
            return rng.choice((1023, 1022, 1000, 700, 512, 257))
        if r < 0.08:
            return 0
        if r < 0.2:
            return f + rng.choice((1, 1, 2, 50))                 # too big for the largest block
        if r < 0.3 and (buf >= 64 or f <= 64):
            return f                                            # exactly the largest block
        if r < 0.4:
            return rng.randint(30, 200) if buf >= 64 else rng.randint(20, 64)
        return rng.choice((1, 1, 2, 3, 5, 8, 16, 17, 24, 33))
    # one list object the caller keeps for the whole session: loaded, changed in place, loaded again (to the same or
    # another chip); every third session has such a caller
    kept = rand_entries(rng, rng.choice((1, 2, 3, 8, 17))) if idx % 3 == 1 else None

    def change_kept():
        how = rng.choice(("same", "replace", "replace", "append", "delete", "reverse", "reroute"))
        if how == "replace" and kept:
            kept[rng.randrange(len(kept))] = rand_entries(rng, 1)[0]
        elif how == "append":
            kept.extend(rand_entries(rng, rng.choice((1, 1, 2))))
        elif how == "delete" and len(kept) > 1:
            del kept[rng.randrange(len(kept))]
        elif how == "reverse":
            kept.reverse()
        elif how == "reroute" and kept:
            j = rng.randrange(len(kept))
            kept[j] = RoutingTableEntry(rand_routes(rng), kept[j].key, kept[j].mask)
        return how

    def with_repeats(entries):
        """a table in which an entry object occurs twice and a key/mask occurs with two routes (all are "given
        entries": the router holds them all, in order)"""
        if len(entries) >= 2 and rng.random() < 0.15:
            j = rng.randrange(len(entries))
            entries[rng.randrange(len(entries))] = entries[j]
            e = entries[rng.randrange(len(entries))]
            entries[rng.randrange(len(entries))] = RoutingTableEntry(rand_routes(rng), e.key, e.mask)
        return entries
    ctx_user = rng.random() < 0.4         # a caller who works with context blocks
    for step in range(rng.randint(2, 7) if not big else rng.randint(1, 3)):
        r = rng.random()
        xy = rng.choice(chips)
        app = rng.choice(apps)
        if kept is not None and (step < 2 or rng.random() < 0.3) and not big:
            how = change_kept() if step else "first"
            ses.ops.append("kept list: %s" % how)
            if rng.random() < 0.7:
                ses.load_entries(xy, app, kept, via_context=rng.choice((False, False, True)))
            else:
                some = rng.sample(chips, rng.randint(1, len(chips)))
                ses.load_tables(OrderedDict((c, kept) for c in some), app)     # one list for several chips
        elif r < 0.45:
            n = min(size_for(xy), 1100)
            entries = single_bit_table(rng) if (n == 24 and rng.random() < 0.8) else with_repeats(rand_entries(rng, n))
            if rng.random() < 0.15:
                entries = tuple(entries)
            ses.load_entries(xy, app, entries,
                             via_context=rng.choice((True, "override", "nested", False)) if ctx_user else rng.random() < 0.1)
        elif r < 0.7:
            some = rng.sample(chips, rng.randint(1, len(chips)))
            pairs = [(c, with_repeats(rand_entries(rng, min(size_for(c), 300) if not big else size_for(c)))) for c in some]
            kind = rng.choice(("ordered", "ordered", "dict", "defaultdict"))
            if kind == "dict":
                tables = dict(pairs)
            elif kind == "defaultdict":                   # what routing_tree_to_tables returns
                tables = defaultdict(list)
                tables.update(pairs)
            else:
                tables = OrderedDict(pairs)
            ses.load_tables(tables, app, via_context=rng.choice((True, True, "keyword", False)) if ctx_user else False)
        elif r < 0.82:
            ses.get(xy, via_context=ctx_user and rng.random() < 0.6)
        else:
            ses.clear(xy, rng.choice(apps + [17, 200]), via_context=ctx_user and rng.random() < 0.6)
        for c in chips:       # bookkeeping for the generator only: how much is free now (sizes near the limit)
            free[c] = ses.sim.chips[c].largest_free_rtr_block()
    if rng.random() < 0.4:
        ses.get(rng.choice(chips))
    return ses.finish()


def fixed_sessions():
    """the cases named in the property: every route bit alone, all bits, 1023 entries, full router, order"""
    out = []
    rng = random.Random(10)
    s = Session(2, 1, label="fixed: each of the 24 route bits alone, then read back")
    s.start()
    s.load_entries((1, 0), 66, [RoutingTableEntry({Routes(b)}, 0x1000 + b, 0xffffffff) for b in range(24)])
    s.load_entries((1, 0), 67, [RoutingTableEntry(set(Routes), 0xffffffff, 0xffffffff),
                                RoutingTableEntry(set(), 0, 0),
                                RoutingTableEntry({Routes.core(17), Routes.east}, 0x80000001, 0x7fffffff)])
    s.get((1, 0))
    s.get((0, 0))
    s.clear((1, 0), 66)
    s.get((1, 0))
    s.load_entries((1, 0), 68, rand_entries(rng, 30))       # goes into the hole left by app 66 or behind
    s.get((1, 0))
    out.append(s.finish())
    s = Session(1, 1, label="fixed: 1023 entries fill the router; nothing more fits; clear; fits again")
    s.start()
    s.load_entries((0, 0), 30, rand_entries(rng, 1023))
    s.get((0, 0))
    s.load_entries((0, 0), 31, rand_entries(rng, 1))
    s.load_entries((0, 0), 31, [])
    s.clear((0, 0), 30)
    s.load_entries((0, 0), 31, rand_entries(rng, 2))
    s.load_entries((0, 0), 31, rand_entries(rng, 1024))
    s.get((0, 0))
    out.append(s.finish())
    s = Session(2, 2, label="fixed: load_routing_tables over four chips, one of them full")
    prepare_free_list(rng, s, (1, 1), "full")
    s.start()
    s.load_tables(OrderedDict([((0, 0), rand_entries(rng, 3)), ((1, 0), rand_entries(rng, 40)),
                               ((1, 1), rand_entries(rng, 2)), ((0, 1), rand_entries(rng, 5))]), 99)
    s.load_tables(OrderedDict([((0, 1), rand_entries(rng, 5)), ((0, 0), rand_entries(rng, 1))]), 100)
    for c in ((0, 0), (1, 0), (1, 1), (0, 1)):
        s.get(c)
    out.append(s.finish())
    s = Session(2, 1, buffer_size=64, label="fixed: one list kept by the caller, changed in place between loads; one list "
                "for two chips; context blocks; a tuple; repeated entries")
    s.start()
    kept = rand_entries(rng, 5)
    s.load_entries((0, 0), 40, kept)
    kept[2] = RoutingTableEntry({Routes.core(4), Routes.west}, 0x12340000, 0xffff0000)
    s.load_entries((0, 0), 41, kept)
    kept.append(RoutingTableEntry({Routes.north_east}, 0xfeed0000, 0xffff0000))
    s.load_entries((1, 0), 40, kept, via_context=True)
    kept.reverse()
    s.load_tables(OrderedDict([((1, 0), kept), ((0, 0), kept)]), 42, via_context=True)
    dup = RoutingTableEntry({Routes.core(1)}, 0xaaaa0000, 0xffff0000)
    s.load_entries((1, 0), 43, (dup, dup, RoutingTableEntry({Routes.core(2)}, 0xaaaa0000, 0xffff0000), dup),
                   via_context="override")
    s.load_entries((0, 0), 43, rand_entries(rng, 3), via_context="nested")
    s.get((1, 0), via_context=True)
    s.clear((1, 0), 40, via_context=True)
    s.get((1, 0))
    t = defaultdict(list)
    t[(0, 0)] = rand_entries(rng, 2)
    s.load_tables(t, 44, via_context="keyword")
    out.append(s.finish())
    s = Session(1, 1, policy="zero_ok", label="fixed: empty table on a machine that grants empty blocks")
    s.start()
    s.load_entries((0, 0), 5, [])
    s.load_tables({(0, 0): []}, 5)
    s.get((0, 0))
    out.append(s.finish())
    return out


# ====================================================================== the check
def describe(tr, i, clauses):
    e = tr["ev"][i - 1]
    if e[0] == "tables":
        return "tables %s trees=%s keys=%s outcome=%s" % (",".join(clauses), e[1], e[2], str(e[3])[:300])
    # the call the event belongs to
    j = i - 1
    while j > 0 and tr["ev"][j][0] not in ("load", "get", "clear"):
        j -= 1
    call = tr["ev"][j]
    what = str(call[:2] + [[c[:2] + [c[2][:4]] for c in call[2]]])[:400] if call[0] == "load" else str(call)
    return "%s %s call=%s %s" % (e[0], ",".join(clauses), what, tr.get("label", ""))


def run(chk):
    rng = random.Random(chk.seed)
    chk.design("RouterLoadDesign", "RouterLoadDesign_router.cfg",
               expect_actions=("RCall", "RAlloc", "RAllocFail", "RStage", "RLoad", "RClear"), label="router")
    chk.design("RouterLoadDesign", "RouterLoadDesign_tables_quick.cfg",
               expect_actions=("Hop", "Leaf", "Begin", "New", "Merge", "Clash", "Finish"), label="tables, tree by tree")
    chk.design("RouterLoadDesign", "RouterLoadDesign_tables_anyorder.cfg",
               expect_actions=("Hop", "Leaf", "Begin", "New", "Merge", "Clash", "Finish"), label="tables, any order")
    if not chk.quick:
        chk.design("RouterLoadDesign", "RouterLoadDesign_tables_thorough.cfg", label="tables, any order, 3 nodes 2 leaves")
    # ---- (i)
    ttraces = []
    for t in hand_tree_cases(chk, rng):
        ttraces.append(t)
    nhand = len(ttraces)
    for t in router_tree_cases(chk, rng):
        if not chip_once(t):
            chk.skip("router tree visits a chip twice (outside the property's domain: C03)")
            continue
        ttraces.append(t)
    for t in ttraces:
        e = t["ev"][0]
        raised = e[3][0] == "raise"
        chk.count("table conversions that raised %s" % e[3][1] if raised else "table conversions that returned")
        shared = len(set(map(tuple, e[2]))) < len(e[2])
        if shared:
            chk.count("conversions with trees sharing key and mask")
            if not raised:
                chk.count("conversions with trees sharing key and mask that returned tables")
        chk.note_case((e[1], e[2]), nontrivial=len(e[1]) > 1 or len(e[1][0]["nodes"]) > 1)
        if " again(" in t["label"]:
            chk.count("table conversions of the caller's objects again after an in-place change")
        if "keys=ghost" in t["label"]:
            chk.count("table conversions whose keys name nets without a tree")
    # ---- (ii)
    straces = fixed_sessions()
    nses = chk.pick(120, 1000)
    for i in range(nses):
        straces.append(gen_session(chk, rng, i, big=(i % 30 == 0)))
    alone = [0] * 24
    for t in straces:
        for op in t["ops"]:
            if op.startswith("kept list") and not op.endswith("first"):
                chk.count("loads of a list the caller kept and changed in place (%s)" % op.split(": ")[1])
            elif "ctx=" in op and not op.endswith("ctx=False"):
                chk.count("calls with arguments from context blocks")
        for e in t["ev"]:
            if e[0] == "load":
                n = sum(len(c[2]) for c in e[2])
                for c in e[2]:
                    for g in c[2]:
                        if len(g[4]) == 1:
                            alone[g[4][0]] += 1
                chk.note_case(("load", e[1], e[2]), nontrivial=n > 0)
                chk.count("entries given to load calls", n)
                if any(len(c[2]) >= 1000 for c in e[2]):
                    chk.count("load calls with a table of >= 1000 entries")
            elif e[0] == "ret":
                chk.count("load calls that returned" if e[1] == "ok" else "load calls that raised %s" % e[1])
            elif e[0] == "got":
                chk.count("read-backs")
                chk.note_case(("get", e[3]), nontrivial=bool(e[3]))
            elif e[0] == "cleared":
                chk.count("clear calls")
    chk.extra["entries_given_with_a_single_route_bit_per_bit_0_to_23"] = alone
    chk.rule = ("(i) %d hand-shaped sets of RoutingTree objects (fixed shapes: chain, branching, no-route leaves, copies, "
                "feeders, strict super-/subsets of exits in both orders, near-miss keys, star with all 24 routes; random: "
                "trees of 1-9 nodes on tori up to 8x8 with core / link / no-route leaves, a second tree that is a copy, a "
                "feeder into a subtree, a copy with one exit more / less / replaced, or unrelated, sometimes a third, "
                "arbitrary 32-bit keys and masks incl. key bits outside the mask, shuffled processing order; one RoutingTree "
                "object under two nets, leaves repeating a route of their node, routes as dict / OrderedDict, a keys "
                "dictionary in an order of its own that also names nets without a tree or gives [key, mask] lists; every "
                "sixth set is converted again after the caller changed a tree / a key / the set of nets in place) and %d sets of "
                "trees from the real router (random connected machines with faults, 1-6 nets, keys drawn from a small pool "
                "or shared per source); non-trivial = more than one tree or node.  (ii) %d sessions of the real "
                "MachineController against the simulated machine (1-6 chips, SCP buffer 16..256 bytes, first-fit / last-fit "
                "/ empty-block-granting allocators, routers prepared empty / partly used in blocks / one hole / alternate "
                "entries / completely full, 2-8 calls of load_routing_table_entries (also through the context manager), "
                "load_routing_tables, get_routing_table_entries, clear_routing_table_entries; tables of 0..1024 entries "
                "incl. exactly and just over the largest free block, each of the 24 route bits alone, empty / full / random "
                "route sets, arbitrary keys and masks, application ids 0..255; a list the caller keeps, changes in place and "
                "loads again, one list for several chips, tuples, an entry object / a key and mask repeated in a table, "
                "tables as dict / OrderedDict / defaultdict, chip and application taken from (nested, overridden) context "
                "blocks for all four calls); non-trivial = a load of >= 1 entry or a "
                "read-back of a non-empty router; distinct = distinct (trees, keys) resp. (app, tables) resp. read-back"
                % (nhand, len(ttraces) - nhand, len(straces)))
    chk.exhaustive = False
    chk.assumptions = [
        "the simulated machine (harness/env/spinnaker_sim.py) stands for SC&MP; each of its effects used here is judged "
        "against the text of RouterLoad.tla in the same trace (EnvAllocSound, EnvInstallMatchesStaging, "
        "EnvFreeRemovesApp, EnvCopyMatchesRouter)",
        "routing trees are valid (one node per chip, hops between neighbours), as routing_tree_to_tables documents",
        "a request for zero entries is refused by the default allocator (reply 0) and granted by the 'zero_ok' one; "
        "both are explored"]
    small_t = min(ttraces, key=lambda t: len(str(t)))
    chk.sample(small_t)
    chk.sample(ttraces[nhand // 2])
    chk.sample(dict(min(straces, key=lambda t: len(str(t))), note="smallest session"))
    chk.validate("RouterLoadTrace", "RouterLoadTrace.cfg", ttraces, key_of=describe, batch=4000, label="tables")
    # the JSON of a batch costs TLC about 150 times its size in heap
    chk.validate("RouterLoadTrace", "RouterLoadTrace.cfg", straces, key_of=describe, batch=150, heap="14g",
                 label="sessions")


def selftest(chk):
    E, c1, c2 = Routes.east, Routes.core(1), Routes.core(2)
    K, M = 0x12345678, 0xfffffff0
    chain = lambda: RoutingTree((0, 0), [(E, RoutingTree((1, 0), [(E, RoutingTree((2, 0), [(c1, "a")]))]))])
    more = lambda: RoutingTree((1, 1), [(Routes.south, RoutingTree((1, 0), [(E, RoutingTree((2, 0), [(c1, "a")])), (c2, "z")]))])
    feed = lambda: RoutingTree((1, 1), [(Routes.south, RoutingTree((1, 0), [(E, RoutingTree((2, 0), [(c1, "a")]))]))])
    good_t = tables_trace(OrderedDict([("a", chain()), ("b", feed())]), {"a": (K, M), "b": (K, M)}, "selftest")
    clash_t = tables_trace(OrderedDict([("a", chain()), ("b", more())]), {"a": (K, M), "b": (K, M)}, "selftest")

    def mut(t, f):
        t = copy.deepcopy(t); f(t["ev"]); return t

    def tab(ev, x, y):
        return [c for c in ev[0][3][1] if c[:2] == [x, y]][0][2]
    s = Session(2, 1, buffer_size=32, label="selftest")
    s.prepare((1, 0), {1: (1, 2, 3, 9), 2: (1, 2, 3, 9), 5: (7, 7, 7, 9)})
    s.start()
    s.load_entries((1, 0), 66, [RoutingTableEntry({Routes.core(3), Routes.north}, 0xdead0001, 0xffff00ff),
                                RoutingTableEntry({Routes.south}, 0xbeef0002, 0xffffffff),
                                RoutingTableEntry({Routes.core(17)}, 3, 0xf)])
    s.get((1, 0))
    s.clear((1, 0), 9)
    s.load_entries((1, 0), 66, rand_entries(random.Random(1), 40))
    good_s = s.finish()
    ev = good_s["ev"]
    names = [e[0] for e in ev]
    i_alloc, i_w1, i_load, i_ret = names.index("alloc"), names.index("write"), names.index("rtrload"), names.index("ret")
    i_got, i_free = names.index("got"), names.index("free")
    assert names[i_w1 + 1] == "write" and ev[i_alloc][5] == 6, (names[:8], ev[i_alloc])
    cases = [
        (good_t, None), (clash_t, None), (good_s, None),
        # (i) corrupt a route bit / a source bit, drop an entry, duplicate an entry, wrong verdicts
        (mut(good_t, lambda ev: tab(ev, 1, 0)[0].__setitem__(4, 1 | (1 << 7))), "TablesExact"),
        (mut(good_t, lambda ev: tab(ev, 1, 0)[0].__setitem__(5, 1 << 3)), "TablesExact"),
        (mut(good_t, lambda ev: ev[0][3][1].pop()), "TablesExact"),
        (mut(good_t, lambda ev: tab(ev, 2, 0).append(list(tab(ev, 2, 0)[0]))), "OneEntryPerKeyMask"),
        (mut(good_t, lambda ev: ev[0].__setitem__(3, ["raise", "MultisourceRouteError"])), "MultisourcePrecisely"),
        (mut(clash_t, lambda ev: ev[0].__setitem__(3, copy.deepcopy(good_t["ev"][0][3]))), "MultisourcePrecisely"),
        (mut(good_t, lambda ev: ev[0].__setitem__(3, ["raise", "KeyError"])), "NoOtherError"),
        # (ii) corrupt a staged key byte / route byte, drop a write, swap two given entries, swap alloc and write
        (mut(good_s, lambda ev: ev[i_w1][4].__setitem__(9, ev[i_w1][4][9] ^ 1)), "StagingRecordsExact"),
        (mut(good_s, lambda ev: ev[i_w1][4].__setitem__(5, ev[i_w1][4][5] ^ 4)), "RouteWordIsSumOfBits"),
        (mut(good_s, lambda ev: ev.__delitem__(i_w1 + 1)), "StagingRecordsExact"),
        (mut(good_s, lambda ev: ev[0][2][0][2].reverse()), "StagingRecordsExact"),
        (mut(good_s, lambda ev: (ev.insert(i_alloc, ev.pop(i_w1)))), "StagingOnAllocatedChip"),
        # wrong base / count / app in the load command, no load command, contents differ from the staged records
        (mut(good_s, lambda ev: ev[i_load].__setitem__(6, 5)), "LoadCommandMatches"),
        (mut(good_s, lambda ev: ev[i_load].__setitem__(3, 2)), "LoadCommandMatches"),
        (mut(good_s, lambda ev: ev[i_load].__setitem__(4, 67)), "LoadCommandMatches"),
        (mut(good_s, lambda ev: ev[i_alloc].__setitem__(3, 2)), "AllocMatches"),
        (mut(good_s, lambda ev: ev.__delitem__(i_load)), "InstalledExactlyGiven"),
        (mut(good_s, lambda ev: ev[i_load][7][-1].__setitem__(1, 0)), "EnvInstallMatchesStaging"),
        (mut(good_s, lambda ev: ev[i_alloc].__setitem__(5, 5)), "EnvAllocSound"),
        # the final state differs: order of two installed entries, owner, an entry outside the block disturbed
        (mut(good_s, lambda ev: [c for c in ev[i_ret][2][0][2] if c[0] == 6][0].__setitem__(1, 2)), "InstalledExactlyGiven"),
        (mut(good_s, lambda ev: [c for c in ev[i_ret][2][0][2] if c[0] == 7][0].__setitem__(7, 67)), "InstalledExactlyGiven"),
        (mut(good_s, lambda ev: [c for c in ev[i_ret][2][0][2] if c[0] == 5][0].__setitem__(1, 8)), "InstalledExactlyGiven"),
        # allocation failed but the call returned / something was installed
        (mut(good_s, lambda ev: (ev[i_alloc].__setitem__(5, 0), ev.__delitem__(slice(i_alloc + 1, i_ret)))),
         "AllocFailureRaisesAndInstallsNothing"),
        (mut(good_s, lambda ev: ev[i_ret].__setitem__(1, "SpiNNakerRouterError")), "RouterErrorOnlyOnAllocFailure"),
        (mut(good_s, lambda ev: ev[i_ret].__setitem__(1, "SCPError")), "NoOtherError"),
        # read-back: a route missing, an entry missing, the router copy disagrees with the router
        (mut(good_s, lambda ev: ev[i_got][3][0][5].pop()), "ReadBackSame"),
        (mut(good_s, lambda ev: ev[i_got][3].pop()), "ReadBackSame"),
        (mut(good_s, lambda ev: ev[i_got].__setitem__(2, 1023)), "ReadBackSame"),
        (mut(good_s, lambda ev: ev[i_got - 1][4].__setitem__(7, 1)), "EnvCopyMatchesRouter"),
        # clearing: wrong app in the command, an entry of another application disappears
        (mut(good_s, lambda ev: ev[i_free].__setitem__(3, 66)), "ClearCommandMatches"),
        (mut(good_s, lambda ev: ev[i_free][4].pop()), "EnvFreeRemovesApp"),
        (mut(good_s, lambda ev: ev[-1][1][1][2].pop()), "FinalContents"),
        (mut(good_s, lambda ev: ev.__delitem__(len(ev) - 2)), "NoCallInFlight"),
    ]
    rej = chk.validate("RouterLoadTrace", "RouterLoadTrace.cfg", [c[0] for c in cases])
    got = {id(t): cl for t, _, cl in rej}
    msgs = []
    for n, (t, want) in enumerate(cases):
        cl = got.get(id(t))
        if (want is None) != (cl is None) or (want and want not in cl):
            msgs.append("case %d: expected %s, got %s" % (n, want, cl))
    return not msgs, "; ".join(msgs) or "%d corrupted traces rejected with the expected clauses" % (len(cases) - 3)
