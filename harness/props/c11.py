"""C11 - hexagonal mesh and torus path functions return true shortest paths.

D: HexDesign.tla (fabric theorems + the walk machine, exhaustive at small sizes).
T: every value returned by rig.geometry / rig.links / longest_dimension_first on the enumerated
   inputs becomes one event judged by GeometryTrace.tla against BFS distance tables.
"""
import itertools
import random

from rig import geometry
from rig.links import Links
from rig.place_and_route import Machine
from rig.place_and_route.route.utils import longest_dimension_first
from rig.place_and_route.route import utils as route_utils

NX2_KEY = "LinkFromVec from_vector on an N x 2 torus (N > 2): the diagonal hop across the two-high seam"
MAXW = 12
MESHN = 14


class Scripted(object):
    """Stands in for the `random` module inside rig.geometry / route.utils so that *every* outcome of
    the random tie-breaks can be enumerated: each call is a choice point with a finite option list."""

    def __init__(self, floats, ends_only=False):
        self.floats = floats
        self.ends_only = ends_only      # randint over a wide range: both ends, their neighbours and the middle only
        self.script = []
        self.pos = 0
        self.widths = []

    def _choose(self, n):
        if self.pos == len(self.script):
            self.script.append(0)
        i = self.script[self.pos]
        if self.pos == len(self.widths):
            self.widths.append(n)
        else:
            self.widths[self.pos] = n
        self.pos += 1
        return i

    def random(self):
        return self.floats[self._choose(len(self.floats))]

    def randint(self, a, b):
        if self.ends_only and b - a > 5:
            opts = (a, a + 1, (a + b) // 2, b - 1, b)
            return opts[self._choose(len(opts))]
        return a + self._choose(b - a + 1)

    # The rest of the random module's surface, so that an implementation that draws its tie-breaks another way
    # (choice, shuffle, sample, ...) is enumerated just the same; anything not listed falls through to the real
    # module (sampled instead of enumerated - never an error of the harness).
    def randrange(self, start, stop=None, step=1):
        if stop is None:
            start, stop = 0, start
        opts = range(start, stop, step)
        return opts[self._choose(len(opts))]

    def choice(self, seq):
        return seq[self._choose(len(seq))]

    def shuffle(self, x):
        for i in reversed(range(1, len(x))):
            j = self._choose(i + 1)
            x[i], x[j] = x[j], x[i]

    def sample(self, population, k):
        pool = list(population)
        out = []
        for _ in range(k):
            out.append(pool.pop(self._choose(len(pool))))
        return out

    def choices(self, population, weights=None, cum_weights=None, k=1):
        return [population[self._choose(len(population))] for _ in range(k)]

    def uniform(self, a, b):
        return a + (b - a) * self.random()

    def getrandbits(self, k):
        if k <= 3:
            return self._choose(2 ** k)
        return (0, 1, 2 ** k - 1, 2 ** (k - 1))[self._choose(4)]

    def seed(self, *a, **k):
        pass

    def __getattr__(self, name):
        return getattr(random, name)

    def outcomes(self, fn):
        """call fn() once for every combination of choices; yields its results"""
        self.script = []
        while True:
            self.pos = 0
            self.widths = []
            yield fn()
            # odometer increment over the choice points actually visited
            self.script = self.script[:self.pos]
            k = self.pos - 1
            while k >= 0 and self.script[k] + 1 >= self.widths[k]:
                k -= 1
            if k < 0:
                return
            self.script = self.script[:k] + [self.script[k] + 1]


def xyz_forms(x, y, rng):
    """three three-axis representations of the 2-D coordinate (x, y)"""
    k = rng.randint(1, 3)
    return [(x, y, 0), (x + k, y + k, k), (x - k, y - k, -k)]


def run(chk):
    rng = random.Random(chk.seed)
    full = chk.pick(5, 8)        # every source/destination pair for W, H <= full
    maxw = chk.pick(9, 12)       # sampled sources beyond
    nsrc = chk.pick(3, 10)
    seeds = chk.pick(3, 12)      # random tie-break seeds per pair

    # thin tori, where a shortest vector may spiral around the short axis
    thin = [(12, 3), (3, 12), (12, 4), (4, 11), (10, 1), (1, 9), (11, 2), (2, 12), (12, 5)]
    if not chk.quick:
        thin += [(a, b) for a in range(6, 13) for b in range(1, 5)] + [(b, a) for a in range(6, 13) for b in range(1, 5)]
    scr2 = Scripted([0.0, 0.5])
    scr3 = Scripted([0.0, 0.3, 0.6])
    # random.random() comes arbitrarily close to 1: on the smallest tori the far end of its range is an outcome too
    scr2x = Scripted([0.0, 0.5, 1.0 - 2.0 ** -20])

    scr2e = Scripted([0.0, 0.5], ends_only=True)

    # tori beyond the distance tables ("all torus sizes"): real machine sizes, the largest addressable one, very
    # thin ones; judged by the least mesh distance to an image of the destination (TorusCover), sampled pairs
    # that include the seams and the half-way offsets where the four wrap cases meet
    bigsizes = [(13, 7), (24, 12), (48, 24), (96, 60), (255, 256), (256, 255), (256, 256), (256, 1), (1, 200),
                (2, 256), (100, 3), (40, 2), (17, 16)]
    if chk.quick:
        bigsizes = bigsizes[:3] + rng.sample(bigsizes[3:], 6)
    # "all torus sizes" does not stop at what a P2P address can name: tori more than 256 chips across, swept from one
    # source to EVERY chip in one process (offsets that differ only beyond the eighth bit of a coordinate all occur,
    # one after the other - round-6 seed torus-path-memo-p2p-key files its memo under (dx << 8) | dy)
    sweeps = chk.pick([(3, 260)], [(3, 260), (2, 300), (260, 3), (300, 2)])
    bigsizes = bigsizes + sweeps

    def big_points(w, h):
        xs = set(c % w for c in (0, 1, w - 1, w // 2, (w + 1) // 2, w // 2 - 1, rng.randrange(w), rng.randrange(w)))
        ys = set(c % h for c in (0, 1, h - 1, h // 2, (h + 1) // 2, h // 2 - 1, rng.randrange(h), rng.randrange(h)))
        return [(x, y) for x in sorted(xs) for y in sorted(ys)]

    chk.design("HexDesign", "HexDesign_%s.cfg" % chk.tier, expect_actions=("Step",))

    traces = []
    CH = 400

    def flush(w, h, evs):
        for i in range(0, len(evs), CH):
            traces.append(dict(w=w, h=h, ev=evs[i:i + CH]))

    # ---- torus functions
    sizes = [(w, h) for w in range(1, maxw + 1) for h in range(1, maxw + 1)]
    sizes += [wh for wh in thin if wh not in sizes]
    sizes += bigsizes
    for (w, h) in sizes:
        if True:
            evs = []
            isbig = w > MAXW or h > MAXW
            if isbig:
                pts = big_points(w, h)
                srcs = rng.sample(pts, 3)
                chips = None
                if (w, h) in sweeps:
                    srcs = srcs[:1]
            else:
                chips = [(x, y) for x in range(w) for y in range(h)]
            if isbig:
                pass
            elif (w <= full and h <= full) or ((w, h) in thin and chk.quick is False):
                srcs = chips
            elif (w, h) in thin:
                srcs = rng.sample(chips, min(2 * nsrc, len(chips)))
            else:
                srcs = rng.sample(chips, min(nsrc, len(chips)))
            for s in srcs:
                if isbig:
                    dests = rng.sample(pts, min(len(pts), 7))
                    dests += [((s[0] + w // 2 + rng.randint(-1, 1)) % w, (s[1] + h // 2 + rng.randint(-1, 1)) % h)
                              for _ in range(3)]
                    dests += [((s[0] + dx_) % w, (s[1] + dy_) % h) for dx_, dy_ in ((1, 1), (-1, -1), (-1, 0), (0, -1))]
                    if (w, h) in sweeps:
                        dests = [(x_, y_) for x_ in range(w) for y_ in range(h)]
                else:
                    dests = chips
                for d in dests:
                    sf = xyz_forms(s[0], s[1], rng)
                    df = xyz_forms(d[0], d[1], rng)
                    for rep in range(3):
                        S, D = sf[rep], df[(rep + (s[0] + d[1])) % 3]
                        n = geometry.shortest_torus_path_length(S, D, w, h)
                        evs.append(["tlen", list(S), list(D), int(n)])
                        vecs = set()
                        if (w <= full and h <= full) or (w, h) in thin or (s == srcs[0] and rep == 0):
                            # every outcome of the tie-breaks (which minimal wrap, how many spirals); beyond the
                            # fully enumerated sizes for one source and representation (every offset of the torus)
                            scr = scr2x if w * h <= 9 else scr2e if isbig else scr2
                            geometry.random = scr
                            try:
                                for v in scr.outcomes(lambda: geometry.shortest_torus_path(S, D, w, h)):
                                    vecs.add(tuple(int(c) for c in v))
                            finally:
                                geometry.random = random
                            chk.count("pairs with all tie-break outcomes enumerated")
                        else:
                            for k in range(seeds):
                                random.seed(chk.seed * 1000 + k)
                                v = geometry.shortest_torus_path(S, D, w, h)
                                vecs.add(tuple(int(c) for c in v))
                        for v in sorted(vecs):
                            evs.append(["tvec", list(S), list(D), list(v)])
                            chk.note_case(("tvec", w, h, S, D, v), nontrivial=(s != d))
                            # walk it
                            paths = set()
                            if w <= 4 and h <= 4:
                                route_utils.random = scr3
                                try:
                                    for p in scr3.outcomes(lambda: longest_dimension_first(v, s, w, h)):
                                        paths.add(tuple((int(dr), int(x), int(y)) for dr, (x, y) in p))
                                finally:
                                    route_utils.random = random
                            else:
                                for k in range(2):
                                    random.seed(chk.seed * 77 + k)
                                    p = longest_dimension_first(v, s, w, h)
                                    paths.add(tuple((int(dr), int(x), int(y)) for dr, (x, y) in p))
                            for p in sorted(paths):
                                evs.append(["ldf", list(v), list(s), w, h, [list(q) for q in p]])
                        chk.note_case(("tlen", w, h, S, D), nontrivial=(s != d))
            # from_vector on raw neighbour differences, on every torus incl. the thin ones ("all torus sizes including
            # width or height 1 and 2"; on 2 x N / N x 2 any link that leads to that neighbour will do - the clause
            # compares where the links lead, not which link it is).  A link that leads back to the chip itself
            # (width or height 1) gives the zero vector, which names no direction: left out.
            if w * h > 1:
                for (x, y) in srcs:
                    for l in Links:
                        dx, dy = l.to_vector()
                        nx, ny = (x + dx) % w, (y + dy) % h
                        if (nx, ny) == (x, y):
                            continue
                        # (one event per trace on the tori of the known finding, so that a rejection there does
                        # not end the judging of anything else)
                        fv = [] if (h == 2 and w >= 3) else evs
                        try:
                            r = Links.from_vector((nx - x, ny - y))
                        except Exception as ex:          # judged by the specification
                            fv.append(["raise", "from_vector", [nx - x, ny - y], type(ex).__name__])
                        else:
                            fv.append(["fromvec", x, y, int(l), int(r)])
                            chk.note_case(("fromvec", w, h, x, y, int(l)))
                        if fv is not evs:
                            flush(w, h, fv)
            # working links between a chip and each of its neighbours (and a non-neighbour), with some links dead
            if w * h > 1:
                dead = set()
                for _ in range(rng.randint(0, 4)):
                    dead.add((rng.randrange(w), rng.randrange(h), Links(rng.randrange(6))))
                # ... some of them on the very chips asked about, at either end of a hop (a dead link is dead at
                # the chip it leaves from, and only there)
                for (x, y) in srcs[:4]:
                    if rng.random() < 0.6:
                        l = Links(rng.randrange(6))
                        dx, dy = l.to_vector()
                        dead.add(rng.choice(((x, y, l), ((x + dx) % w, (y + dy) % h, l.opposite), (x, y, l.opposite))))
                mach = Machine(w, h, dead_links=dead)
                for (x, y) in srcs[:4]:
                    others = set(((x + dx) % w, (y + dy) % h) for dx, dy in ((1, 0), (1, 1), (0, 1), (-1, 0), (-1, -1), (0, -1)))
                    others.add((rng.randrange(w), rng.randrange(h)))
                    for (bx, by) in sorted(others):
                        try:
                            r = route_utils.links_between((x, y), (bx, by), mach)
                        except Exception as ex:
                            evs.append(["raise", "links_between", [x, y, bx, by], type(ex).__name__])
                            continue
                        evs.append(["lb", x, y, bx, by, sorted([dx_, dy_, int(dl)] for dx_, dy_, dl in dead),
                                    sorted(int(v) for v in r)])
                        chk.note_case(("lb", w, h, x, y, bx, by, tuple(sorted(dead))))
            flush(w, h, evs)

    # ---- mesh functions, minimise_xyz, unwrapped walks, link table, hexagons
    evs = []
    # far out in the mesh (coordinates are unbounded integers): numbers travel as <<hi, lo>> = hi * 2^30 + lo
    big = lambda n: [n >> 30, n & ((1 << 30) - 1)]
    for _ in range(chk.pick(300, 3000)):
        base = rng.choice((2 ** 31, 2 ** 53, 2 ** 53 + 1, 2 ** 55 + 3, 2 ** 56 - 1))
        S = tuple(rng.choice((0, 1, -1, base, -base, base // 2 + 1)) + rng.randint(-9, 9) for _ in range(3))
        D = tuple(rng.choice((0, 1, -1, base, -base, base // 2 + 1)) + rng.randint(-9, 9) for _ in range(3))
        try:
            n = geometry.shortest_mesh_path_length(S, D)
            n = int(n) if n == int(n) else -1
            if not -2 ** 60 < n < 2 ** 60:     # (no answer of this size is right for coordinates below 2^56 + 10)
                n = -1
        except Exception as ex:          # judged by the specification
            evs.append(["raise", "shortest_mesh_path_length", [], type(ex).__name__])
            continue
        evs.append(["mlenbig", [big(c) for c in S], [big(c) for c in D], big(n)])
        chk.note_case(("meshbig", S, D))
    R = chk.pick(6, 10)
    for dx in range(-R, R + 1):
        for dy in range(-R, R + 1):
            s2 = (rng.randint(-3, 3), rng.randint(-3, 3))
            d2 = (s2[0] + dx, s2[1] + dy)
            for S in xyz_forms(s2[0], s2[1], rng)[:2]:
                for D in xyz_forms(d2[0], d2[1], rng)[1:]:
                    n = geometry.shortest_mesh_path_length(S, D)
                    evs.append(["mlen", list(S), list(D), int(n)])
                    v = tuple(int(c) for c in geometry.shortest_mesh_path(S, D))
                    evs.append(["mvec", list(S), list(D), list(v)])
                    chk.note_case(("mesh", S, D), nontrivial=(dx, dy) != (0, 0))
            for k in (0, 1, -2, 5):
                v = (dx + k, dy + k, k)
                r = tuple(int(c) for c in geometry.minimise_xyz(v))
                evs.append(["min", list(v), list(r)])
                chk.note_case(("min", v))
            # unwrapped / half-wrapped walks of arbitrary (not necessarily minimal) vectors
            if abs(dx) <= 4 and abs(dy) <= 4:
                for z in (0, 1, -3):
                    v = (dx, dy, z)
                    for (ww, wh) in ((None, None), (5, None), (None, 3), (4, 7)):
                        random.seed(chk.seed + z)
                        p = longest_dimension_first(v, (2, 1), ww, wh)
                        evs.append(["ldf", list(v), [2, 1], ww or 0, wh or 0,
                                    [[int(a), int(b[0]), int(b[1])] for a, b in p]])
                        chk.note_case(("ldf", v, ww, wh), nontrivial=any(v))
    for l in Links:
        vx, vy = l.to_vector()
        evs.append(["link", int(l), int(vx), int(vy), int(l.opposite),
                    int(Links.from_vector(l.to_vector()))])
        chk.note_case(("link", int(l)))
    for r in range(0, chk.pick(7, 11)):
        for start in ((0, 0), (3, -2)):
            # an earlier caller that stopped part-way round the outermost ring (a search that found what it wanted)
            # must not change what later callers get
            if r > 0 and start == (0, 0):
                inner = 1 + 3 * r * (r - 1)
                g = geometry.concentric_hexagons(r, (rng.randint(-2, 2), 1))
                for _ in range(inner + rng.randint(1, max(1, 6 * r - 1))):
                    next(g, None)
                del g
            seq = [[int(x), int(y)] for x, y in geometry.concentric_hexagons(r, start)]
            evs.append(["hex", r, start[0], start[1], seq])
            chk.note_case(("hex", r, start), nontrivial=r > 0)
    # ---- the callers' other ways of asking (defaults left out, keywords), two generators alive at once, large radii
    for _ in range(chk.pick(40, 300)):
        v = tuple(rng.randint(-5, 5) if rng.random() < 0.8 else 0 for _ in range(3))
        random.seed(chk.seed + _)
        how = rng.randrange(4)
        try:
            if how == 0:
                p, st, ww, wh = longest_dimension_first(v), (0, 0), None, None
            elif how == 1:
                ww, wh = rng.choice(((7, 5), (None, 4), (6, None), (2, 3), (1, 4), (300, 2), (3, 1)))
                p, st = longest_dimension_first(v, width=ww, height=wh), (0, 0)
            elif how == 2:
                ww, wh = rng.choice(((255, 256), (256, 13), (48, 24), (13, 256), (1000, 999)))
                st = (rng.choice((0, 1, ww - 1, ww - 2, ww // 2)), rng.choice((0, 1, wh - 1, wh - 2, wh // 2)))
                p = longest_dimension_first(vector=v, start=st, height=wh, width=ww)
            else:
                st = (rng.randint(-40000, 40000), rng.randint(-300, 300))
                ww, wh = None, None
                p = longest_dimension_first(v, start=st)
        except Exception as ex:          # judged by the specification
            evs.append(["raise", "longest_dimension_first", list(v), type(ex).__name__])
            continue
        evs.append(["ldf", list(v), list(st), ww or 0, wh or 0, [[int(a), int(b[0]), int(b[1])] for a, b in p]])
        chk.note_case(("ldf-call", how, v, st, ww, wh), nontrivial=any(v))
    for r in (0, 1, 2, 3, 5) + chk.pick((rng.choice((8, 9, 10, 11)), rng.choice((12, 13)), 14), tuple(range(7, 15))):
        far = (rng.choice((-1, 1)) * rng.randint(200, 2 ** 29), rng.choice((-1, 1)) * rng.randint(200, 2 ** 29))
        try:
            runs = [((0, 0), list(geometry.concentric_hexagons(r))),
                    (far, list(geometry.concentric_hexagons(start=far, radius=r)))]
            # two callers taking turns (and a third, of another radius, in between)
            sa, sb = (rng.randint(-9, 9), rng.randint(-9, 9)), (rng.randint(-9, 9), rng.randint(-9, 9))
            ga, gb = geometry.concentric_hexagons(r, sa), geometry.concentric_hexagons(r, sb)
            gc = geometry.concentric_hexagons(r + 1, (5, 5))
            la, lb_ = [], []
            live = [(ga, la), (gb, lb_), (gc, [])]
            while live:
                g, out = live[rng.randrange(len(live))]
                for _ in range(rng.randint(1, 4)):
                    try:
                        out.append(next(g))
                    except StopIteration:
                        live = [gl for gl in live if gl[0] is not g]
                        break
            runs += [(sa, la), (sb, lb_)]
        except Exception as ex:          # judged by the specification
            evs.append(["raise", "concentric_hexagons", [r], type(ex).__name__])
            continue
        for st, seq in runs:
            evs.append(["hex", r, st[0], st[1], [[int(x), int(y)] for x, y in seq]])
            chk.note_case(("hex-call", r, st), nontrivial=r > 0)
    # ---- vectors far out in the mesh (as the lengths above): shortest_mesh_path and minimise_xyz
    for _ in range(chk.pick(150, 1500)):
        base = rng.choice((2 ** 8, 2 ** 16, 2 ** 31, 2 ** 53, 2 ** 53 + 1, 2 ** 55 + 3, 2 ** 56 - 1))
        S = tuple(rng.choice((0, 1, -1, base, -base, base // 2 + 1)) + rng.randint(-9, 9) for _ in range(3))
        D = tuple(rng.choice((0, 1, -1, base, -base, base // 2 + 1)) + rng.randint(-9, 9) for _ in range(3))
        for name, fn, S_ in (("shortest_mesh_path", lambda: geometry.shortest_mesh_path(S, D), S),
                             ("minimise_xyz", lambda: geometry.minimise_xyz(D), (0, 0, 0))):
            try:
                v = fn()
                v = tuple(int(c) if c == int(c) and -2 ** 59 < c < 2 ** 59 else 2 ** 59 for c in v)
            except Exception as ex:          # judged by the specification
                evs.append(["raise", name, [], type(ex).__name__])
                continue
            evs.append(["mvecbig", [big(c) for c in S_], [big(c) for c in D], [big(c) for c in v]])
            chk.note_case(("mvecbig", name, S_, D))
    flush(0, 0, evs)

    # ---- three-axis representations far from the canonical one: the same chip written with a very large third
    # coordinate.  The trace carries the chip as (x, y, 0) when the numbers given to rig are beyond TLC's integers
    # (the representation is the driver's own construction from (x, y), not something read back from rig).
    farsizes = [wh for wh in sizes if wh[0] * wh[1] > 1]
    for (w, h) in rng.sample(farsizes, chk.pick(40, len(farsizes))):
        evs = []
        for _ in range(4):
            s = (rng.randrange(w), rng.randrange(h))
            d = (rng.randrange(w), rng.randrange(h))
            ks = [rng.choice((1, -1)) * rng.choice((w, h, w * h + 1, 255, 1000, 2 ** 31 + 5, 2 ** 53 + 1, 2 ** 64 + 3))
                  for _ in range(2)]
            S = (s[0] + ks[0], s[1] + ks[0], ks[0])
            D = (d[0] + ks[1], d[1] + ks[1], ks[1])
            small = all(abs(k) < 2 ** 20 for k in ks)
            rS, rD = (list(S), list(D)) if small else ([s[0], s[1], 0], [d[0], d[1], 0])
            clamp = lambda c: int(c) if c == int(c) and abs(c) < 2 ** 28 else 2 ** 28
            try:
                n = geometry.shortest_torus_path_length(S, D, w, h)
                evs.append(["tlen", rS, rD, clamp(n)])
                random.seed(chk.seed + _)
                v = geometry.shortest_torus_path(S, D, w, h)
                evs.append(["tvec", rS, rD, [clamp(c) for c in v]])
                if w <= MESHN and h <= MESHN:       # (the mesh tables end there)
                    n = geometry.shortest_mesh_path_length(S, D)
                    evs.append(["mlen", rS, rD, clamp(n)])
                    v = geometry.shortest_mesh_path(S, D)
                    evs.append(["mvec", rS, rD, [clamp(c) for c in v]])
            except Exception as ex:          # judged by the specification
                evs.append(["raise", "far representation", [], type(ex).__name__])
            chk.note_case(("far-rep", w, h, S, D), nontrivial=s != d)
        flush(w, h, evs)

    chk.rule = ("torus: every (source, destination) pair for W,H<=%d and %d sampled sources per size up "
                "to %d, three three-axis representations each, %d tie-break seeds; mesh offsets within "
                "+-%d; a case is non-trivial when source != destination (vector/radius non-zero); "
                "distinct = distinct (function, arguments, result)" % (full, nsrc, maxw, seeds, R))
    chk.exhaustive = False
    chk.extra["exhaustive_subdomain"] = "all source/destination pairs of all tori up to %dx%d" % (full, full)
    for t in traces[:2] + traces[-1:]:
        chk.sample(dict(w=t["w"], h=t["h"], ev=t["ev"][:3] + t["ev"][-2:]))

    def key_of(tr, l, clauses):
        e = tr["ev"][l - 1]
        if (e[0] == "fromvec" and clauses == ["LinkFromVec"] and tr["h"] == 2 and tr["w"] >= 3 and
                e[3] in (int(Links.north_east), int(Links.south_west)) and e[4] in (int(Links.north_east), int(Links.south_west))):
            return NX2_KEY
        return "%s %s w=%s h=%s %s" % (e[0], ",".join(clauses), tr["w"], tr["h"], e[1:4])

    chk.validate("GeometryTrace", "GeometryTrace.cfg", traces, key_of=key_of, batch=chk.pick(2500, 500), heap=chk.pick("6g", "10g"))


def selftest(chk):
    """Binding demonstration: corrupted, dropped and swapped fields must be rejected."""
    good = [["tlen", [0, 0, 0], [2, 1, 0], 2], ["tvec", [0, 0, 0], [2, 1, 0], [1, 0, -1]],
            ["ldf", [1, 0, -1], [0, 0], 3, 3, [[0, 1, 0], [1, 2, 1]]],
            ["hex", 1, 0, 0, [[0, 0], [0, -1], [1, 0], [1, 1], [0, 1], [-1, 0], [-1, -1]]],
            ["link", 1, 1, 1, 4, 1]]
    cases = [
        (dict(w=3, h=3, ev=good), None),
        (dict(w=3, h=3, ev=[["tlen", [0, 0, 0], [2, 1, 0], 1]]), "LenIsDist"),          # corrupted result
        (dict(w=3, h=3, ev=[["tvec", [0, 0, 0], [2, 1, 0], [2, 1, 0]]]), "VectorMinimal"),  # lands, too long
        (dict(w=3, h=3, ev=[["tvec", [0, 0, 0], [2, 1, 0], [0, 1, 0]]]), "VectorLands"),
        (dict(w=3, h=3, ev=[["ldf", [1, 0, -1], [0, 0], 3, 3, [[1, 2, 1], [0, 1, 0]]]]), "PathLabels"),  # swapped
        (dict(w=3, h=3, ev=[["ldf", [1, 0, -1], [0, 0], 3, 3, [[0, 1, 0]]]]), "PathLength"),          # dropped
        (dict(w=3, h=3, ev=[["hex", 1, 0, 0, [[0, 0], [0, -1], [1, 0], [1, 1], [0, 1], [-1, 0]]]]), "RingsComplete"),
        (dict(w=3, h=3, ev=[["hex", 1, 0, 0, [[0, -1], [0, 0], [1, 0], [1, 1], [0, 1], [-1, 0], [-1, -1]]]]),
         "RingsNearestFirst"),
        (dict(w=3, h=3, ev=[["link", 1, 1, 1, 3, 1]]), "LinkOpposite"),
    ]
    rej = chk.validate("GeometryTrace", "GeometryTrace.cfg", [c[0] for c in cases])
    got = {id(t): cl for t, _, cl in rej}
    msgs = []
    ok = True
    for tr, want in cases:
        cl = got.get(id(tr))
        if want is None and cl is not None:
            ok = False
            msgs.append("good trace rejected: %s" % cl)
        if want is not None and (cl is None or want not in cl):
            ok = False
            msgs.append("expected %s, got %s" % (want, cl))
    return ok, "; ".join(msgs) or "%d corrupted traces rejected with the expected clauses" % (len(cases) - 1)
