"""Struct files (rig.machine_control.struct_file) - beyond the listed properties: StructFile.tla / StructFileDesign.tla /
StructFileTrace.tla.  Hosted by the C20 check (booting packs the `sv` struct of the bundled sark.struct).

One trace = one struct-file text read by rig's read_struct_file and a history of calls (update_default_values, pack,
item look-ups, deep copies, further reads of the same text) on the Struct objects that came out of it.

No oracle here: the driver writes texts from a plan, makes the calls and copies what rig answered (numbers as 8
little-endian bytes, byte strings as lists of byte codes).  What a text means, which texts no reader may accept and
what pack() must return is decided by TLC from StructFile.tla.
"""
import concurrent.futures
import copy
import os
import random
import re

from rig.machine_control import struct_file

from ..core import MachineryError, RIG_ROOT

M64 = (1 << 64) - 1
RANGE = {"c": (-128, 127), "C": (0, 255), "v": (0, 65535), "V": (0, 0xffffffff)}
# fields of the bundled file wider than a byte (used only to pick option values that fit)
SARK_WIDE = {"led0": "V", "led1": "V", "random": "V", "iobuf_size": "V", "sdram_heap": "V", "cpu_clk": "v",
             "mem_clk": "v", "p2p_dims": "v", "r0": "V", "r7": "V", "sw_line": "V", "user0": "V", "sw_count": "v"}


# ---------------------------------------------------------------------------------- mechanical encodings
def b8(v):
    return list((int(v) & M64).to_bytes(8, "little")) if isinstance(v, int) else [-1]


def codes(s):
    if isinstance(s, str):
        s = s.encode("latin-1")
    return list(bytearray(s)) if isinstance(s, (bytes, bytearray)) else [-1]


def proj(s):
    fields = [[codes(k), codes(f.pack_chars), b8(f.offset), codes(f.printf), b8(f.default), b8(f.length)]
              for k, f in s.fields.items()]
    return [codes(s.name), b8(s.size), b8(s.base), sorted(fields)]


def outcome_of(f):
    try:
        return ["ok"] + f()
    except Exception as ex:                   # judged by the specification
        return ["raise", type(ex).__name__]


# ---------------------------------------------------------------------------------- the calls
class Session(object):
    """The objects of one text, in the order they came to exist; every call is recorded as an event."""

    def __init__(self, text, label, bundled=0, glossary=()):
        self.text, self.objs, self.ev = bytes(text), [], []
        self.trace = dict(label=label, text=list(bytearray(text)), bundled=bundled,
                          glossary=[list(g) for g in glossary], ev=self.ev)

    def all(self):
        return [proj(o) for o in self.objs]

    def read(self, kind="parse"):
        def f():
            structs = struct_file.read_struct_file(self.text)
            self.objs += [structs[k] for k in sorted(structs)]
            return []
        self.ev.append([kind, outcome_of(f), self.all()])
        return self.ev[-1][1][0] == "ok"

    def copy(self, o):
        def f():
            self.objs.append(copy.deepcopy(self.objs[o]))
            return []
        self.ev.append(["copy", o + 1, outcome_of(f), self.all()])

    def update(self, o, kw):
        def f():
            self.objs[o].update_default_values(**kw)
            return []
        self.ev.append(["update", o + 1, [[codes(k), b8(v)] for k, v in sorted(kw.items())], outcome_of(f), self.all()])

    def pack(self, o):
        self.ev.append(["pack", o + 1, outcome_of(lambda: [list(bytearray(self.objs[o].pack()))]), self.all()])

    def getitem(self, o, name):
        def f():
            fld = self.objs[o][name]
            return [[codes(name), codes(fld.pack_chars), b8(fld.offset), codes(fld.printf), b8(fld.default),
                     b8(fld.length)]]
        self.ev.append(["getitem", o + 1, codes(name), outcome_of(f), self.all()])

    def contains(self, o, name):
        self.ev.append(["contains", o + 1, codes(name), [int(name in self.objs[o])], self.all()])

    def extras(self, o):
        """len() / keys(): only where the class offers them (this rig's Struct does not)."""
        cls = type(self.objs[o])
        if hasattr(cls, "__len__"):
            self.ev.append(["len", o + 1, [len(self.objs[o])], self.all()])
        if hasattr(cls, "keys") or hasattr(cls, "__iter__"):
            names = list(self.objs[o].keys()) if hasattr(cls, "keys") else list(self.objs[o])
            self.ev.append(["keys", o + 1, [codes(n) for n in names], self.all()])


def value_for(rng, letter):
    lo, hi = RANGE.get(letter, (0, 127))
    return rng.choice((lo, hi, rng.randint(lo, hi), rng.randint(lo, hi), rng.randint(0, min(hi, 127))))


def history(ses, rng, nsteps, letters):
    """Random calls on the objects of a session.  letters: field name (str) -> Perl pack letter, where the writer of
    the text knows it (a value is only ever chosen inside the field's range; strings are left alone)."""
    for _ in range(nsteps):
        o = rng.randrange(len(ses.objs))
        names = sorted(k.decode("latin-1") for k in ses.objs[o].fields)
        usable = [n for n in names if letters.get(n) != "A"]
        op = rng.choice(("update", "update", "update", "pack", "pack", "copy", "reparse", "getitem", "contains", "extras"))
        if op == "update":
            kw = {n: value_for(rng, letters.get(n, "?"))
                  for n in rng.sample(usable, min(len(usable), rng.choice((1, 1, 2, 3))))}
            if rng.random() < 0.15 or not kw:
                kw[rng.choice(("nosuch", "__missing"))] = 1
            ses.update(o, kw)
        elif op == "pack":
            ses.pack(o)
        elif op == "copy" and len(ses.objs) < 6:
            ses.copy(o)
        elif op == "reparse" and len(ses.objs) < 6:
            ses.read("reparse")
        elif op == "getitem":
            ses.getitem(o, rng.choice(names + ["nosuch"]).encode("latin-1") if names else b"nosuch")
        elif op == "contains":
            ses.contains(o, rng.choice(names + ["nosuch"]).encode("latin-1") if names else b"nosuch")
        else:
            ses.extras(o)
    for o in range(len(ses.objs)):           # every object is packed at the end: nothing an earlier call did to
        ses.pack(o)                          # another object may show


# ---------------------------------------------------------------------------------- texts from a plan
def number(rng, v, hexy=None):
    if v < 0:
        return "%d" % v
    form = rng.choice(("d", "d", "x", "X", "0x")) if hexy is None else hexy
    return {"d": "%d" % v, "x": "0x%x" % v, "X": "0X%X" % v, "0x": "0x%0*x" % (rng.choice((2, 4, 8)), v)}[form]


def ident(rng, taken):
    while True:
        n = rng.choice("abcdefghijklmnopqrstuvwxyzABCXYZ_") + "".join(
            rng.choice("abcdefghijklmnopqrstuvwxyz0123456789_") for _ in range(rng.randint(0, 9)))
        if n not in taken and n != "nosuch":
            taken.add(n)
            return n


def plan_struct(rng, taken, strings=True):
    """A struct whose fields neither overlap nor stick out: [name, size, base, fields], a field being
    dict(name, letter, count, length, offset, printf, default)."""
    fields, off = [], 0
    for _ in range(rng.choice((0, 1, 2, 3, 4, 6, 9))):
        letter = rng.choice("cCvV" * 6 + ("A" if strings else ""))
        width = {"c": 1, "C": 1, "v": 2, "V": 4, "A": 1}[letter]
        length = rng.choice((1, 1, 1, 1, 1, 2, 3, 5))
        count = 1
        if letter == "A":
            count = rng.choice((1, 4, 16))
            width, length = count, rng.choice((1, count))
        off += rng.choice((0, 0, 0, 1, 2, 3, 8))
        name = ident(rng, taken)
        if length == 1 and rng.random() < 0.1:
            name += "." + ident(rng, set())
        lo, hi = RANGE.get(letter, (0, 0))
        fields.append(dict(name=name, letter=letter, count=count, length=length, offset=off,
                           printf=rng.choice(("%d", "%02x", "%08x", "%04X", "%s", "%u")),
                           default=rng.choice((0, 0, lo, hi, rng.randint(lo, hi)))))
        off += width * length
    return dict(name=ident(rng, taken), size=off + rng.choice((0, 0, 1, 4, 16)),
                base=rng.choice((0, 0x60, 0xf5007f00, 0xe5007000, rng.getrandbits(32))), fields=fields)


def render(rng, structs):
    """The plan as text, with all the freedom of the format: blank lines, comments, tabs, either line ending."""
    gap = lambda: rng.choice((" ", "  ", "\t", " \t ", "    "))
    note = lambda: rng.choice(("", "", "", " # " + rng.choice(("spare", "x = 3", "a b c d e", "# again", "name = no", "0x", ""))))
    lines = []
    for s in structs:
        lines += rng.choice(([], [""], ["#" + "-" * rng.randint(0, 30)], ["  # struct " + s["name"], ""]))
        head = [("size", number(rng, s["size"])), ("base", number(rng, s["base"]))]
        rng.shuffle(head)
        body = []
        for f in (rng.sample(s["fields"], len(s["fields"])) if rng.random() < 0.3 else s["fields"]):
            pack = f["letter"] + (str(f["count"]) if f["letter"] == "A" and (f["count"] > 1 or rng.random() < 0.5) else "")
            name = f["name"] + ("[%d]" % f["length"] if f["length"] > 1 or (rng.random() < 0.05 and "." not in f["name"]) else "")
            body.append(rng.choice(("", "", " ", "\t")) + gap().join(
                (name, pack, number(rng, f["offset"]), f["printf"], number(rng, f["default"]))) + note())
            if rng.random() < 0.15:
                body.append(rng.choice(("", "   ", "# " + name, "\t#")))
        late = head if rng.random() < 0.1 else []          # size and base after the fields
        for k, v in [("name", s["name"])] + (head if not late else []):
            lines.append(rng.choice(("", " ")) + k + gap() + "=" + gap() + v + note())
        lines += body
        for k, v in late:
            lines.append(k + gap() + "=" + gap() + v)
    eol = rng.choice(("\n", "\n", "\n", "\r\n"))
    return (eol.join(lines) + rng.choice(("", eol, eol + eol))).encode("latin-1")


def letters_of(structs):
    return {f["name"]: f["letter"] for s in structs for f in s["fields"]}


def generated(rng, nsteps, strings=True):
    taken = set()
    structs = [plan_struct(rng, taken, strings and rng.random() < 0.3) for _ in range(rng.choice((1, 1, 2, 3)))]
    ses = Session(render(rng, structs), "generated")
    if ses.read():
        history(ses, rng, nsteps, letters_of(structs))
    return ses.trace


def small_scope():
    """Every pack letter x offset x default x way of writing the number x array or not, in a struct of 16 bytes:
    read, pack, give the field another value, pack."""
    out = []
    rng = random.Random(0)
    for letter in "cCvV":
        lo, hi = RANGE[letter]
        for off in (0, 1, 4):
            for default in (0, hi, lo if lo else hi // 2 + 3):
                for form in ("d", "X"):
                    for length in (1, 2):
                        text = "name = t\nsize = 16\nbase = 0x10\nf%s %s %s %%d %s\ng C 0xf %%d 7\n" % (
                            "[2]" if length == 2 else "", letter, number(rng, off, form), number(rng, default, form))
                        ses = Session(text.encode(), "small")
                        if ses.read():
                            ses.pack(0)
                            ses.update(0, {"f": hi - 1 if default != hi - 1 else 1})
                            ses.pack(0)
                            ses.update(0, {"g": 255, "f": default})
                            ses.pack(0)
                        out.append(ses.trace)
    return out


# ---------------------------------------------------------------------------------- texts no reader may accept
BAD_NUMBERS = ("0x", "12z", "zz", "1.5", "ff", "0xg1", "0x1g", "1e3", "0X", "3,4")
BAD_PACKS = ("Q", "x", "n", "N", "a", "s", "H", "L", "q", "Z2", "%", "_", "b", "I")
GARBAGE = ("oops", "two words", "four words on line", "a b c d e f", "a b c d e f g", "name =", "= sv", "size 3")
MALFORMATIONS = ("field first", "header first", "no size", "no base", "garbage", "unknown key", "pack letter",
                 "bad size", "bad offset", "bad default")


def malformed(rng, kind):
    """A good text with one thing wrong (chosen on the plan, not by reading the text back)."""
    taken = set()
    structs = [plan_struct(rng, taken, False) for _ in range(rng.choice((1, 2, 3)))]
    for s in structs:
        if not s["fields"]:
            s["fields"].append(dict(name="f", letter="C", count=1, length=1, offset=0, printf="%d", default=1))
            s["size"] += 1
    lines = render(rng, structs).decode("latin-1").replace("\r\n", "\n").split("\n")
    is_field = lambda l: len(l.split("#")[0].split()) == 5
    is_key = lambda l, k: l.split("#")[0].split()[:2] == [k, "="]
    where = lambda p: [i for i, l in enumerate(lines) if p(l)]

    def retoken(i, k, new):
        toks = lines[i].split("#")[0].split()
        toks[k] = new
        lines[i] = " ".join(toks)
    if kind == "field first":
        lines.insert(rng.choice([0, where(lambda l: is_key(l, "name"))[0]]), "early C 0 %d 0")
    elif kind == "header first":
        lines.insert(where(lambda l: is_key(l, "name"))[0], rng.choice(("size = 4", "base = 0x40")))
    elif kind in ("no size", "no base"):
        del lines[rng.choice(where(lambda l: is_key(l, kind[3:])))]
    elif kind == "garbage":
        lines.insert(rng.randrange(len(lines) + 1), rng.choice(GARBAGE))
    elif kind == "unknown key":
        lines.insert(rng.randrange(len(lines) + 1), rng.choice(("foo = 3", "length = 0x10", "x C 0", "Name = sv")))
    elif kind == "pack letter":
        retoken(rng.choice(where(is_field)), 1, rng.choice(BAD_PACKS))
    elif kind == "bad size":
        retoken(rng.choice(where(lambda l: is_key(l, "size") or is_key(l, "base"))), 2, rng.choice(BAD_NUMBERS))
    elif kind == "bad offset":
        retoken(rng.choice(where(is_field)), 2, rng.choice(BAD_NUMBERS))
    elif kind == "bad default":
        retoken(rng.choice(where(is_field)), 4, rng.choice(BAD_NUMBERS))
    else:
        raise MachineryError(kind)
    ses = Session("\n".join(lines).encode("latin-1"), "malformed: " + kind)
    if ses.read():                       # (judged; if it was accepted the objects are exercised all the same)
        history(ses, rng, 2, {})
    return ses.trace


# ---------------------------------------------------------------------------------- the files rig ships
def shipped_files():
    d = os.path.join(RIG_ROOT, "rig", "boot")
    return sorted(os.path.join(d, n) for n in os.listdir(d) if n.endswith(".struct"))


def bundled(rng, nsteps):
    """The struct file(s) rig ships, and the same with the string fields' lines taken out (a string with a number for
    a default has no documented packing, so vcpu as shipped cannot be judged byte by byte)."""
    out = []
    for path in shipped_files():
        with open(path, "rb") as f:
            text = f.read()
        sark = os.path.basename(path) == "sark.struct"
        words = sorted(set(re.findall(rb"[A-Za-z0-9_.]+", text))) if sark else []
        ses = Session(text, "shipped " + os.path.basename(path), bundled=int(sark),
                      glossary=[(w.decode("latin-1"), codes(w)) for w in words])
        if ses.read():
            history(ses, rng, nsteps, SARK_WIDE)
        out.append(ses.trace)
        plain = b"\n".join(l for l in text.split(b"\n") if not re.search(rb"\sA\d*\s", l.split(b"#")[0]))
        ses = Session(plain, "shipped %s without strings" % os.path.basename(path))
        if ses.read():
            history(ses, rng, nsteps, SARK_WIDE)
        out.append(ses.trace)
    return out


# ---------------------------------------------------------------------------------- the jobs
WRONG = (("StructFileDesign_wrong_bigendian.cfg", "PackIsFoldOfUpdates"),
         ("StructFileDesign_wrong_wide.cfg", "PackIsFoldOfUpdates"),
         ("StructFileDesign_wrong_shared.cfg", "FieldIsolation"),
         ("StructFileDesign_wrong_overlap.cfg", "EveryFieldReadsBack"))


def refute(chk, cfg, what, workers=4):
    r = chk.design("StructFileDesign", cfg, workers=workers, allow_error=True,
                   label="beyond the property: struct files, design error (must be refuted)")
    if r.ok or what not in (r.error or ""):
        raise MachineryError("StructFileDesign/%s: expected %s to be violated, got ok=%s %s" % (cfg, what, r.ok, r.error))
    return r


def traces_for(chk):
    rng = random.Random(chk.seed + 2020)
    traces = small_scope()
    traces += bundled(rng, chk.pick(8, 25))
    for k in range(chk.pick(2, 12)):
        traces += bundled(random.Random(chk.seed + 31 * k), chk.pick(6, 20))[:2]
    traces += [generated(rng, rng.randint(3, 12)) for _ in range(chk.pick(150, 2500))]
    traces += [malformed(rng, kind) for kind in MALFORMATIONS for _ in range(chk.pick(8, 100))]
    return traces


def run_beyond(chk):
    with concurrent.futures.ThreadPoolExecutor(3) as pool:
        # the design jobs never read the code under test: they run beside the recording of the traces
        jobs = [pool.submit(chk.design, "StructFileDesign", chk.pick("StructFileDesign.cfg", "StructFileDesign_thorough.cfg"),
                            workers=chk.pick(4, 8), label="beyond the property: struct-file model")]
        jobs += [pool.submit(refute, chk, cfg, what) for cfg, what in WRONG[:chk.pick(2, len(WRONG))]]
        traces = traces_for(chk)
        for j in jobs:
            j.result()
    kinds = {}
    for t in traces:
        kinds[t["label"].split(":")[0]] = kinds.get(t["label"].split(":")[0], 0) + 1
        for e in t["ev"]:
            chk.count("struct-file " + e[0] + (" raised" if e[-2][:1] == ["raise"] else ""))
    chk.extra.setdefault("beyond_the_property", {})["struct-file traces by kind"] = kinds
    if not hasattr(struct_file, "read_conf_file"):
        chk.skip("struct files: this rig has no read_conf_file and ships no .conf files")
    return chk.validate_beyond("StructFileTrace", "StructFileTrace.cfg", traces,
                               "struct files read, updated and packed (StructFile.tla)", batch=chk.pick(4000, 1000))


def selftest(chk):
    """Binding demonstration: every design error is refuted; corrupted recordings are rejected by the expected clause;
    a forged acceptance of each kind of malformed text is rejected."""
    for cfg, what in WRONG:
        refute(chk, cfg, what, workers=2)
    rng = random.Random(5)
    text = (b"# two structs\nname = aa\nsize = 12\nbase = 0xf5007f00\nc1 c 0 %d -3\nh2 v 0x2 %04x 0x0102 # half\n"
            b"w4[2] V 4 %08x 7\n\nname = bb\nsize = 4\nbase = 16\nq C 1 %d 9\n")
    ses = Session(text, "selftest")
    ses.read()
    ses.pack(0)                                   # 2
    ses.update(0, {"h2": 0x0304, "c1": -2})       # 3
    ses.copy(0)                                   # 4   (object 3)
    ses.update(2, {"w4": 0x01020304})             # 5
    ses.pack(2)                                   # 6
    ses.pack(0)                                   # 7
    ses.update(1, {"q": 200, "nosuch": 1})        # 8
    ses.getitem(0, b"h2")                         # 9
    ses.contains(1, b"q")                         # 10
    ses.read("reparse")                           # 11  (objects 4, 5)
    ses.pack(3)                                   # 12
    good = ses.trace
    sark = bundled(rng, 3)[0]

    def mut(base, f):
        t = copy.deepcopy(base)
        f(t)
        return t

    def byte(t, what, by):
        i = bytes(bytearray(t["text"])).index(what)
        t["text"][i:i + len(what)] = list(bytearray(by))
    ev = lambda k: (lambda t: t["ev"][k - 1])
    cases = [
        (good, None), (sark, None),
        (mut(good, lambda t: ev(1)(t)[2][0][3][1][4].__setitem__(0, 3)), "ReadIsTheTextsMeaning"),      # h2's default
        (mut(good, lambda t: ev(1)(t)[2][0][3][2].__setitem__(1, codes(b"H"))), "ReadIsTheTextsMeaning"),  # w4: V read as H
        (mut(good, lambda t: ev(1)(t)[2][1].__setitem__(2, b8(17))), "ReadIsTheTextsMeaning"),            # bb's base
        (mut(good, lambda t: byte(t, b"base = 16", b"base = 1z")), "ReadVerdict"),
        (mut(good, lambda t: ev(2)(t)[2][1].__setitem__(1, 1)), "PackIsTheStructsMeaning"),               # the gap is not zero
        (mut(good, lambda t: ev(2)(t)[2][1].__setitem__(slice(2, 4), [1, 2])), "PackIsTheStructsMeaning"),  # big-endian
        (mut(good, lambda t: ev(2)(t)[2][1].append(0)), "PackIsTheStructsMeaning"),                       # one byte too many
        (mut(good, lambda t: ev(3)(t)[4][1][3][0][4].__setitem__(0, 1)), "OtherObjectsUntouched"),        # bb.q moved
        (mut(good, lambda t: ev(3)(t).__setitem__(3, ["raise", "KeyError"])), "UpdateOutcome"),
        (mut(good, lambda t: ev(5)(t)[4][0][3][2][4].__setitem__(slice(0, 4), [4, 3, 2, 1])), "OtherObjectsUntouched"),  # the copy's update shows in the original
        (mut(good, lambda t: ev(8)(t).__setitem__(3, ["ok"])), "UpdateOutcome"),
        (mut(good, lambda t: ev(8)(t)[4][0][3][0][4].__setitem__(0, 200)), "OtherObjectsUntouched"),
        (mut(good, lambda t: ev(9)(t)[3][1][4].__setitem__(0, 2)), "GetItemIsTheField"),
        (mut(good, lambda t: ev(10)(t).__setitem__(3, [0])), "ContainsIsMembership"),
        (mut(good, lambda t: ev(11)(t)[2][3][3][1][4].__setitem__(slice(0, 2), [4, 3])), "ReadIsTheTextsMeaning"),  # a second read sees the update
        (mut(good, lambda t: t["ev"].__delitem__(2)), "CopyEqualsOriginal"),                               # an update dropped
        (mut(sark, lambda t: byte(t, b"%d    200 ", b"%d    201 ")), "BundledFileIsBootsTable"),
    ]
    # every kind of malformed text: the recording says "raise"; forged into an acceptance it must be rejected
    for kind in MALFORMATIONS:
        t = malformed(random.Random(7), kind)
        if t["ev"][0][1][0] != "raise":
            return False, "rig accepted a text with %s" % kind
        cases.append((t, None))
        cases.append((mut(t, lambda t: t["ev"][0].__setitem__(1, ["ok"])), "ReadVerdict"))
    rej = chk.validate("StructFileTrace", "StructFileTrace.cfg", [c[0] for c in cases])
    got = {id(t): cl for t, _, cl in rej}
    msgs = []
    for k, (t, want) in enumerate(cases):
        cl = got.get(id(t))
        if (want is None) != (cl is None) or (want and want not in cl):
            msgs.append("case %d: expected %s, got %s" % (k, want, cl))
    return not msgs, "; ".join(msgs) or ("%d design errors refuted, %d corrupted struct-file recordings rejected with the "
                                         "expected clauses" % (len(WRONG), sum(1 for c in cases if c[1])))
