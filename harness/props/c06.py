"""C06 - SCP bursts complete each command exactly once despite loss and reordering.

D: ScpDesign.tla - the windowed client's rules composed with a lossy / reordering / duplicating network, a machine
   answering ok / retryable / fatal, and a clock; every interleaving at small constants, two bursts on one
   connection; safety invariants, the action property NoEarlyRetransmit and termination under weak fairness.
   A second cfg drops the datagram-lifetime assumption and MUST fail with the wrong-callback interleaving.
T: the real SCPConnection.send_scp_burst / send_scp on the virtual-time network of harness/env/net.py; every datagram
   handed to the socket, every select, every datagram read, every callback and the outcome of every call is an
   event judged by ScpTrace.tla.
R: behaviours of ScpDesign produced by TLC's simulator are turned into schedules (the environment's choices) and run
   through the real code; the resulting traces are judged like all others.

This file contains no oracle: it builds schedules, runs rig, records what happened and encodes it.
"""
import json
import os
import random
import re

from rig.machine_control import scp_connection
from rig.machine_control.scp_connection import SCPConnection, scpcall
from rig.machine_control.packets import SCPPacket

from .. import tlc as tlcmod
from ..core import MachineryError
from ..env.net import VirtualNet, ScheduleExhausted, DidNotTerminate

OK, SUM, BUSY = 0x80, 0x82, 0x8d
FATALS = (0x81, 0x83, 0x84, 0x85, 0x86, 0x87, 0x88, 0x89, 0x8a, 0x8b, 0x8c, 0x8e, 0x8f)
REAL_SEQMOD = 0x10000


def payload(cmd, burst, n):
    return bytes(bytearray((cmd * 7 + burst * 13 + i) & 0xff for i in range(n)))


def reqdata(cmd, burst, n):
    """the data command cmd of call burst is given to carry TO the machine (a block to write, a routing entry, a
    fill pattern): n bytes, every byte value incl. 0, quotes, backslashes and non-ASCII ones occurs in long ones"""
    return bytes(bytearray((cmd * 29 + burst * 17 + i * 37 + 0x7b) & 0xff for i in range(n)))


class Codec(object):
    """requests and replies in the real packet layout (rig's own SCPPacket); command c of call b travels with
    arg1 = c, arg2 = b and req[(b, c)] bytes of data, and its reply carries the same two numbers plus the number of
    the transmission it answers, followed by pay[(b, c)] bytes of data (neither ever more than the data buffer size
    the call was given)"""

    def __init__(self, pay=None, req=None):
        self.pay = pay or {}
        self.req = req or {}

    def request(self, data):
        p = SCPPacket.from_bytestring(data, n_args=3)
        # last field: 1 if the data the datagram carries is, byte for byte, the data the caller gave the command it
        # names (mechanical comparison of bytes)
        return p.seq, p.arg1, p.arg2, int(bytes(p.data) == reqdata(p.arg1, p.arg2, self.req.get((p.arg2, p.arg1), 0)))

    def reply(self, seq, rc, cmd, burst, txid):
        return SCPPacket(reply_expected=False, tag=0xff, dest_port=7, dest_cpu=31, src_port=0, src_cpu=3,
                         dest_x=0, dest_y=0, src_x=1, src_y=2, cmd_rc=rc, seq=seq,
                         arg1=cmd, arg2=burst, arg3=txid,
                         data=payload(cmd, burst, self.pay.get((burst, cmd), 0))).bytestring


def _guarded_seqs(gen, net, limit):
    last_tx, draws = -1, 0
    for v in gen:
        if net.ntx != last_tx:
            last_tx, draws = net.ntx, 0
        draws += 1
        if draws > limit:
            raise DidNotTerminate()
        yield v


def run_connection(spec, fates, default=None, overs=(), lifetime=True, label="", max_selects=None):
    """One SCPConnection, the calls of spec["bursts"] one after the other, against a fresh virtual network.
    Returns the trace record.  ScheduleExhausted propagates (the small-scope enumeration extends the schedule)."""
    if max_selects is None:
        # "always terminates", observed: a call needs about 3 select() calls per transmission and one per datagram
        # read (measured maximum on the unchanged tree: see evidence, max_selects_per_call); the bound is over 10 times that
        max_selects = 200 + 40 * max(b["n"] for b in spec["bursts"]) * spec["tries"]
    # replies carry data: pay[c-1] bytes for command c of a call, within the call's data buffer size
    pays = {(b, c): n for b, bs in enumerate(spec["bursts"], 1) for c, n in enumerate(bs.get("pay", ()), 1)}
    # commands carry data: req[c-1] bytes for command c of a call (nothing if the call has no "req"), within the
    # call's data buffer size
    reqs = {(b, c): n for b, bs in enumerate(spec["bursts"], 1) for c, n in enumerate(bs.get("req", ()), 1)}
    net = VirtualNet(Codec(pays, reqs), fates=fates, default=default, overs=overs, lifetime=lifetime, max_selects=max_selects,
                     seqmod=spec["seqmod"])
    ev = net.events
    net.install(scp_connection)
    try:
        conn = SCPConnection("virtual-host", n_tries=spec["tries"], timeout=net.seconds(spec["t0"]))
        # (the connection keeps its sequence-number stream in the attribute `seq`; a connection that keeps it
        # elsewhere cannot be given a reduced sequence space or the search guard, and is judged as it is)
        if hasattr(conn, "seq"):
            if spec["seqmod"] != REAL_SEQMOD:
                conn.seq = scp_connection.seqs(mask=spec["seqmod"] - 1)
            if spec.get("seq0"):
                # a connection that has been in use for a while: it has already drawn seq0 sequence numbers (drawn
                # here from its own stream, nothing was transmitted), and the reference allocator of the environment
                # starts at the same place.  With the real 16-bit space this is how the counter gets to its far end.
                try:
                    for _ in range(spec["seq0"]):
                        next(conn.seq)
                except Exception as ex:
                    ev.extend([["burst", 1], ["raise", type(ex).__name__, -1, -1, 0], ["end"]])
                    return _record(spec, net, overs, lifetime, label, ev)
                net.start_reference(spec["seq0"])
            # "always terminates", observed: drawing more sequence numbers than exist without transmitting anything
            # in between means the client is searching a sequence space it has itself filled - it would search for ever
            conn.seq = _guarded_seqs(conn.seq, net, spec["seqmod"] + 8)
        for b, bs in enumerate(spec["bursts"], 1):
            ev.append(["burst", b])

            cbcost = bs.get("cbcost") or [0] * bs["n"]
            gencost = bs.get("gencost") or [0] * bs["n"]

            def make_cb(c, cost=0):
                def cb(packet):
                    p = SCPPacket.from_bytestring(packet, n_args=3)
                    # last field: 1 if the data handed over is, byte for byte, the data the answering machine put
                    # in the reply that names this command and call (mechanical comparison of bytes)
                    ev.append(["callback", c, p.arg2, p.arg1, p.cmd_rc, net.tick(net.now),
                               int(bytes(p.data) == payload(p.arg1, p.arg2, pays.get((p.arg2, p.arg1), 0)))])
                    # a callback takes time (it copies, parses, writes a file): the clock moves outside select()
                    if cost:
                        net.sleep(net.seconds(cost))
                return cb

            def lazily(cs, costs):
                # a lazy iterable of commands that takes time to produce each one (it reads the data from a file)
                for call, cost in zip(cs, costs):
                    if cost:
                        net.sleep(net.seconds(cost))
                    yield call
            calls = [scpcall(1, 2, 3, 7, arg1=c, arg2=b, arg3=0, data=reqdata(c, b, reqs.get((b, c), 0)),
                             callback=make_cb(c, cbcost[c - 1]),
                             timeout=net.seconds(bs["extra"][c - 1])) for c in range(1, bs["n"] + 1)]
            via = bs.get("via", "list")
            try:
                if via == "scp":
                    # send_scp: the reply handed back to the caller is what a callback would have received
                    r = conn.send_scp(bs.get("buf", 256), 1, 2, 3, 7, arg1=1, arg2=b, arg3=0,
                                      data=reqdata(1, b, reqs.get((b, 1), 0)), timeout=net.seconds(bs["extra"][0]))
                    ev.append(["callback", 1, r.arg2, r.arg1, r.cmd_rc, net.tick(net.now),
                               int(bytes(r.data) == payload(r.arg1, r.arg2, pays.get((r.arg2, r.arg1), 0)))])
                elif via == "iter":
                    conn.send_scp_burst(bs.get("buf", 256), bs["window"], lazily(calls, gencost))
                elif via == "tuple":
                    conn.send_scp_burst(bs.get("buf", 256), bs["window"], tuple(calls))
                else:
                    conn.send_scp_burst(bs.get("buf", 256), bs["window"], calls)
            except DidNotTerminate:
                ev.append(["raise", "DidNotTerminate", -1, -1, net.tick(net.now)])
                break
            except Exception as ex:
                # which command the error names: read off the packet it carries, if that is a packet at all (an
                # error carrying something else names no command: -1, judged by the specification)
                pkt = getattr(ex, "packet", None)
                c = getattr(pkt, "arg1", None)
                bb = getattr(pkt, "arg2", None)
                c = c if isinstance(c, int) and 0 <= c < 2 ** 31 else -1
                bb = bb if isinstance(bb, int) and 0 <= bb < 2 ** 31 else -1
                ev.append(["raise", type(ex).__name__, c, bb, net.tick(net.now)])
            else:
                ev.append(["return", net.tick(net.now)])
        ev.append(["end"])
    finally:
        net.uninstall()
    return _record(spec, net, overs, lifetime, label, ev)


def _record(spec, net, overs, lifetime, label, ev):
    return dict(t0=spec["t0"], tries=spec["tries"], seqmod=spec["seqmod"], seq0=spec.get("seq0", 0),
                bursts=[dict(n=bs["n"], window=bs["window"], extra=list(bs["extra"]), via=bs.get("via", "list"),
                             buf=bs.get("buf", 256), pay=list(bs.get("pay", ())), req=list(bs.get("req", ())),
                             cbcost=list(bs.get("cbcost") or ()), gencost=list(bs.get("gencost") or ()))
                        for bs in spec["bursts"]],
                fates=[list(f) for f in net.used], overs=list(overs), lifetime=lifetime, label=label,
                expired=net.expired, ev=ev)


def nontrivial(tr):
    return any(f[0] != "ok" for f in tr["fates"])


# ------------------------------------------------------------------------------------------ small scope
def alphabet(t0, level):
    """the per-datagram outcomes of the small-scope enumeration, for default time-out t0 and no overshoot:
    a command sent at 0 is retransmitted at t0 + 1 and times out again at 2 t0 + 2"""
    a = [["lost"],                                   # request lost
         ["ok", [OK, 1]],
         ["exact", [OK, t0]],                        # arrives at the very instant of the deadline
         ["late1", [OK, t0 + 2]],                    # one time-out late
         ["late2", [OK, 2 * t0 + 3]],                # two time-outs late
         ["dup", [OK, 1], [OK, 1]],                  # duplicated
         ["busy", [BUSY, 1]],                        # retryable
         ["fatal", [0x88, 1]]]
    if level >= 1:
        a += [["ok0", [OK, 0]],
              ["edge", [OK, t0 + 1]],                # arrives at the instant the expiry is noticed
              ["duplate", [OK, 1], [OK, t0 + 2]],    # the copy arrives a time-out later
              ["fatallate", [0x87, t0 + 2]]]
    if level >= 2:
        a += [["rlost"],                             # reply lost (the client cannot tell it from a lost request)
              ["sum", [SUM, 1]]]                     # the other retryable code
    return a


def explore(spec, alpha, overs=(), label="small", limit=None):
    """every execution of spec over the alphabet: depth-first over the tree of schedules; a schedule is extended
    only when the code actually transmits another datagram"""
    stack = [[]]
    n = 0
    # no call may transmit more than (commands x tries) datagrams: beyond that the schedule is not extended any
    # further (every further request is lost), so the enumeration is finite whatever the code does
    cap = sum(b["n"] for b in spec["bursts"]) * spec["tries"] + 1
    while stack:
        fates = stack.pop()
        try:
            tr = run_connection(spec, fates, default=None if len(fates) < cap else ["lost"], overs=overs, label=label)
        except ScheduleExhausted:
            for f in reversed(alpha):
                stack.append(fates + [f])
            continue
        n += 1
        yield tr
        if limit is not None and n >= limit:
            return


def small_specs(chk):
    t0 = 4
    out = []
    for n in (0, 1, 2, 3):
        for w in (1, 2):
            for tries in (1, 2):
                if n == 0 and (w, tries) != (1, 1):
                    continue
                out.append((dict(t0=t0, tries=tries, seqmod=4, bursts=[dict(n=n, window=w, extra=[0] * n)]),
                            alphabet(t0, chk.pick(0, 1 if n == 3 else 2)), ()))
    # per-command extra time-out and an overshooting select
    out.append((dict(t0=t0, tries=2, seqmod=4, bursts=[dict(n=2, window=2, extra=[0, 3])]),
                alphabet(t0, chk.pick(0, 2)), (1, 0, 1, 0, 1, 0, 1, 0, 1, 0, 1, 0)))
    # two calls on one connection, sequence space of 4: late replies of the first call arrive during the second,
    # the sequence counter wraps inside the second call
    late = [["lost"], ["ok", [OK, 1]], ["late1", [OK, t0 + 2]], ["duplate", [OK, 1], [OK, t0 + 3]],
            ["fatallate", [0x87, t0 + 3]]]
    out.append((dict(t0=t0, tries=1, seqmod=4, bursts=[dict(n=2, window=2, extra=[0, 0]),
                                                       dict(n=3, window=2, extra=[0, 0, 0])]), late, ()))
    out.append((dict(t0=t0, tries=1, seqmod=2, bursts=[dict(n=2, window=1, extra=[0, 0]),
                                                       dict(n=2, window=1, extra=[0, 0], via="iter")]), late, ()))
    if not chk.quick:
        three = [["lost"], ["ok", [OK, 1]], ["late2", [OK, 2 * t0 + 3]]]
        out.append((dict(t0=t0, tries=2, seqmod=4, bursts=[dict(n=2, window=2, extra=[0, 0]),
                                                           dict(n=3, window=2, extra=[0, 0, 0])]), three, ()))
    # time passes outside select(): a callback that takes longer than a time-out while another command is unanswered;
    # a lazy iterable that takes longer than a time-out to produce the next command
    slow = [["lost"], ["ok", [OK, 1]], ["late1", [OK, t0 + 2]], ["busy", [BUSY, 1]]]
    out.append((dict(t0=t0, tries=2, seqmod=4, bursts=[dict(n=2, window=2, extra=[0, 0], cbcost=[t0 + 2, 1])]),
                slow, ()))
    out.append((dict(t0=t0, tries=2, seqmod=4, bursts=[dict(n=3, window=2, extra=[0, 1, 0], via="iter",
                                                            gencost=[0, t0 + 1, 2], cbcost=[0, 1, 0])]), slow, ()))
    # send_scp (a burst of one through the blocking interface)
    out.append((dict(t0=t0, tries=2, seqmod=4, bursts=[dict(n=1, window=1, extra=[0], via="scp"),
                                                       dict(n=1, window=1, extra=[2], via="scp")]),
                alphabet(t0, chk.pick(0, 2)), ()))
    # commands that carry data TO the machine (block writes, table entries): 33 and 256 bytes through a window of
    # two, 32 bytes through send_scp afterwards; every way a call can end - completion, the time-out of either
    # command after one or two tries, each of the thirteen fatal return codes while either is unanswered
    fatal = [["fatal%02x" % rc, [rc, 1]] for rc in FATALS]
    out.append((dict(t0=t0, tries=2, seqmod=4, bursts=[dict(n=2, window=2, extra=[0, 0], req=[33, 256], pay=[0, 5])]),
                [["lost"], ["ok", [OK, 1]], ["busy", [BUSY, 1]]] + fatal, ()))
    out.append((dict(t0=t0, tries=1, seqmod=4, bursts=[dict(n=1, window=1, extra=[0], req=[257], buf=512, pay=[300]),
                                                       dict(n=1, window=1, extra=[0], req=[32], via="scp")]),
                [["lost"], ["ok", [OK, 1]], ["late1", [OK, t0 + 2]]] + fatal, ()))
    return out


# ------------------------------------------------------------------------------------------ random
def random_connection(rng):
    t0 = rng.choice((2, 3, 5, 8, 10))
    tries = rng.randint(1, 5)
    nb = rng.choice((1, 2, 2, 3))
    bursts = []
    for _ in range(nb):
        n = rng.randint(0, 12)
        if rng.random() < 0.1 and n >= 1:
            n = 1
        w = rng.randint(1, 5)
        extra = [rng.choice((0, 0, 0, 1, 2, 6)) if rng.random() < 0.5 else 0 for _ in range(n)]
        via = "scp" if n == 1 and rng.random() < 0.6 else rng.choice(("list", "list", "iter"))
        if via == "scp":
            w = 1
        # the data buffer size given to the call (machines report 256; board controllers and old boot ROMs
        # others) and the data each reply carries - nothing, a byte, or up to the whole buffer
        buf = rng.choice((256, 256, 16, 64, 128, 512, 24, 1024))
        pay = [rng.choice((0, 0, 1, 4, buf // 2, buf - 1, buf)) for _ in range(n)]
        bursts.append(dict(n=n, window=w, extra=extra, via=via, buf=buf, pay=pay))
    wmax = max(b["window"] for b in bursts)
    seqmod = rng.choice([m for m in (2, 4, 8, 16, 16, REAL_SEQMOD, REAL_SEQMOD) if m > wmax])
    spec = dict(t0=t0, tries=tries, seqmod=seqmod, bursts=bursts)
    # the network's mood for this connection
    p_lost = rng.choice((0.0, 0.05, 0.2, 0.5, 0.8))
    p_late = rng.choice((0.0, 0.1, 0.3, 0.6))
    p_dup = rng.choice((0.0, 0.1, 0.3))
    p_retry = rng.choice((0.0, 0.05, 0.3))
    p_fatal = rng.choice((0.0, 0.0, 0.01, 0.05))
    fates = []
    for _ in range(sum(b["n"] for b in bursts) * tries + 4):
        u = rng.random()
        if u < p_fatal:
            fates.append(["fatal", [rng.choice(FATALS), rng.randint(0, 3 * t0)]])
            continue
        if rng.random() < p_lost:
            fates.append([rng.choice(("lost", "rlost"))])
            continue
        if rng.random() < p_retry:
            fates.append(["retry", [rng.choice((SUM, BUSY)), rng.randint(0, t0 + 2)]])
            continue
        if rng.random() < p_late:
            d = rng.randint(t0, (tries + 2) * (t0 + 7))
            kind = "late"
        else:
            d = rng.randint(0, t0 - 1)
            kind = "ok"
        f = [kind, [OK, d]]
        while rng.random() < p_dup:
            f.append([OK, d + rng.randint(0, 3 * t0)])
            f[0] = "dup"
        fates.append(f)
    overs = [rng.choice((0, 0, 1, 2)) for _ in range(40)]
    return spec, fates, overs


REQ_SIZES = (0, 1, 4, 31, 32, 33, 64, 255, 256, 257)


def with_request_data(made, drng):
    """the same connection with commands that carry data to the machine: per call either none at all (reads, signals)
    or, per command, 0 .. the call's data buffer size bytes - around the sizes where something could change (32/33,
    255/256/257), half the buffer, one short of it, all of it.  Drawn from a stream of its own (drng), so the
    connections and schedules are the ones drawn without it."""
    spec = made[0]
    for bs in spec["bursts"]:
        buf = bs.get("buf", 256)
        if drng.random() < 0.25:
            bs["req"] = [0] * bs["n"]
            continue
        sizes = [k for k in REQ_SIZES + (buf // 2, buf - 1, buf, buf) if k <= buf]
        bs["req"] = [drng.choice(sizes) for _ in range(bs["n"])]
    return made


def slow_connection(rng):
    """a random connection on which time also passes OUTSIDE select(): callbacks take 0 .. more than two time-outs
    to run, lazy iterables take as long to produce a command (in reality both do: they copy, parse, read files);
    deadlines can therefore lie in the past when select() is next called (the real select.select rejects a negative
    time-out with ValueError, and so does the environment's)"""
    spec, fates, overs = random_connection(rng)
    t0 = spec["t0"]
    costs = (1, 2, t0, t0 + 1, 2 * t0 + 3)
    for bs in spec["bursts"]:
        if bs["via"] == "scp":
            continue
        bs["cbcost"] = [rng.choice(costs) if rng.random() < 0.4 else 0 for _ in range(bs["n"])]
        if rng.random() < 0.6:
            bs["via"] = "iter"
            bs["gencost"] = [rng.choice(costs) if rng.random() < 0.4 else 0 for _ in range(bs["n"])]
    return spec, fates, overs


def aged_connection(rng):
    """a random connection that has been in use for a while: with the real 16-bit sequence space, the counter wraps
    from 65535 to 0 somewhere inside its calls"""
    spec, fates, overs = random_connection(rng)
    total = sum(b["n"] for b in spec["bursts"])
    spec["seqmod"] = REAL_SEQMOD
    spec["seq0"] = REAL_SEQMOD - rng.randint(0, max(total, 1))
    return spec, fates, overs


def long_connection(rng):
    """the far end of 'all burst lengths, window sizes': hundreds of commands on one connection, windows of 6-32,
    copies of replies that arrive hundreds of commands later, 64 / 256 / 65536 sequence numbers"""
    t0 = rng.choice((3, 5, 8))
    tries = rng.randint(2, 4)
    w = rng.choice((6, 8, 16, 32))
    bursts = []
    for n in (rng.choice((40, 150, 400, 700)), rng.choice((0, 7, 40))):
        bursts.append(dict(n=n, window=w if bursts == [] else rng.randint(1, w),
                           extra=[rng.choice((1, 4)) if rng.random() < 0.1 else 0 for _ in range(n)],
                           via=rng.choice(("list", "iter", "tuple")), buf=256,
                           pay=[rng.choice((0, 0, 3, 256)) for _ in range(n)]))
    seqmod = rng.choice((64, 256, REAL_SEQMOD, REAL_SEQMOD))
    spec = dict(t0=t0, tries=tries, seqmod=seqmod, bursts=bursts)
    fates = []
    for _ in range(sum(b["n"] for b in bursts) * 2):
        u = rng.random()
        if u < 0.04:
            fates.append(["lost"])
        elif u < 0.07:
            fates.append(["retry", [rng.choice((SUM, BUSY)), rng.randint(0, t0)]])
        elif u < 0.15:
            fates.append(["duplate", [OK, rng.randint(0, 2)], [OK, rng.randint(t0, 120)]])
        elif u < 0.19:
            fates.append(["late", [OK, rng.randint(t0, 3 * t0)]])
        else:
            fates.append(["ok", [OK, rng.randint(0, 2)]])
    overs = [rng.choice((0, 0, 1)) for _ in range(40)]
    return spec, fates, overs


def aimed_connection(rng, dist):
    """many commands on one connection with the real sequence space, and copies of replies aimed at the reference
    rule: the copy of the reply to command i arrives one tick after command i + dist has been transmitted (and
    while it is unanswered: every reply takes two ticks).  The instants are read off a first run of the same call with prompt replies only (no oracle: the
    first run only tells when the code transmits).  Under the rule the two commands have different numbers as long
    as dist is not a multiple of 65536, and the copy must be ignored."""
    w = rng.choice((2, 4, 8))
    n = dist + rng.randint(1, 2 * w)
    spec = dict(t0=5, tries=3, seqmod=REAL_SEQMOD, seq0=rng.choice((0, 0, 77, 65000)),
                bursts=[dict(n=n, window=w, extra=[0] * n, via=rng.choice(("list", "tuple", "iter")), buf=256,
                             pay=[0] * n)])
    fates = [["ok", [OK, 2]] for _ in range(n)]         # every reply takes two ticks; the copy arrives in between
    first = run_connection(spec, fates, default=["ok", [OK, 2]], label="aim")
    sent = {}
    for e in first["ev"]:
        if e[0] == "send":
            sent.setdefault(e[2], e[4])
    for i in rng.sample(range(1, n - dist + 1), min(3, n - dist)):
        if i in sent and i + dist in sent and sent[i + dist] - sent[i] > 1:
            fates[i - 1] = ["aimed", [OK, 2], [OK, sent[i + dist] - sent[i] + 1]]
    return spec, fates, ()


# ------------------------------------------------------------------------------------------ behaviours from TLC
def simulated(chk):
    """Behaviours of ScpDesign generated by TLC's simulator (cfg ScpDesign_sim, which records for every transmission
    what the environment did with it): each becomes a schedule - the fate of the k-th datagram and the delay of
    each delivery in ticks - that is run through the real code."""
    path = os.path.join(tlcmod.SPEC_DIR, "cfg", "ScpDesign_sim.cfg")
    with open(path) as fh:
        const = {k: int(v) for k, v in re.findall(r"\b(NCmd|SeqMod|T0|NBursts) = (\d+)", fh.read())}
    r = tlcmod.run_tlc("ScpDesign", "ScpDesign_sim.cfg", workers=1, heap="2g", timeout=600,
                       simulate="num=%d" % chk.pick(1500, 15000), depth=80, seed=chk.seed + 1)
    chk.jobs.append(dict(job="S", module="ScpDesign", cfg="ScpDesign_sim.cfg", **r.summary()))
    if not r.ok:
        raise MachineryError("simulation of ScpDesign failed: %s" % r.error)
    lines = sorted(set(r.infos))
    random.Random(chk.seed).shuffle(lines)
    lines = lines[:chk.pick(1500, 15000)]
    out = []
    t0, scale = 4, 3                         # a delay of d model ticks becomes 3 d + 1 ticks of the virtual clock
    rcs = {0: OK, 1: BUSY, 2: 0x88}
    for ln in lines:
        win, tries, beh = json.loads(ln.replace("<<", "[").replace(">>", "]"))
        # beh: per transmission, in order, one [kind, delay in model ticks] per delivery of its reply
        fates = [["sim"] + [[rcs[k], d * scale + 1] for k, d in tx] for tx in beh]
        extra = [t0 if c == 2 else 0 for c in range(1, const["NCmd"] + 1)]       # ExtraMixed, scaled
        spec = dict(t0=t0, tries=tries, seqmod=const["SeqMod"],
                    bursts=[dict(n=const["NCmd"], window=win, extra=list(extra),
                                 req=[(0, 33, 256)[(c + k) % 3] for c in range(const["NCmd"])])
                            for k in range(const["NBursts"])])
        out.append(run_connection(spec, fates, default=["lost"], label="tlc-simulated"))
    return out


# ------------------------------------------------------------------------------------------ judging
def key_of(tr, i, clauses):
    e = tr["ev"][i - 1]
    return "%s %s t0=%d tries=%d seqmod=%d bursts=%s fates=%s overs=%s" % (
        e[0], ",".join(clauses), tr["t0"], tr["tries"], tr["seqmod"],
        [(b["n"], b["window"], b["extra"], b["via"]) + ((("req", b["req"]),) if any(b.get("req", ())) else ())
         for b in tr["bursts"]], tr["fates"],
        tr["overs"][:8])


def validate_parallel(chk, traces, nproc=8):
    """Job T on several TLC processes at once (a trace specification has one successor per state, so one TLC with
    many workers only contends on its queue; eight single-worker TLCs on eight slices are ~6 times faster).  Each
    slice is validated through the ordinary Check.validate of a shadow Check whose counters are then added to chk:
    purely transport."""
    import copy
    import threading
    if len(traces) < 2000:
        return chk.validate("ScpTrace", "ScpTrace.cfg", traces, key_of=key_of, batch=len(traces) or 1, workers=1)
    size = -(-len(traces) // nproc)
    chunks = [traces[i:i + size] for i in range(0, len(traces), size)]
    subs, results, errors = [], [None] * len(chunks), []

    def work(k):
        try:
            results[k] = subs[k].validate("ScpTrace", "ScpTrace.cfg", chunks[k], key_of=key_of,
                                          batch=len(chunks[k]), workers=1, heap="3g")
        except BaseException as ex:        # re-raised in the main thread
            errors.append(ex)
    for k in range(len(chunks)):
        sub = copy.copy(chk)
        sub.tmp = os.path.join(chk.tmp, "slice%d" % k)
        os.makedirs(sub.tmp, exist_ok=True)
        sub.jobs, sub.violations = [], []
        sub.states = sub.transitions = sub.traces_ok = 0
        subs.append(sub)
    threads = [threading.Thread(target=work, args=(k,)) for k in range(len(chunks))]
    for th in threads:
        th.start()
    for th in threads:
        th.join()
    if errors:
        raise errors[0]
    rej = []
    for sub, res in zip(subs, results):
        chk.jobs.extend(sub.jobs)
        chk.violations.extend(sub.violations)
        chk.states += sub.states
        chk.transitions += sub.transitions
        chk.traces_ok += sub.traces_ok
        rej.extend(res)
    return rej


def spec_of(tr):
    return dict(t0=tr["t0"], tries=tr["tries"], seqmod=tr["seqmod"], seq0=tr.get("seq0", 0), bursts=tr["bursts"])


def req_of(tr, b, c):
    """bytes of data command c of call b was given to carry (-1: there is no such command)"""
    if not (1 <= b <= len(tr["bursts"]) and 1 <= c <= tr["bursts"][b - 1]["n"]):
        return -1
    req = tr["bursts"][b - 1].get("req") or ()
    return req[c - 1] if c <= len(req) else 0


def tally(chk, tr):
    """informational counters (no verdicts)"""
    ev = tr["ev"]
    for e in ev:
        if e[0] == "raise":
            chk.count("calls that raised " + e[1])
            # how much data the command named by the error was carrying to the machine
            k = req_of(tr, e[3], e[2])
            if k >= 0:
                chk.count("... naming a command that carries %s of data" % (
                    "0 bytes" if k == 0 else "1-32 bytes" if k <= 32 else "33-255 bytes" if k < 256 else
                    "256 or more bytes"))
        elif e[0] == "return":
            chk.count("calls that returned")
    chk.count("datagrams sent", sum(1 for e in ev if e[0] == "send"))
    chk.count("datagrams sent for commands that carry data", sum(1 for e in ev if e[0] == "send" and
                                                                 req_of(tr, e[3], e[2]) > 0))
    chk.count("datagrams received", sum(1 for e in ev if e[0] == "recv"))
    chk.count("callbacks", sum(1 for e in ev if e[0] == "callback"))
    chk.count("replies of an earlier call read during a later call",
              sum(1 for k, e in enumerate(ev) if e[0] == "recv" and e[4] != cur_burst(ev, k)))
    chk.count("replies retired by the lifetime assumption", tr["expired"])
    k = 0
    for e in ev:
        if e[0] == "burst":
            k = 0
        elif e[0] == "select":
            k += 1
            if k > chk.info.get("max select() calls in one call", 0):
                chk.info["max select() calls in one call"] = k


def cur_burst(ev, k):
    for j in range(k, -1, -1):
        if ev[j][0] == "burst":
            return ev[j][1]
    return 0


def replay(chk):
    with open(chk.replay_path) as fh:
        old = json.load(fh)["replay"]["trace"]
    t = run_connection(spec_of(old), old["fates"], default=["lost"], overs=old["overs"], lifetime=old["lifetime"],
                       label="replay")
    chk.note_case((spec_of(t), t["fates"], t["overs"]))
    chk.sample(t)
    chk.rule = "replay of %s: the recorded schedule run again through the real code" % chk.replay_path
    chk.validate("ScpTrace", "ScpTrace.cfg", [t], key_of=key_of, workers=1)


def run(chk):
    if chk.replay_path:
        return replay(chk)
    rng = random.Random(chk.seed)
    # Apalache (symbolic, beside everything else, one core each): ScpWindowInd.IndInv - TypeOK, WindowBound, TriesBound,
    # AtMostOnce, SeqUnique, OneEntryPerCommand, the accounting conjuncts, ReturnedComplete, TimeoutHonest - is an
    # INDUCTIVE invariant of the windowed client for unbounded Window, MaxTries, SeqMod, time-outs, clock and any number
    # of calls, against a network that may present a reply with ANY sequence number at any moment (only the number of
    # commands per call is bounded, by 4); the states a call starts in satisfy it; wrong clients are refuted.
    from concurrent.futures import ThreadPoolExecutor
    apool = ThreadPoolExecutor(4)
    apa = [apool.submit(chk.apalache, "ScpWindowInd", "IndInit", "Next", "IndInv", 1, cinit="ConstInit", timeout=1500,
                        label="inductive step: IndInv /\\ Next => IndInv' (unbounded window, tries, sequence space, clock)"),
           apool.submit(chk.apalache, "ScpWindowInd", "StartInit", "Next", "IndInv", 0, cinit="ConstInit", timeout=1500,
                        label="base case: the state every call starts in satisfies IndInv")]
    for wrong, what in (("WrongWindowNext", "window test <= for <"), ("WrongTriesNext", "one transmission too many"),
                        ("WrongPopNext", "ok reply matched by command instead of sequence number"),
                        ("WrongCountNext", "retransmission not counted in the table"),
                        ("WrongSeqNext", "a number still held by an unanswered command is issued again"))[:chk.pick(2, 5)]:
        apa.append(apool.submit(chk.apalache, "ScpWindowInd", "IndInit", wrong, "IndInv", 1, cinit="ConstInit",
                                expect="Error", timeout=1500, label="refuted: " + what))
    acts = ("SendNew", "RunCallback", "Recv", "Duplicate", "DropReply", "Retransmit", "RaiseTimeout", "Return",
            "NextBurst", "Tick")
    chk.design("ScpDesign", "ScpDesign_%s.cfg" % chk.tier, expect_actions=acts,
               label="3 commands per burst, window 1-2, tries 1-2, 4 sequence numbers, 2 bursts, network of <= %d "
                     "replies, default time-out %d ticks; with the lifetime assumption" % (chk.pick(2, 4), chk.pick(1, 2)))
    chk.design("ScpDesign", "ScpDesign_wrap.cfg", expect_actions=acts,
               label="2 commands per burst, window 1-2, tries 1 or 3, 2 sequence numbers (constant wrap-around), "
                     "3 bursts; with the lifetime assumption")
    r = chk.design("ScpDesign", "ScpDesign_nolifetime.cfg", allow_error=True,
                   label="the same without the lifetime assumption: must fail (wrong callback)")
    if r.ok or "Invariant RightReply is violated" not in (r.error or ""):
        raise MachineryError("ScpDesign without the lifetime assumption was expected to violate RightReply, got: %s"
                             % (r.error or "no error"))
    chk.extra["design_without_lifetime_assumption"] = ("RightReply violated after %d distinct states, as expected: a "
                                                       "copy of an old reply completes a later command that was given "
                                                       "the same sequence number" % r.distinct)
    rej = []
    pending = []

    def judge(force=False):
        if not pending or (len(pending) < 64000 and not force):
            return
        for t in pending:
            tally(chk, t)
        rej.extend(validate_parallel(chk, pending))
        del pending[:]

    domains = []
    nsmall = 0
    for spec, alpha, overs in small_specs(chk):
        k = 0
        for t in explore(spec, alpha, overs):
            pending.append(t)
            k += 1
            nsmall += 1
            if nsmall in (7, 5000):
                chk.sample(t)
            chk.note_case((spec_of(t), t["fates"], t["overs"]), nontrivial=nontrivial(t))
            judge()
        domains.append("t0=%d tries=%d seqmod=%d bursts=%s alphabet=%s overshoot=%s: %d executions" % (
            spec["t0"], spec["tries"], spec["seqmod"],
            [(b["n"], b["window"], b["extra"], b.get("via", "list")) + ((("req", b["req"]),) if b.get("req") else ())
             for b in spec["bursts"]],
            [a[0] for a in alpha], list(overs[:2]), k))
    chk.extra["small_scope_domains"] = domains
    chk.extra["small_scope_executions"] = nsmall
    sim = simulated(chk)
    for t in sim:
        pending.append(t)
        chk.note_case((spec_of(t), t["fates"], t["overs"]), nontrivial=nontrivial(t))
    if sim:
        chk.sample(sim[len(sim) // 2])
    chk.extra["tlc_simulated_behaviours_replayed_into_impl"] = len(sim)
    drng = random.Random(chk.seed * 1000 + 15)           # the stream the request data sizes are drawn from
    for i in range(chk.pick(6000, 150000)):
        spec, fates, overs = with_request_data(random_connection(rng), drng)
        t = run_connection(spec, fates, default=["ok", [OK, 1]], overs=overs, label="random")
        pending.append(t)
        if i in (0, 1):
            chk.sample(t)
        chk.note_case((spec_of(t), t["fates"], t["overs"]), nontrivial=nontrivial(t))
        judge()
    # further families, each with its own random stream (the cases above are the same as before they were added)
    families = (("slow", slow_connection, chk.pick(600, 15000), 11),
                ("aged", aged_connection, chk.pick(60, 1500), 12),
                ("long", long_connection, chk.pick(6, 100), 13))
    for name, make, count, salt in families:
        frng = random.Random(chk.seed * 1000 + salt)
        for i in range(count):
            spec, fates, overs = with_request_data(make(frng), drng)
            t = run_connection(spec, fates, default=["ok", [OK, 1]], overs=overs, label="random-" + name)
            pending.append(t)
            if i == 0 and name != "long":
                chk.sample(t, limit=7)
            chk.note_case((spec_of(t), t["fates"], t["overs"]), nontrivial=nontrivial(t))
            chk.count("connections of family " + name)
            if any(b["cbcost"] or b["gencost"] for b in t["bursts"]):
                chk.count("zero-time-out selects on connections of family slow",
                          sum(1 for k, e in enumerate(t["ev"]) if e[0] == "select" and e[1] == 0 and e[4] is False))
            judge()
    frng = random.Random(chk.seed * 1000 + 14)
    for dist in chk.pick((256, 512), (128, 256, 512, 1024, 2048, 4096)):
        spec, fates, overs = aimed_connection(frng, dist)
        t = run_connection(spec, fates, default=["ok", [OK, 1]], overs=overs, label="aimed-%d" % dist)
        pending.append(t)
        chk.note_case((spec_of(t), t["fates"], t["overs"]), nontrivial=nontrivial(t))
        chk.count("connections of family aimed")
    judge(force=True)
    chk.count("traces rejected", len(rej))
    chk.rule = ("the real send_scp_burst / send_scp on virtual time against a network that decides the fate of every "
                "request datagram from a schedule (request lost, reply lost, reply after any delay incl. one or "
                "several time-outs late, reply duplicated, retryable code sum/p2p_busy, any fatal code).  Small "
                "scope: every schedule over the alphabet for bursts of 0-3 commands, window 1-2, 1-2 tries, plus "
                "two calls per connection with 4 or 2 sequence numbers (see small_scope_domains; the tree of "
                "schedules is extended only where the code transmits again).  Then behaviours of ScpDesign from "
                "TLC's simulator replayed as schedules, then seeded random connections: 1-3 calls, 0-12 commands, "
                "window 1-5, 1-5 tries, extra time-outs, 2/4/8/16/65536 sequence numbers (always more than the "
                "window), select overshoot 0-2 ticks, lists and lazy iterables, send_scp for single commands; "
                "commands carry data to the machine - per call none, or per command 0/1/4/31/32/33/64/255/256/257 "
                "bytes, half the call's data buffer size, one short of it, all of it (never more than it) - so do "
                "the families below and the simulated behaviours, and two small-scope domains (33 + 256 bytes "
                "through a window of two; 257 of 512 bytes, then 32 through send_scp) end in completion, in the "
                "time-out of either command and in each of the thirteen fatal return codes.  "
                "Then three further families: 'slow' - the same connections with callbacks and lazy iterables that "
                "take 0 to 2 t0 + 3 ticks each (time passes outside select, deadlines lie in the past when select "
                "is entered; the environment's select, like the real one, raises ValueError on a negative "
                "time-out); 'aged' - 65536 sequence numbers and a counter already advanced to within one call of "
                "65536, so that it wraps inside the calls; 'long' - 40-700 commands in one call, windows 6-32, "
                "64/256/65536 sequence numbers, copies of replies arriving up to 120 ticks (hundreds of commands) "
                "late, tuples as well as lists and iterables; 'aimed' - 65536 sequence numbers, 256 / 512 (thorough: up "
                "to 4096) + a few commands in one call, and a copy of the reply to command i that arrives at the "
                "tick after command i + 256 / 512 has been transmitted, before that command's own reply.  "
                "non-trivial = the schedule contains at least one fate other than a prompt ok reply; distinct = "
                "distinct (connection parameters, calls, applied schedule, overshoots)")
    chk.exhaustive = False
    chk.extra["exhaustive_subdomain"] = domains
    for f in apa:
        f.result()                      # an unexpected outcome is a machinery error (raised here)
    chk.extra["apalache_inductive_invariant"] = (
        "ScpWindowInd.IndInv is inductive for ScpWindow.Next with Window, MaxTries, SeqMod, T0, Extra \\in Nat, an "
        "unbounded clock and any number of calls, <= 4 commands per call, against a network that may present any "
        "sequence number at any moment; IndInv => WindowBound /\\ TriesBound /\\ AtMostOnce /\\ ReturnedComplete /\\ "
        "TimeoutHonest; %d wrong clients refuted" % (len(apa) - 2))
    chk.assumptions.append("datagram lifetime: a reply is never delivered after its sequence number has been re-issued "
                           "to another command (rig's own XXX comment in send_scp_burst); the network of "
                           "harness/env/net.py retires such replies, and ScpDesign_nolifetime.cfg shows the wrong "
                           "callback that results without the assumption")
    chk.assumptions.append("requests are lost or delivered at once, never delayed or duplicated; replies may be lost, "
                           "delayed arbitrarily, reordered and duplicated (the fault alphabet of the statement)")
    chk.assumptions.append("time passes inside select() and, in the 'slow' family, inside callbacks and lazy iterables "
                           "of commands (never inside send/recv); select never returns before its time-out unless a "
                           "datagram is due, may overshoot by 0-2 ticks, and a fruitless zero-time-out select repeated "
                           "at the same instant costs one tick (the clock cannot stand still for ever)")
    chk.assumptions.append("the sequence space is shrunk with rig's own seqs(mask=...) parameter and is always larger "
                           "than the window; times are whole ticks (1 tick = 0.25 s of rig's clock, exact in floats)")
    chk.assumptions.append("'always terminates' is observed as: at most 200 + 40 x commands x tries select() calls per "
                           "call on virtual time (more than 10 times what the slowest call on the unchanged tree needs, "
                           "see informational 'max select() calls in one call'), and proved for the rules by TLC "
                           "(Terminates under weak fairness)")


# ------------------------------------------------------------------------------------------ selftest
def selftest(chk):
    t0 = 4
    spec = dict(t0=t0, tries=2, seqmod=4, bursts=[dict(n=2, window=1, extra=[0, 0])])
    # command 1: first request lost, retransmission answered; command 2: answered at once
    good = run_connection(spec, [["lost"], ["ok", [OK, 1]], ["ok", [OK, 1]]], default=["ok", [OK, 1]])
    # command 1 times out
    tmo = run_connection(spec, [["lost"], ["lost"]], default=["ok", [OK, 1]])
    fat = run_connection(spec, [["fatal", [0x88, 1]]], default=["ok", [OK, 1]])
    two = run_connection(dict(t0=t0, tries=2, seqmod=4, bursts=[dict(n=2, window=2, extra=[0, 0])]), [],
                         default=["ok", [OK, 1]])
    one = run_connection(dict(t0=t0, tries=2, seqmod=4, bursts=[dict(n=1, window=1, extra=[0])]), [],
                         default=["ok", [OK, 1]])
    # commands that carry 33 and 256 bytes of data: the first is sent twice and times out
    big = run_connection(dict(t0=t0, tries=2, seqmod=4, bursts=[dict(n=2, window=2, extra=[0, 0], req=[33, 256])]),
                         [["lost"], ["ok", [OK, 1]], ["busy", [BUSY, 1]]], default=["ok", [OK, 1]])

    def mut(base, f):
        t = dict(base)
        t["ev"] = [list(e) for e in base["ev"]]
        f(t["ev"])
        return t

    def idx(ev, name, k=0):
        return [i for i, e in enumerate(ev) if e[0] == name][k]

    def swap(ev, i, j):
        ev[i], ev[j] = ev[j], ev[i]
    gev = good["ev"]
    s2 = idx(gev, "send", 1)           # the retransmission of command 1
    s3 = idx(gev, "send", 2)           # first transmission of command 2
    c1 = idx(gev, "callback", 0)
    # without the lifetime assumption: seqmod 2, window 1: the late copy of command 1's reply answers command 3
    nol_spec = dict(t0=t0, tries=1, seqmod=2, bursts=[dict(n=3, window=1, extra=[0, 0, 0])])
    nol_fates = [["duplate", [OK, 1], [OK, 4]], ["ok", [OK, 1]], ["lost"]]
    nol = run_connection(nol_spec, nol_fates, default=["lost"], lifetime=False)
    withl = run_connection(nol_spec, nol_fates, default=["lost"], lifetime=True)
    cases = [
        (good, None), (tmo, None), (fat, None), (withl, None), (one, None), (two, None), (big, None),
        (nol, "RightReply"),
        (mut(good, lambda ev: ev[s2].__setitem__(4, ev[s2][4] - 2)), "NoEarlyRetransmit"),       # corrupt a time
        (mut(good, lambda ev: ev[c1].__setitem__(3, 2)), "RightReply"),                            # corrupt the reply id
        (mut(big, lambda ev: ev[idx(ev, "send", 1)].__setitem__(6, 0)), "WholeRequest"),           # other data resent
        (mut(good, lambda ev: ev.__delitem__(c1)), "ExactlyOnce"),                                 # drop the callback
        (mut(good, lambda ev: ev.insert(c1, list(ev[c1]))), "AtMostOnce"),                         # callback twice
        (mut(good, lambda ev: ev.__delitem__(idx(ev, "return"))), "CallEnded"),                    # drop the return
        (mut(good, lambda ev: ev.__delitem__(len(ev) - 1)), "TraceClosedByEnd"),                   # drop the end
        (mut(good, lambda ev: swap(ev, idx(ev, "recv", 0), s3)), "WindowBound"),                   # send before reply
        (mut(good, lambda ev: swap(ev, c1, idx(ev, "recv", 0))), "CallbackHasReply"),              # callback before reply
        (mut(tmo, lambda ev: ev.insert(idx(ev, "raise"), ev[idx(ev, "send", 1)][:4] + [10, "x"])), "TriesBound"),
        (mut(tmo, lambda ev: ev.__delitem__(idx(ev, "send", 1))), "TimeoutHonest"),                # raised a try early
        (mut(tmo, lambda ev: ev[idx(ev, "raise")].__setitem__(1, "KeyError")), "OnlyDocumentedErrors"),
        (mut(tmo, lambda ev: ev[idx(ev, "raise")].__setitem__(1, "DidNotTerminate")), "Terminates"),
        (mut(tmo, lambda ev: ev[idx(ev, "raise")].__setitem__(1, "FatalReturnCodeError")), "FatalOnlyOnFatalCode"),
        (mut(fat, lambda ev: ev[idx(ev, "raise")].__setitem__(1, "TimeoutError")), "FatalRaises"),
        (mut(one, lambda ev: ev[idx(ev, "recv", 0)].__setitem__(2, BUSY)), "CallbackHasReply"),    # busy taken as success
        (mut(one, lambda ev: (ev[idx(ev, "recv", 0)].__setitem__(2, BUSY),
                              ev[idx(ev, "callback", 0)].__setitem__(4, BUSY))), "RightReply"),
        (mut(two, lambda ev: ev[idx(ev, "send", 1)].__setitem__(1, ev[idx(ev, "send", 0)][1])), "SeqNotOutstanding"),
    ]
    rej = chk.validate("ScpTrace", "ScpTrace.cfg", [c[0] for c in cases], workers=2)
    got = {id(t): cl for t, _, cl in rej}
    msgs = []
    for k, (tr, want) in enumerate(cases):
        cl = got.get(id(tr))
        if (want is None) != (cl is None) or (want and want not in cl):
            msgs.append("case %d: expected %s, got %s" % (k, want, cl))
    # the design without the lifetime assumption must fail, with it must pass the same invariant
    r = tlcmod.run_tlc("ScpDesign", "ScpDesign_nolifetime.cfg", workers=4, timeout=300)
    if r.ok or "RightReply" not in (r.error or ""):
        msgs.append("ScpDesign_nolifetime did not violate RightReply")
    return not msgs, "; ".join(msgs) or ("%d corrupted traces rejected with the expected clauses; design without "
                                         "the lifetime assumption refuted" % (len(cases) - 7))
