"""C07 - remote memory reads and writes are byte-exact for any address and length.

D: MemoryDesign.tla - chunking of a transfer into buffer-sized, alignment-typed commands completing in any
   order within a window (exhaustive over a 24-byte window).
T: the real MachineController (read / write / fill / struct and per-core fields / across links) and
   SCPConnection.read / write against the simulated machine, under datagram faults; every SCP command the
   machine executed and every client-level call is an event judged by MemoryTrace.tla, which keeps its own
   model of the memory.
"""
import random
import struct

import pkg_resources

from rig.machine_control import scp_connection, machine_controller
from rig.machine_control.machine_controller import MachineController
from rig.machine_control.struct_file import read_struct_file
from rig.links import Links

from ..env.spinnaker_sim import SimMachine, SDRAM_BASE, SYSRAM_BASE
from ..env.simnet import SimNet

STRUCT_TEXT = pkg_resources.resource_string("rig", "boot/sark.struct").decode()
KIND = {2: "read", 3: "write", 5: "fill", 17: "link_read", 18: "link_write"}
PACK_SIZE = {"C": 1, "c": 1, "v": 2, "h": 2, "V": 4, "I": 4, "i": 4}


def halves(a):
    return [a >> 16, a & 0xffff]


class Session(object):
    """one simulated machine + controller + the trace being recorded"""

    def __init__(self, rng, bufsize, window, fate=None, w=2, h=2, told=True, struct_text=None):
        self.rng = rng
        self.sim = SimMachine(w, h, struct_text or STRUCT_TEXT, buffer_size=bufsize, legacy_version=True, name="SCMP")
        self.net = SimNet(self.sim, fate)
        self.net.install(scp_connection, machine_controller)
        if struct_text is None:
            self.mc = MachineController("sim", n_tries=6)
        else:                                       # the caller's own struct file (the documented `structs` parameter)
            self.mc = MachineController("sim", n_tries=6, structs=read_struct_file(struct_text.encode()))
        if told:                                    # (otherwise the controller has to ask the machine itself)
            self.mc._scp_data_length = bufsize      # what the machine advertises through sver
        self.mc._window_size = window
        self.bufsize = bufsize
        self.windows = []        # [chip, origin, size]
        self.evs = []
        self.logpos = 0

    def close(self):
        self.net.uninstall()

    def watch(self, chip, origin, size):
        """chip: (x, y), or (x, y, p) for a window of core p's own (tightly coupled) memory"""
        for c, o, sz, init in self.windows:
            if c == chip and o == origin and sz >= size:
                return                      # already observed (windows of one chip must not overlap)
        core = chip[2] if len(chip) > 2 else 0
        self.windows.append([chip, origin, size, list(self.sim.chips[tuple(chip[:2])].read(origin, size, core))])

    def drain(self):
        """turn the commands the simulator executed since the last call into events"""
        for rec in self.sim.log[self.logpos:]:
            kind = KIND.get(rec["cmd"])
            if kind is None:
                continue
            if kind == "fill":
                addr, n, typ = rec["arg1"], rec["arg3"], 2
                data = list(struct.pack("<I", rec["arg2"]))
            else:
                addr, n, typ = rec["arg1"], rec["arg2"], rec["arg3"] if kind in ("read", "write") else 2
                data = list(rec["data"])
            via = rec.get("via", (rec["x"], rec["y"]))
            self.evs.append(["cmd", kind, rec["x"], rec["y"], halves(addr), n, typ, data,
                             list(rec.get("reply_data", b"")), rec.get("rc") or 0, via[0], via[1], rec["p"]])
        self.logpos = len(self.sim.log)

    def op(self, kind, chip, addr, n, data, f):
        try:
            r = f()
            result = "ok"
        except Exception as ex:      # judged by the specification (NoException)
            r, result = None, type(ex).__name__
        self.drain()
        if kind in ("read", "sread"):
            data = list(r) if isinstance(r, (bytes, bytearray, list)) else (data or [])
        self.evs.append(["op", kind, chip[0], chip[1], addr, n, list(data), result, chip[2] if len(chip) > 2 else 0])
        return r

    def trace(self, label):
        wins = [dict(chip=list(c), origin=halves(o), init=init) for c, o, size, init in self.windows]
        evs = list(self.evs)
        for i, (c, o, size, init) in enumerate(self.windows):
            evs.append(["final", i + 1, list(self.sim.chips[tuple(c[:2])].read(o, size, c[2] if len(c) > 2 else 0))])
        return dict(bufsize=self.bufsize, windows=wins, ev=evs, label=label)


def faults(rng, rate):
    """per-datagram faults; a given datagram (and its retransmissions) suffers at most two, so that no command can
    exhaust its tries - a time-out would be a legitimate outcome (C06), not a memory error"""
    if rate == 0:
        return None
    hits = {}

    def fate(n, data=b""):
        r = rng.random()
        f = ("lose_request" if r < rate else "lose_reply" if r < 2 * rate else
             "dup_reply" if r < 3 * rate else "hold_reply" if r < 4 * rate else "ok")
        if f != "ok":
            if hits.get(data, 0) >= 2:
                return "ok"
            hits[data] = hits.get(data, 0) + 1
        return f
    return fate


def rw_session(rng, bufsize, window, base_off, lengths, fate, label, origin=SDRAM_BASE + 0x100, shapes=(bytes,)):
    """origin: where the observed window starts (the transfers start 4..11 bytes above it); shapes: the types the
    data of a write is handed over as"""
    s = Session(rng, bufsize, window, fate)
    try:
        chip = (1, 0)
        size = max(lengths) + 16 + 8
        s.watch(chip, origin, size)
        s.watch((0, 1), origin, 16)                      # another chip: must stay untouched
        for n in lengths:
            a = origin + 4 + base_off
            data = bytes(rng.randrange(256) for _ in range(n))
            given = (rng.choice(shapes) if len(shapes) > 1 else shapes[0])(data)
            if rng.random() < 0.5:
                s.op("write", chip, halves(a), n, data, lambda: s.mc.write(a, given, chip[0], chip[1]))
            else:
                conn = s.mc.connections[None]
                s.op("write", chip, halves(a), n, data,
                     lambda: conn.write(bufsize, window, chip[0], chip[1], 0, a, given))
            if rng.random() < 0.5:
                s.op("read", chip, halves(a), n, None, lambda: s.mc.read(a, n, chip[0], chip[1]))
            else:
                conn = s.mc.connections[None]
                s.op("read", chip, halves(a - 2), n + 3, None,
                     lambda: conn.read(bufsize, window, chip[0], chip[1], 0, a - 2, n + 3))
        return s.trace(label)
    finally:
        s.close()


def misc_session(rng, bufsize, window, fate, label):
    """fill (aligned / unaligned), struct fields, per-core fields, link reads / writes"""
    s = Session(rng, bufsize, window, fate, w=3, h=2)
    try:
        sim = s.sim
        chip = (rng.randrange(3), rng.randrange(2))
        origin = SDRAM_BASE + 0x400
        s.watch(chip, origin, 96)
        # fills
        for _ in range(3):
            a = origin + rng.choice((0, 4, 8, 1, 2, 7))
            size = rng.choice((0, 4, 8, 12, 3, 5, 9, 32))
            if a % 4 == 0 and size % 4 == 0:
                word = rng.choice((0, 0xAB, 0xdeadbeef, 0x01020304))
                pat = list(struct.pack("<I", word) * (size // 4))
                s.op("fillw", chip, halves(a), size, pat, lambda: s.mc.fill(a, word, size, chip[0], chip[1], 0))
            else:
                b = rng.randrange(256)
                s.op("fillb", chip, halves(a), size, [b] * size, lambda: s.mc.fill(a, b, size, chip[0], chip[1], 0))
        # struct fields (sv) - addresses from the simulator's own reading of the struct file
        sv = sim.sv
        s.watch(chip, sv["base"], sv["size"])
        names = [n for n, (off, pack, cnt) in sv["fields"].items() if pack in PACK_SIZE]
        for name in rng.sample(names, 6):
            off, pack, cnt = sv["fields"][name]
            nbytes = PACK_SIZE[pack] * cnt
            addr = [halves(sv["base"]), off, 0, 0]
            s.op("sread", chip, addr, nbytes, None,
                 lambda: _packed(s.mc.read_struct_field("sv", name, chip[0], chip[1]), pack, cnt))
            if name not in ("vcpu_base", "sdram_sys", "rtr_copy", "alloc_tag", "p2p_dims", "iobuf_size"):
                vals = [rng.randrange(256 ** PACK_SIZE[pack]) if pack.isupper() or pack == "v" else
                        rng.randrange(-(256 ** PACK_SIZE[pack]) // 2, (256 ** PACK_SIZE[pack]) // 2)
                        for _ in range(cnt)]
                data = _packed(vals if cnt > 1 else vals[0], pack, cnt)
                s.op("swrite", chip, addr, nbytes, data,
                     lambda: s.mc.write_struct_field("sv", name, vals if cnt > 1 else vals[0], chip[0], chip[1]))
        # per-core (vcpu) fields, on this chip and then on another one (whose per-core blocks live elsewhere)
        vc = sim.vcpu
        vnames = [n for n, (off, pack, cnt) in vc["fields"].items() if pack in PACK_SIZE and cnt == 1]
        chip0 = chip
        other = rng.choice([c for c in sim.chips if c != chip0])
        s.watch(other, sv["base"], sv["size"])
        for name in rng.sample(vnames, 6):
            chip = chip0 if rng.random() < 0.5 else other
            vbase = sim.chips[chip].vcpu_base
            s.watch(chip, vbase, vc["size"] * 18)
            off, pack, cnt = vc["fields"][name]
            p = rng.randrange(18)
            addr = [halves(vbase), off, p, vc["size"], halves(sim.sv_addr("vcpu_base"))]
            s.op("sread", chip, addr, PACK_SIZE[pack], None,
                 lambda: _packed(s.mc.read_vcpu_struct_field(name, chip[0], chip[1], p), pack, 1))
            v = rng.randrange(256 ** PACK_SIZE[pack]) if pack.isupper() or pack == "v" else rng.randrange(-100, 100)
            s.op("swrite", chip, addr, PACK_SIZE[pack], _packed(v, pack, 1),
                 lambda: s.mc.write_vcpu_struct_field(name, v, chip[0], chip[1], p))
        # the one text field of the per-core block (app_name, 16 bytes): names that fit are stored NUL-padded; a
        # name that does not fit cannot be stored whole - whatever is done with it, no byte outside the field
        # may change ("sconf": only confinement is judged, whatever the outcome)
        off, pack, cnt = vc["fields"]["app_name"]
        for text in rng.sample(["", "a", "my_app.aplx", "sixteen_chars_xx", "caf\u00e9", "\u00e9" * 8, "seventeen_chars_xx",
                                "\u00e9" * 9, "x" * 30], 4):
            chip = chip0 if rng.random() < 0.5 else other
            vbase = sim.chips[chip].vcpu_base
            s.watch(chip, vbase, vc["size"] * 18)
            p = rng.randrange(18)
            addr = [halves(vbase), off, p, vc["size"], halves(sim.sv_addr("vcpu_base"))]
            raw = text.encode("utf-8")
            if len(raw) <= cnt:
                s.op("swrite", chip, addr, cnt, list(bytearray(raw.ljust(cnt, b"\0"))),
                     lambda: s.mc.write_vcpu_struct_field("app_name", text, chip[0], chip[1], p))
                # ... and read back: the text returned is the stored bytes without the padding (recorded as the
                # field's bytes again: the names written here neither start nor end with a NUL)
                s.op("sread", chip, addr, cnt, None,
                     lambda: list(bytearray(s.mc.read_vcpu_struct_field("app_name", chip[0], chip[1], p)
                                            .encode("utf-8").ljust(cnt, b"\0"))))
            else:
                s.op("sconf", chip, addr, cnt, [],
                     lambda: s.mc.write_vcpu_struct_field("app_name", text, chip[0], chip[1], p))
        chip = chip0
        # across links
        if bufsize >= 4:
            for _ in range(3):
                link = Links(rng.randrange(6))
                dx, dy = link.to_vector()
                nb = ((chip[0] + dx) % 3, (chip[1] + dy) % 2)
                lorigin = SDRAM_BASE + 0x800
                s.watch(nb, lorigin, 4 * (bufsize // 4) * 3 + 24)
                a = lorigin + 4 * rng.randrange(3)
                n = 4 * rng.randrange(0, 3 * (bufsize // 4) + 1)
                data = bytes(rng.randrange(256) for _ in range(n))
                s.op("write", nb, halves(a), n, data, lambda: s.mc.write_across_link(a, data, chip[0], chip[1], link))
                s.op("read", nb, halves(a), n, None, lambda: s.mc.read_across_link(a, n, chip[0], chip[1], link))
        return s.trace(label)
    finally:
        s.close()


def core_local_session(rng, bufsize, window, fate, label):
    """reads, writes and fills of the memory every core has to itself (the same addresses on every core), for
    cores 0..17: a transfer addressed to one core must reach that core's memory and no other core's"""
    s = Session(rng, bufsize, window, fate)
    try:
        xy = (rng.randrange(2), rng.randrange(2))
        origin = 0x00400000 + 0x100
        cores = sorted(set(rng.sample(range(18), 4)) | {rng.choice((16, 17)), rng.choice((0, 1))})
        def key(core):                       # (core 0's is the memory plain chip addressing reaches)
            return (xy[0], xy[1], core) if core else xy
        for core in cores:
            s.watch(key(core), origin, 3 * bufsize + 24)
        for core in cores + rng.sample(cores, 2):
            chip = key(core)
            a = origin + rng.randrange(8)
            n = rng.choice((1, 4, 7, bufsize, 2 * bufsize + 3))
            data = bytes(rng.randrange(256) for _ in range(n))
            s.op("write", chip, halves(a), n, data, lambda: s.mc.write(a, data, xy[0], xy[1], core))
            s.op("read", chip, halves(a), n, None, lambda: s.mc.read(a, n, xy[0], xy[1], core))
            a4 = origin + 4 * rng.randrange(3)
            s.op("fillw", chip, halves(a4), 8, list(struct.pack("<I", 0x0a0b0c0d) * 2),
                 lambda: s.mc.fill(a4, 0x0a0b0c0d, 8, xy[0], xy[1], core))
            # a fill that is not whole words (address or size) is done byte-wise
            au, nu = rng.choice(((origin + 1, 4), (origin + 4, 3), (origin + 6, bufsize + 1), (origin + 3, 2 * bufsize)))
            b = rng.randrange(1, 256)
            s.op("fillb", chip, halves(au), nu, [b] * nu, lambda: s.mc.fill(au, b, nu, xy[0], xy[1], core))
        return s.trace(label)
    finally:
        s.close()


def first_op_session(rng, bufsize, window, fate, kind, label):
    """a fresh controller whose very first memory operation is `kind` (nothing has asked the machine for its buffer
    size yet), longer than the buffer"""
    s = Session(rng, bufsize, window, fate, w=3, h=3, told=False)     # (3 x 3: every link leads to a different chip)
    try:
        chip = (rng.randrange(3), rng.randrange(3))
        link = Links(rng.randrange(6))
        dx, dy = link.to_vector()
        nb = ((chip[0] + dx) % 3, (chip[1] + dy) % 3)
        origin = SDRAM_BASE + 0x800
        n = 4 * ((bufsize // 4) * 2 + rng.randrange(1, 4))
        s.watch(nb, origin, n + 24)
        s.watch(chip, origin, n + 24)
        a = origin + 4 * rng.randrange(3)
        data = bytes(rng.randrange(256) for _ in range(n))
        ops = {"link_read": lambda: s.op("read", nb, halves(a), n, None,
                                         lambda: s.mc.read_across_link(a, n, chip[0], chip[1], link)),
               "link_write": lambda: s.op("write", nb, halves(a), n, data,
                                          lambda: s.mc.write_across_link(a, data, chip[0], chip[1], link)),
               "read": lambda: s.op("read", chip, halves(a + 1), n - 3, None,
                                    lambda: s.mc.read(a + 1, n - 3, chip[0], chip[1])),
               "write": lambda: s.op("write", chip, halves(a + 1), n - 3, data[:n - 3],
                                     lambda: s.mc.write(a + 1, data[:n - 3], chip[0], chip[1])),
               "fill": lambda: s.op("fillw", chip, halves(a), n, list(struct.pack("<I", 0x01020304) * (n // 4)),
                                    lambda: s.mc.fill(a, 0x01020304, n, chip[0], chip[1], 0))}
        ops[kind]()
        for k in rng.sample(sorted(ops), 2):
            ops[k]()
        return s.trace(label)
    finally:
        s.close()


def custom_struct_text():
    """A struct file of the caller's own (handed to the controller through its `structs` parameter, and to the
    simulated machine, whose layout follows it): the sv block at another base, per-core blocks of another size with
    every field moved, and a struct `app` living in each core's own data memory with signed bytes, half-word and word
    arrays, and offsets written in decimal."""
    out, cur = [], None
    for line in STRUCT_TEXT.splitlines():
        body = line.split("#")[0].split()
        if len(body) == 3 and body[0] == "name":
            cur = body[2]
        elif len(body) == 3 and body[0] == "base" and cur == "sv":
            line = "base = 0xf5007d00"
        elif len(body) == 3 and body[0] == "size" and cur == "vcpu":
            line = "size = 176"
        elif len(body) == 5 and cur == "vcpu":
            line = "%s %s 0x%02x %s %s" % (body[0], body[1], int(body[2], 0) + 0x24, body[3], body[4])
        out.append(line)
    out += ["", "name = app", "size = 72", "base = 0x00400240", "",
            "flag      c  0x00  %d    0",
            "delta     c  1     %d    0",
            "level     v  0x02  %04x  0",
            "gains[3]  v  4     %04x  0",
            "steps[2]  c  10    %d    0",
            "count     V  0x0c  %08x  0",
            "table[5]  V  16    %08x  0",
            "trim      c  36    %d    0",
            "last      V  0x44  %08x  0", ""]
    return "\n".join(out)


def custom_struct_session(rng, bufsize, window, fate, label):
    """struct and per-core field accesses of a controller given its own struct file (see custom_struct_text): field
    address = that file's base + offset; per-core field = block base + core x that file's block size + offset; a
    struct in a core's own memory is read / written in the memory of the core named in the call"""
    s = Session(rng, bufsize, window, fate, w=2, h=2, struct_text=custom_struct_text())
    try:
        sim = s.sim
        xy = (rng.randrange(2), rng.randrange(2))

        def values(pack, cnt):
            size = PACK_SIZE[pack]
            vals = [rng.choice((0, 256 ** size - 1, rng.randrange(256 ** size))) if pack.isupper() or pack == "v" else
                    rng.choice((-1, -(256 ** size) // 2, (256 ** size) // 2 - 1, rng.randrange(-100, 100)))
                    for _ in range(cnt)]
            return vals if cnt > 1 else vals[0]
        # the struct in each core's own data memory
        app = sim.structs["app"]
        cores = sorted({0, rng.randrange(1, 16), rng.choice((16, 17))})
        for core in cores:
            s.watch((xy[0], xy[1], core) if core else xy, app["base"] - 8, app["size"] + 16)
        for name in rng.sample(sorted(app["fields"]), 6):
            off, pack, cnt = app["fields"][name]
            nbytes = PACK_SIZE[pack] * cnt
            addr = [halves(app["base"]), off, 0, 0]
            for core in rng.sample(cores, 2):
                chip = (xy[0], xy[1], core) if core else xy
                v = values(pack, cnt)
                s.op("swrite", chip, addr, nbytes, _packed(v, pack, cnt),
                     lambda: s.mc.write_struct_field("app", name, v, xy[0], xy[1], core))
                s.op("sread", chip, addr, nbytes, None,
                     lambda: _packed(s.mc.read_struct_field("app", name, xy[0], xy[1], core), pack, cnt))
        # sv fields at the file's base
        sv = sim.sv
        s.watch(xy, sv["base"], sv["size"])
        for name in rng.sample(sorted(n for n, f in sv["fields"].items() if f[1] in PACK_SIZE and n not in (
                "vcpu_base", "sdram_sys", "rtr_copy", "alloc_tag", "p2p_dims", "iobuf_size")), 3):
            off, pack, cnt = sv["fields"][name]
            addr = [halves(sv["base"]), off, 0, 0]
            v = values(pack, cnt)
            s.op("swrite", xy, addr, PACK_SIZE[pack] * cnt, _packed(v, pack, cnt),
                 lambda: s.mc.write_struct_field("sv", name, v, xy[0], xy[1]))
            s.op("sread", xy, addr, PACK_SIZE[pack] * cnt, None,
                 lambda: _packed(s.mc.read_struct_field("sv", name, xy[0], xy[1]), pack, cnt))
        # per-core fields in blocks of the file's size
        vc = sim.vcpu
        vbase = sim.chips[xy].vcpu_base
        s.watch(xy, vbase, vc["size"] * 18)
        for name in rng.sample(sorted(n for n, f in vc["fields"].items() if f[1] in PACK_SIZE and f[2] == 1), 4):
            off, pack, cnt = vc["fields"][name]
            p = rng.choice((1, 2, rng.randrange(18), 17))
            addr = [halves(vbase), off, p, vc["size"], halves(sim.sv_addr("vcpu_base"))]
            v = values(pack, 1)
            s.op("swrite", xy, addr, PACK_SIZE[pack], _packed(v, pack, 1),
                 lambda: s.mc.write_vcpu_struct_field(name, v, xy[0], xy[1], p))
            s.op("sread", xy, addr, PACK_SIZE[pack], None,
                 lambda: _packed(s.mc.read_vcpu_struct_field(name, xy[0], xy[1], p), pack, 1))
        return s.trace(label)
    finally:
        s.close()


def _packed(v, pack, cnt):
    fmt = {"C": "B", "c": "b", "v": "H", "h": "h", "V": "I", "I": "I", "i": "i"}[pack]
    vals = list(v) if isinstance(v, (list, tuple)) else [v]
    return list(struct.pack("<%d%s" % (cnt, fmt), *vals))


def run(chk):
    rng = random.Random(chk.seed)
    chk.design("MemoryDesign", "MemoryDesign_%s.cfg" % chk.tier, expect_actions=("Issue", "CompleteAny", "Finish"))
    traces = []
    # exhaustive alignments: address offsets 0..7, lengths 0..3B+3, buffer sizes, windows
    bufs = chk.pick((4, 5, 7, 8, 10, 16), (4, 5, 6, 7, 8, 10, 12, 16, 32, 67, 254, 255, 256))
    for B in bufs:
        for window in chk.pick((1, 2, 4), (1, 2, 3, 4)):
            for off in range(8):
                lengths = list(range(0, 3 * B + 4)) if B <= 16 else sorted(
                    set(list(range(0, 9)) + [B - 1, B, B + 1, 2 * B - 1, 2 * B, 2 * B + 3, 3 * B + 3]))
                if chk.quick and B > 8:
                    lengths = sorted(set(lengths[:6] + rng.sample(lengths, 10) + lengths[-3:]))
                rate = rng.choice((0, 0, 0.05, 0.1))
                traces.append(rw_session(rng, B, window, off, lengths, faults(rng, rate),
                                         "rw B=%d W=%d off=%d faults=%s" % (B, window, off, rate)))
    # each core's own memory, cores 0..17
    for B in chk.pick((8, 64), (4, 8, 16, 64, 256)):
        for window in (1, 3):
            traces.append(core_local_session(rng, B, window, faults(rng, rng.choice((0, 0, 0.05))),
                                             "core-local memory B=%d W=%d" % (B, window)))
    # every kind of operation as the first thing a fresh controller does
    for B in chk.pick((16, 128), (8, 16, 64, 128, 255, 256)):
        for kind in ("link_read", "link_write", "read", "write", "fill"):
            window = rng.choice((1, 2, 4))
            traces.append(first_op_session(rng, B, window, faults(rng, rng.choice((0, 0, 0.05))), kind,
                                           "first operation %s B=%d W=%d" % (kind, B, window)))
    # large transfers
    for i in range(chk.pick(6, 150)):
        B = rng.choice((16, 64, 255, 256, 250))
        n = rng.choice((1000, 1023, 1024, 2049, 4096 + rng.randrange(7)))
        traces.append(rw_session(rng, B, rng.randint(1, 8), rng.randrange(4), [n], faults(rng, rng.choice((0, 0.05))),
                                 "large B=%d n=%d" % (B, n)))
    # other places in the address space (a transfer running across a 64 KiB boundary; the top half of the address
    # space: system RAM), the data of a write handed over as bytes / bytearray / memoryview
    for origin in chk.pick((SDRAM_BASE + 0x2fff0 - 300, SYSRAM_BASE + 0x100),
                           (SDRAM_BASE + 0x2fff0 - 300, SDRAM_BASE + 0xfff0, SYSRAM_BASE + 0x100, SYSRAM_BASE + 0xfc0)):
        for B in chk.pick((16, 255), (7, 16, 64, 255, 256)):
            lengths = sorted({0, 1, rng.randrange(2, B), B, B + 1, 2 * B + rng.randrange(4), 300 + rng.randrange(8), 700})
            traces.append(rw_session(rng, B, rng.randint(1, 4), rng.randrange(8), lengths,
                                     faults(rng, rng.choice((0, 0.05))), "elsewhere origin=%#x B=%d" % (origin, B),
                                     origin=origin, shapes=(bytes,)))        # (`data : bytes` is the documented type)
    # a controller given a struct file of its own
    for i in range(chk.pick(8, 200)):
        B = rng.choice((8, 16, 255, 256))
        traces.append(custom_struct_session(rng, B, rng.randint(1, 4), faults(rng, rng.choice((0, 0, 0.05))),
                                            "own struct file B=%d" % B))
    for i in range(chk.pick(60, 3000)):
        B = rng.choice((4, 7, 8, 16, 255, 256))
        rate = rng.choice((0, 0, 0.05, 0.15))
        traces.append(misc_session(rng, B, rng.randint(1, 4), faults(rng, rate), "misc B=%d faults=%s" % (B, rate)))
    ncmd = nop = 0
    for t in traces:
        for e in t["ev"]:
            if e[0] == "cmd":
                ncmd += 1
            elif e[0] == "op":
                nop += 1
                chk.note_case((t["bufsize"], e[1], e[4], e[5], t["label"]), nontrivial=e[5] > 0)
    chk.count("SCP commands executed by the machine and judged", ncmd)
    chk.count("client-level operations judged", nop)
    chk.rule = ("read / write through MachineController and SCPConnection for every start alignment 0..7 x every "
                "length 0..3B+3 x buffer sizes %s x window sizes, large transfers, fills (word / byte), sv struct "
                "fields, per-core fields (numbers; the application name written and read back), fields of a struct file "
                "of the caller's own (another base, another per-core block size, a struct in each core's own memory, "
                "signed and array fields), byte-wise fills of a core's own memory, transfers across a 64 KiB boundary "
                "and in system RAM link reads / writes (every "
                "link to a different chip in the first-operation sessions), with 0-15%% of datagrams lost / duplicated / delivered "
                "late; non-trivial = non-empty transfer; distinct = distinct (buffer, kind, address, length, session)"
                % (list(bufs),))
    chk.exhaustive = False
    chk.assumptions.append("struct field offsets come from the simulator's own parse of sark.struct (the struct table is a "
                           "constant of the model); buffer sizes below 4 are not exercised (no machine reports them)")
    chk.sample(dict(traces[0], ev=traces[0]["ev"][:6], windows=[dict(w, init=w["init"][:8]) for w in traces[0]["windows"]]))
    chk.sample(dict(traces[-1], ev=traces[-1]["ev"][:6], windows=[dict(w, init=w["init"][:8]) for w in traces[-1]["windows"]]))

    def key_of(tr, i, clauses):
        e = tr["ev"][i - 1]
        if e[0] == "final":
            return "final %s window=%s buf=%s %s" % (",".join(clauses), e[1], tr["bufsize"], tr["label"])
        return "%s %s %s addr=%s n=%s buf=%s %s" % (e[0], e[1], ",".join(clauses), e[4], e[5], tr["bufsize"], tr["label"])

    chk.validate("MemoryTrace", "MemoryTrace.cfg", traces, key_of=key_of, batch=400)

    # beyond the property: whole controller sessions (SDRAM allocation and the file-like views it returns live
    # here; so do signals, router entries, IP tags ...) judged against the machine model of Session.tla
    from . import session
    session.run_beyond(chk)


def selftest(chk):
    rng = random.Random(1)
    good = rw_session(rng, 8, 2, 3, [0, 5, 19], None, "selftest")
    import copy

    def mut(f):
        t = copy.deepcopy(good); f(t["ev"]); return t

    def first(evs, kind, pred=lambda e: True):
        return next(i for i, e in enumerate(evs) if e[0] == kind and pred(e))
    cases = [
        (good, None),
        (mut(lambda ev: ev[first(ev, "op", lambda e: e[1] == "read" and e[5] > 0)][6].__setitem__(0, 999)), "ReturnsStoredBytes"),
        (mut(lambda ev: ev.__delitem__(first(ev, "cmd", lambda e: e[1] == "write" and e[5] > 0))), "CoversExactly"),
        (mut(lambda ev: ev[first(ev, "cmd", lambda e: e[1] == "write" and e[5] > 0)].__setitem__(6, 2)), "AccessTypeAllowed"),
        (mut(lambda ev: ev[first(ev, "cmd", lambda e: e[5] > 0)].__setitem__(5, 9)), "WithinBuffer"),
        (mut(lambda ev: ev[-2][2].__setitem__(5, (ev[-2][2][5] + 1) % 256)), "EnvFinalMemory"),
    ]
    rej = chk.validate("MemoryTrace", "MemoryTrace.cfg", [c[0] for c in cases])
    got = {id(t): cl for t, _, cl in rej}
    msgs = []
    for t, want in cases:
        cl = got.get(id(t))
        if (want is None) != (cl is None) or (want and want not in cl):
            msgs.append("expected %s, got %s" % (want, cl))
    return not msgs, "; ".join(msgs) or "%d corrupted traces rejected with the expected clauses" % (len(cases) - 1)
