"""The wizard protocol of rig.wizard, its command-line front-end and rig.machine_control.unbooted_ping.listen (beyond
the listed properties): Wizard.tla / WizardDesign.tla / WizardTrace.tla.  Hosted by the C19 check (the dimensions
wizard answers with `standard_system_dimensions`, which C19 judges).

No oracle here: the driver builds the real generators, feeds them answers (every answer of a small alphabet, then
random ones), copies every message, answer and outcome into events; WizardTrace.tla judges.  The network is
env/wizardsim.py (virtual time, no real socket); `input` is substituted and stdout captured for cli_wrapper.
"""
import builtins
import contextlib
import copy
import io
import json
import random
from concurrent.futures import ThreadPoolExecutor

from rig import wizard as rw
from rig.machine_control import unbooted_ping

from .. import tlc as tlcmod
from ..core import MachineryError
from ..env.wizardsim import PingNet

D1, I1 = ["dims"], ["ip"]


def cat(*parts):
    return ["cat", list(parts)]


# the terms of WizardDesign's QuickTerms / ThoroughTerms
QUICK_TERMS = [D1, I1, cat(), cat(D1), cat(D1, I1), cat(I1, D1), cat(D1, D1), cat(I1, I1),
               cat(cat(), cat(I1), D1), cat(cat(cat(D1)), cat())]
MORE_TERMS = [cat(D1, I1, D1), cat(cat(I1, D1), cat(D1, I1)), cat(I1, cat(D1, cat(I1))), cat(D1, D1, D1)]
TEXTS = ["0", "1", "3", "6", "4", "x", "", "24x12", " 3 X 4 ", "12", "h"]
BOARD = ["192.168.240.253", 54321, 1500, 4000]          # an unbooted board: a ping every four seconds
NOISE = ["10.0.0.9", 17893, 100, 700]                     # somebody else's traffic on another port
MAX_MESSAGES = 40


def build(term):
    if term[0] == "dims":
        return rw.dimensions_wizard()
    if term[0] == "ip":
        return rw.ip_address_wizard()
    return rw.cat(*[build(t) for t in term[1]])


def has_ip(term):
    return term[0] == "ip" or (term[0] == "cat" and any(has_ip(t) for t in term[1]))


def codes(s):
    return [ord(c) for c in s]


def small(v):
    return int(v) if -2 ** 31 < int(v) < 2 ** 31 else -2


def enc_resp(v):
    if v is None:
        return ["none", 0, "", []]
    if isinstance(v, bool) or not isinstance(v, (int, str)):
        return ["other", 0, type(v).__name__, []]
    if isinstance(v, int):
        return ["i", small(v), "", []]
    return ["s", 0, v, codes(v)]


def enc_msg(m):
    kind = type(m).__name__
    text = getattr(m, "question", getattr(m, "message", ""))
    options = getattr(m, "options", [])
    default = getattr(m, "default", None)
    return ["yield", kind, text if isinstance(text, str) else "", [o if isinstance(o, str) else "" for o in options],
            [] if default is None else [small(default) if isinstance(default, int) else -2]]


def enc_data(d):
    if not isinstance(d, dict):
        return [["?", type(d).__name__, [], ""]]
    out = []
    for k in sorted(d, key=str):
        v = d[k]
        if isinstance(v, (tuple, list)) and all(isinstance(x, int) for x in v):
            out.append([str(k), type(v).__name__, [small(x) for x in v], ""])
        elif isinstance(v, str):
            out.append([str(k), "str", [], v])
        else:
            out.append([str(k), type(v).__name__, [], ""])
    return out


def texts_of(m):
    return [x for x in enc_msg(m)[2:3] + enc_msg(m)[3]]


def choices(m, texts):
    """the answers a front-end may give to message m (input generation: every option, every text)"""
    if isinstance(m, rw.MultipleChoice):
        return list(range(len(m.options)))
    if isinstance(m, rw.Text):
        return list(texts)
    return [None]


class NeedAnswer(BaseException):
    """the script of answers ran out at this message (used to enumerate dialogues)"""

    def __init__(self, msg):
        BaseException.__init__(self)
        self.msg = msg


class Overrun(BaseException):
    """the dialogue goes on and on (cut off; judged by clause DialogueTerminates)"""


# ---------------------------------------------------------------------------------------------- the generators
def run_gen(term, sources, script, pred=(), origin="gen", stop_when_out=False, final=False):
    """One dialogue with the real generator; script = the answers in order."""
    net = PingNet(sources)
    net.install(unbooted_ping)
    evs = []
    script = list(script)
    try:
        gen = build(term)
        resp = None
        for _ in range(MAX_MESSAGES):
            try:
                msg = gen.send(resp)
            except rw.Success as s:
                evs.append(["success", enc_data(s.data)])
                break
            except rw.Failure as f:
                evs.append(["failure", str(f)])
                break
            except Exception as ex:           # judged by the specification (NoException)
                evs.append(["raise", type(ex).__name__])
                break
            evs.append(enc_msg(msg))
            if not script:
                if stop_when_out:
                    break
                if final:
                    evs.append(["overrun"])
                    break
                raise NeedAnswer(msg)
            resp = script.pop(0)
            evs.append(["send", enc_resp(resp), []])
        else:
            evs.append(["overrun"])
    finally:
        net.uninstall()
    evs.append(["end"])
    return dict(mode="gen", origin=origin, wiz=term, net=[list(s) for s in sources], pred=list(pred), ev=evs)


def enumerate_runs(runner, alphabet, limit=100000):
    """Every run of `runner(script)` over the alphabet: a run whose script is too short says at which message it
    stopped, and is extended by every answer to that message."""
    out, stack = [], [[]]
    while stack and len(out) < limit:
        script = stack.pop()
        try:
            out.append(runner(script, final=True) if len(script) >= MAX_MESSAGES else runner(script))
        except NeedAnswer as need:
            for a in reversed(alphabet(need.msg)):
                stack.append(script + [a])
    return out


# ---------------------------------------------------------------------------------------------- cli_wrapper
class Spy(object):
    """Stands between cli_wrapper and the real generator and writes down what passes."""

    def __init__(self, gen, log):
        self.gen, self.log, self.started = gen, log, False

    def send(self, v):
        if self.started:
            self.log.sent(v)
        self.started = True
        try:
            m = self.gen.send(v)
        except rw.Success as s:
            self.log.ev.append(["success", enc_data(s.data)])
            raise
        except rw.Failure as f:
            self.log.ev.append(["failure", str(f)])
            raise
        self.log.yielded(m)
        if sum(1 for e in self.log.ev if e[0] == "yield") > MAX_MESSAGES:
            raise Overrun()
        return m

    def __next__(self):
        return self.send(None)

    next = __next__

    def __iter__(self):
        return self

    def throw(self, *a):
        return self.gen.throw(*a)

    def close(self):
        return self.gen.close()


class CliLog(object):
    def __init__(self, answers, final=False):
        self.ev, self.answers, self.out, self.final = [], list(answers), io.StringIO(), final
        self.msg, self.mark = None, 0

    def shown(self, extra=""):
        """where the texts of the message being asked occur in what was printed since it was yielded"""
        if self.msg is None:
            return []
        hay = self.out.getvalue()[self.mark:] + extra
        return [hay.find(t) for t in texts_of(self.msg)]

    def yielded(self, m):
        self.msg, self.mark = m, len(self.out.getvalue())
        self.ev.append(enc_msg(m))

    def sent(self, v):
        self.ev.append(["send", enc_resp(v), self.shown()])

    def input(self, prompt=""):
        if not self.answers:
            raise Overrun() if self.final else NeedAnswer(self.msg)
        a = self.answers.pop(0)
        self.ev.append(["input", str(prompt), a, codes(a), self.shown(str(prompt))])
        return a


def run_cli(term, sources, answers, origin="cli", final=False):
    net = PingNet(sources)
    net.install(unbooted_ping)
    log = CliLog(answers, final)
    saved_builtin = builtins.input
    saved_attr = getattr(rw, "input", None)
    builtins.input = log.input
    if hasattr(rw, "input"):
        rw.input = log.input
    try:
        with contextlib.redirect_stdout(log.out):
            try:
                ret = rw.cli_wrapper(Spy(build(term), log))
            except Overrun:
                log.ev.append(["overrun"])
            except Exception as ex:            # judged by the specification (NoException)
                log.ev.append(["raise", type(ex).__name__])
            else:
                log.ev.append(["return", "none", []] if ret is None else
                              ["return", "data" if isinstance(ret, dict) else type(ret).__name__, enc_data(ret)])
    finally:
        builtins.input = saved_builtin
        if saved_attr is not None:
            rw.input = saved_attr
        net.uninstall()
    log.ev.append(["end"])
    return dict(mode="cli", origin=origin, wiz=term, net=[list(s) for s in sources], pred=[], ev=log.ev)


def cli_alphabet(texts):
    def alphabet(m):
        if isinstance(m, rw.MultipleChoice):
            n = len(m.options)
            return [""] + [str(i) for i in range(n)] + [str(n), "-1", "x"]
        if isinstance(m, rw.Text):
            return list(texts)
        return [""]
    return alphabet


# ---------------------------------------------------------------------------------------------- listen
def run_listen(sources, calls, origin="listen"):
    """calls: (timeout in ms or None, port or None, 'pos' | 'kw')"""
    net = PingNet(sources)
    net.install(unbooted_ping)
    evs = []
    try:
        for (timeout, port, how) in calls:
            args, kw = [], {}
            if how == "pos" and (timeout is not None or port is None):
                if timeout is not None:
                    args.append(timeout / 1000.0)
                    if port is not None:
                        args.append(port)
            else:
                if timeout is not None:
                    kw["timeout"] = timeout / 1000.0
                if port is not None:
                    kw["port"] = port
            t0 = net.now
            try:
                r = unbooted_ping.listen(*args, **kw)
                outcome = "ok"
            except BaseException as ex:        # judged by the specification
                r, outcome = None, type(ex).__name__
            evs.append(["listen", dict(timeout=[] if timeout is None else [timeout], port=[] if port is None else [port]),
                        t0, [] if r is None else [r if isinstance(r, str) else repr(r)], net.now - t0, outcome])
    finally:
        net.uninstall()
    evs.append(["end"])
    return dict(mode="listen", origin=origin, wiz=cat(), net=[list(s) for s in sources], pred=[], ev=evs)


# ---------------------------------------------------------------------------------------------- random inputs
def random_term(rng, depth=0):
    k = rng.random()
    if depth >= 3 or k < 0.3:
        return rng.choice((D1, I1))
    return cat(*[random_term(rng, depth + 1) for _ in range(rng.choice((0, 1, 2, 2, 3)))])


def spaces(rng):
    return "".join(rng.choice(" \t") for _ in range(rng.choice((0, 0, 0, 1, 2))))


def random_text(rng):
    k = rng.random()
    if k < 0.3:
        return str(rng.choice((3, 3, 1)) * rng.randrange(0, 700))               # a number of boards (often a valid one)
    if k < 0.6:
        return "%s%d%s%s%s%d%s" % (spaces(rng), rng.randrange(0, 3000), spaces(rng), rng.choice("xX"), spaces(rng),
                                   rng.randrange(0, 3000), spaces(rng))
    if k < 0.75:
        return "".join(rng.choice("abcxX.:-_ 019") for _ in range(rng.randrange(0, 7)))
    if k < 0.85:
        return rng.choice(("spinn-%d.example" % rng.randrange(9), "192.168.%d.%d" % (rng.randrange(256), rng.randrange(256)),
                           "localhost", "h"))
    return rng.choice(("", "12x", "x12", "1 2x3", "24x12abc", " 3 ", "+3", "3.0", "-3", "3_0", "three", "24 by 12",
                       "12X12", "0x0", "2", "5", "7"))


def random_net(rng, term):
    if not has_ip(term):
        return rng.choice(([], [NOISE]))
    board = ["10.%d.%d.%d" % (rng.randrange(256), rng.randrange(256), rng.randrange(1, 255)), 54321,
             rng.randrange(1, 4000), rng.choice((2500, 3500, 4000))]
    return rng.choice(([], [board], [board], [NOISE, board], [NOISE]))


def random_gen(rng, k):
    term = random_term(rng)
    net = random_net(rng, term)

    def alphabet(m):
        return [rng.choice(choices(m, [random_text(rng) for _ in range(3)]))]
    return enumerate_runs(lambda script, **kw: run_gen(term, net, script, origin="gen-random", **kw), alphabet)[0]


def random_cli(rng, k):
    term = random_term(rng)
    net = random_net(rng, term)

    def alphabet(m):
        if isinstance(m, rw.MultipleChoice):
            n = len(m.options)
            return [rng.choice([str(i) for i in range(n)] * 3 + ["", "", str(n), str(n + 7), "-1", "-2", "x", "one", "1.5", "0 1"])]
        if isinstance(m, rw.Text):
            return [random_text(rng)]
        return [rng.choice(("", "", "ok", "y"))]
    return enumerate_runs(lambda script, **kw: run_cli(term, net, script, origin="cli-random", **kw), alphabet)[0]


def random_listen(rng, k):
    ports = (54321, 54321, 17893, 50000)
    sources = [["10.1.%d.%d" % (k % 250, i + 1), rng.choice(ports), rng.randrange(1, 12000),
                rng.choice((0, 0, 2500, 4000))] for i in range(rng.choice((0, 1, 1, 2, 3)))]
    calls = [(rng.choice((None, 500, 1000, 2500, 6000, 10000)), rng.choice((None, None, 54321, 17893, 50000)),
              rng.choice(("pos", "kw"))) for _ in range(rng.choice((1, 2, 3)))]
    return run_listen(sources, calls, origin="listen-random")


# ---------------------------------------------------------------------------------------------- replay (job R)
def parse_behaviours(infos):
    out = []
    for ln in sorted(set(infos)):
        out.append(json.loads(ln.replace('\\"', '"').replace("<<", "[").replace(">>", "]")))
    return out


def replay_one(term, disco, hist):
    """Step the real generator through one behaviour of WizardDesign: its answers are sent, what the real generator
    does at every step is recorded; WizardTrace compares (clause MatchesPrediction and all the others)."""
    sources = [[disco[0], 54321, 1500, 4000]] if disco else []
    script = []
    for h in hist:
        if h[0] == "send":
            script.append(h[2] if h[1] == "i" else h[3] if h[1] == "s" else None)
    return run_gen(term, sources, script, pred=hist, origin="replayed", stop_when_out=True)


def simulate(chk):
    r = tlcmod.run_tlc("WizardDesign", "WizardDesign_sim.cfg", workers=1, heap="2g", timeout=600,
                       simulate="num=%d" % chk.pick(400, 6000), depth=40, seed=chk.seed + 1)
    chk.jobs.append(dict(job="S", module="WizardDesign", cfg="WizardDesign_sim.cfg",
                         label="beyond the property: wizard protocol", **r.summary()))
    if not r.ok:
        raise MachineryError("simulation of WizardDesign failed: %s" % r.error)
    return parse_behaviours(r.infos)


# ---------------------------------------------------------------------------------------------- the jobs
WRONG = (("firstwins", "LaterOverrides"), ("swallow", "FailingEndsTheWhole"), ("anycount", "AnswerDeterminesData"))


def design_jobs(chk, pool):
    label = "beyond the property: wizard protocol"
    futs = [pool.submit(chk.design, "WizardDesign", chk.pick("WizardDesign_quick.cfg", "WizardDesign_thorough.cfg"),
                        workers=chk.pick(2, 8), expect_actions=("Yield", "Finish", "DNext"), label=label)]
    for variant, inv in WRONG:
        futs.append(pool.submit(chk.design, "WizardDesign", "WizardDesign_wrong_%s.cfg" % variant, workers=1,
                                label=label + " (wrong design: %s)" % variant, allow_error=True))
    return futs


def exhaustive(chk):
    traces = []
    terms = QUICK_TERMS + ([] if chk.quick else MORE_TERMS)
    for term in terms:
        nets = [[], [BOARD]] if has_ip(term) else [[]]
        for net in nets:
            traces += enumerate_runs(lambda script, **kw: run_gen(term, net, script, origin="gen-exhaustive", **kw),
                                     lambda m: choices(m, TEXTS))
    for term in (D1, I1, cat(), cat(I1, D1)) + (() if chk.quick else (cat(D1, I1), cat(cat(D1), D1))):
        nets = [[], [NOISE, BOARD]] if has_ip(term) else [[]]
        for net in nets:
            traces += enumerate_runs(lambda script, **kw: run_cli(term, net, script, origin="cli-exhaustive", **kw),
                                     cli_alphabet(TEXTS))
    # listen: one datagram at every time around every time-out, to the port listened on or another one
    for timeout in (None, 1000, 6000):
        for port in (None, 17893):
            for t in (1, 999, 1001, 5999, 6001, 20000):
                for dport in (54321, 17893):
                    traces.append(run_listen([["10.0.0.%d" % (1 + t % 200), dport, t, 0]], [(timeout, port, "pos")],
                                             origin="listen-exhaustive"))
    traces.append(run_listen([], [(None, None, "pos"), (250, 54321, "kw")], origin="listen-exhaustive"))
    traces.append(run_listen([["10.0.0.1", 54321, 700, 0], ["10.0.0.2", 54321, 300, 0], ["10.0.0.3", 17893, 100, 0]],
                             [(None, None, "pos"), (None, None, "pos")], origin="listen-exhaustive"))
    return traces


def run_beyond(chk):
    with ThreadPoolExecutor(6) as pool:
        futs = design_jobs(chk, pool)
        sim = pool.submit(simulate, chk)
        traces = exhaustive(chk)
        rng = random.Random(chk.seed + 1919)
        for k in range(chk.pick(150, 3000)):
            traces.append(random_gen(rng, k))
        for k in range(chk.pick(100, 2000)):
            traces.append(random_cli(rng, k))
        for k in range(chk.pick(100, 2000)):
            traces.append(random_listen(rng, k))
        results = [f.result() for f in futs]
        behaviours = sim.result()
    for (variant, inv), r in zip(WRONG, results[1:]):
        if r.ok or ("Invariant %s is violated" % inv) not in (r.error or ""):
            raise MachineryError("WizardDesign: the wrong design '%s' was not refuted by %s: %s" % (variant, inv, r.error))
    for j in chk.jobs:                       # (the counter-example of a refuted design is not evidence: keep its first line)
        if str(j.get("cfg", "")).startswith("WizardDesign_wrong") and j.get("error"):
            j["error"] = j["error"].split("\n")[0]
    rng.shuffle(behaviours)
    replayed = [replay_one(*b) for b in behaviours[:chk.pick(400, 6000)]]
    by_origin = {}
    for t in traces + replayed:
        by_origin[t["origin"]] = by_origin.get(t["origin"], 0) + 1
        chk.note_case((t["wiz"], t["net"], t["ev"]))
    rej = chk.validate_beyond("WizardTrace", "WizardTrace.cfg", traces + replayed,
                              "wizard dialogues, cli_wrapper runs, listen calls and replayed behaviours of WizardDesign "
                              "(Wizard.tla)", batch=4000, workers=chk.pick(8, 16))
    bad_replays = sum(1 for t, _, _ in rej if t["origin"] == "replayed")
    chk.replayed += len(replayed) - bad_replays
    chk.extra["wizard_model"] = dict(
        traces_by_origin=by_origin, behaviours_replayed=len(replayed), replayed_rejected=bad_replays,
        wrong_designs_refuted={v: i for v, i in WRONG})
    return rej


# ---------------------------------------------------------------------------------------------- self-test
def selftest(chk):
    """Binding demonstration: corrupted, dropped and swapped events must be rejected with the expected clause."""
    gen_ok = run_gen(cat(D1, I1), [BOARD], [2, "12", 0, None, None])
    gen_fail = run_gen(cat(I1, D1), [], [1, ""])
    cli_ok = run_cli(cat(I1, D1), [BOARD], ["", "", "3", " 5x7 "])
    cli_bad = run_cli(D1, [], ["4"])
    lis = run_listen([["10.0.0.2", 54321, 300, 0], ["10.0.0.1", 54321, 700, 0]], [(None, None, "pos"), (1000, 54321, "kw"), (500, None, "pos")])
    hist = [["yield", "type"], ["send", "i", 0, ""], ["success"]]
    rep = replay_one(D1, [], hist)

    def mut(t, f):
        t = copy.deepcopy(t)
        f(t)
        return t

    def idx(t, name, nth=0):
        return [i for i, e in enumerate(t["ev"]) if e[0] == name][nth]
    try:
        cases = [
            (gen_ok, None), (gen_fail, None), (cli_ok, None), (cli_bad, None), (lis, None), (rep, None),
            (mut(gen_ok, lambda t: t["ev"][idx(t, "success")][1][0].__setitem__(2, [36, 12])), "SuccessData"),
            (mut(gen_ok, lambda t: t["ev"][idx(t, "success")][1].pop()), "SuccessData"),
            (mut(gen_ok, lambda t: t["ev"].pop(idx(t, "send", 1))), "Protocol"),
            (mut(gen_ok, lambda t: t["ev"][idx(t, "yield", 1)].__setitem__(1, "Prompt")), "MessageKind"),
            (mut(gen_ok, lambda t: t["ev"][idx(t, "yield", 2)].__setitem__(4, [])), "MessageOptions"),
            (mut(gen_ok, lambda t: t["ev"].__setitem__(idx(t, "success"), ["failure", "no"])), "FailureOnlyWhenDue"),
            (mut(gen_fail, lambda t: t["ev"].__setitem__(idx(t, "failure"), ["success", [["ip_address", "str", [], ""]]])),
             "SuccessOnlyWhenComplete"),
            # a failed part swallowed by cat: the dialogue goes on with the next wizard
            (mut(gen_fail, lambda t: t["ev"].__setitem__(idx(t, "failure"), copy.deepcopy(gen_ok["ev"][0]))), "MessageInTurn"),
            # a trace cut short (no outcome) must not pass
            (mut(gen_fail, lambda t: t["ev"].pop(idx(t, "failure"))), "EndsWithOutcome"),
            (mut(cli_ok, lambda t: t["ev"].pop(idx(t, "input", 1))), "CliOneInputPerQuestion"),
            (mut(cli_ok, lambda t: t["ev"][idx(t, "return")][2][0].__setitem__(2, [7, 5])), "CliReturnsData"),
            (mut(cli_ok, lambda t: t["ev"][idx(t, "send", 0)][1].__setitem__(1, 1)), "CliSendsTheAnswer"),
            (mut(cli_ok, lambda t: t["ev"][idx(t, "input", 0)][4].__setitem__(2, -1)), "CliShowsMessage"),
            (mut(cli_bad, lambda t: t["ev"][idx(t, "return")].__setitem__(1, "data")), "CliReturnsNone"),
            (mut(lis, lambda t: t["ev"][0].__setitem__(3, ["10.0.0.1"])), "ListenReturnsFirstSource"),
            (mut(lis, lambda t: t["ev"][2].__setitem__(4, 400)), "ListenWaitsTheWholeTimeout"),
            (mut(rep, lambda t: t["pred"][1].__setitem__(2, 1)), "MatchesPrediction"),
        ]
    except IndexError:
        return False, "a self-test dialogue lacks one of the events it corrupts"
    rej = chk.validate("WizardTrace", "WizardTrace.cfg", [c[0] for c in cases])
    got = {id(t): cl for t, _, cl in rej}
    msgs = []
    for t, want in cases:
        cl = got.get(id(t))
        if (want is None) != (cl is None) or (want and want not in cl):
            msgs.append("expected %s, got %s" % (want, cl))
    return not msgs, "; ".join(msgs) or "%d corrupted wizard / cli / listen traces rejected with the expected clauses" % (
        len(cases) - 6)
