"""C09, job R - behaviours of the loader's design chosen by TLC's simulator, replayed through the real loader.

S: LoadAppSim.tla (LoadAppDesign with a history variable) is simulated by TLC at a size the exhaustive job cannot
   reach (4 chips x 3 cores, up to 3 binaries of 1-3 blocks, n_tries 0..3, both verification modes, up to 4 cores
   already waiting from earlier loads).  TLC draws the scenario and, for every fill of every attempt, the set of
   chips that miss it; each finished behaviour is printed as one INFO line of JSON (scenario, per-fill misses and the
   cores the design's loader addressed, the cores' condition after every attempt, outcome, error map, final cores).
R: every behaviour is made concrete (chip k -> a chip of a simulated machine, core j -> a core number, binary b -> a
   file of blocks[b] buffers of bytes; these names are drawn by a seeded generator and carried in the trace) and
   replayed: first one earlier real call that leaves the already-waiting cores behind (a trace of its own, judged by
   the same module), then ONE real MachineController.load_application against
   the simulated machine, whose chips miss exactly the fills TLC chose - keyed by (binary, how many fills of that
   binary came before), because the order of the fills inside an attempt is the loader's to choose
   (env/loadappsim.py decides when the fill's data has identified its binary).
T: the recorded call is judged by LoadAppReplayTrace.tla: every clause of LoadAppTrace (so a rejection is a violation
   of C09) and, at the final event ["design", <the INFO record, untouched>], MatchesPrediction: outcome and error map,
   number of attempts, fills per attempt, cores addressed by every fill, the miss schedule really applied, the
   cores after every attempt and after the call must be what the design's behaviour predicted.

No oracle here: this file translates names, calls rig and copies the simulator's log (helpers of c09.py).
"""
import copy
import json
import random
import re

from rig.machine_control import scp_connection, machine_controller
from rig.machine_control.machine_controller import MachineController

from .. import tlc as tlcmod
from ..core import MachineryError
from ..env.loadappsim import LateMissMachine
from ..env.simnet import SimNet
from . import c09

MODULE, CFG = "LoadAppReplayTrace", "LoadAppReplayTrace.cfg"
SHAPES = {1: [(1, 1)], 2: [(2, 1), (1, 2)], 3: [(3, 1), (1, 3)], 4: [(4, 1), (2, 2), (1, 4)]}
_SIMS = {}


def get_sim(w, h):
    sim = _SIMS.get((w, h))
    if sim is None:
        sim = _SIMS[(w, h)] = LateMissMachine(w, h, c09.STRUCT_TEXT)
    return sim


# ---------------------------------------------------------------------------------------------- behaviours from TLC
def behaviours(chk, n, seed, cfg="LoadAppSim.cfg"):
    """n behaviours of LoadAppSim chosen by TLC's simulator, as the records its Emit invariant printed.
    (LoadAppSim.cfg checks the design's outcome invariants along every behaviour; LoadAppSim_thorough.cfg all of the
    design's invariants and action properties - the behaviours drawn for a seed are the same)"""
    r = tlcmod.run_tlc("LoadAppSim", cfg, workers=1, timeout=3000, simulate="num=%d" % n, depth=160,
                       seed=seed)
    m = re.search(r"(\d+) states checked, (\d+) traces generated", r.out)
    chk.jobs.append(dict(job="S", module="LoadAppSim", cfg=cfg,
                         **dict(r.summary(), generated=int(m.group(1)) if m else 0, behaviours=int(m.group(2)) if m else 0)))
    if not r.ok or not r.infos:
        raise MachineryError("simulation of LoadAppSim failed: %s" % (r.error or "no behaviour printed"))
    return [json.loads(line.replace('\\"', '"')) for line in sorted(set(r.infos))]


# ---------------------------------------------------------------------------------------------- concrete names
def concretise(b, rng):
    """names for the design's chips, cores, binaries and application id (any injective choice will do; the trace
    carries the choice and the specification translates with it)"""
    w, h = rng.choice(SHAPES.get(b["nchips"]) or [(b["nchips"], 1)])
    chips = [(x, y) for x in range(w) for y in range(h)]
    rng.shuffle(chips)
    buf = rng.choice((16, 16, 16, 32))
    datas = []
    for bn, nb in enumerate(b["blocks"], 1):
        n = rng.randrange((nb - 1) * buf + 4, nb * buf + 1, 4)
        datas.append(bytes(bytearray([bn] + [rng.randrange(256) for _ in range(n - 1)])))     # pairwise different
    other = bytes(bytearray([0xee] + [rng.randrange(256) for _ in range(rng.choice((4, buf, buf + 8)) - 1)]))
    used = sorted({t[2] for t in b["targets"]})
    order = list(used)
    rng.shuffle(order)                                   # the order of the binaries in the map given to the loader
    return dict(w=w, h=h, dchips=[list(c) for c in chips[:b["nchips"]]],
                dcores=rng.sample(range(1, 18), b["ncores"]), buf=buf, app=rng.choice((16, 30, 66, 255)),
                datas=datas, other=other, order=order,
                style="two" if len(order) == 1 and rng.random() < 0.5 else "map", how=rng.choice(("kw", "kw", "ctx")),
                nn_id=rng.choice((0, 0, 1, 60, 124, 125, 126)),
                # (drawn last, so that the names above stay what they were): arguments left to their documented
                # defaults / overriding an enclosing block; the shape of the application map
                how2=rng.choice((None, None, "dflt", "over")), shape=rng.choice(("dict", "ordered", "appmap", "frozen")))


def targets_of(cn, cores):
    """design cores [chip, core] -> {(x, y): {p}}"""
    tg = {}
    for c in cores:
        tg.setdefault(tuple(cn["dchips"][c[0] - 1]), set()).add(cn["dcores"][c[1] - 1])
    return tg


# ---------------------------------------------------------------------------------------------- one replay
def replay(wd, b, cn, schedule=None):
    """the behaviour b under the names cn through the real loader.  Returns (trace of the call, traces of the
    earlier loads).  schedule (self-test only): per-binary miss lists to apply instead of the behaviour's."""
    sim = get_sim(cn["w"], cn["h"])
    c09.reset_sim(sim, cn["buf"], 18)
    sim.late_miss, sim.applied = None, []
    # which chips miss the j-th fill of each binary (the j-th fill of a binary belongs to attempt j: a binary is
    # filled in every attempt until it is no longer believed unloaded)
    per_bin = {}
    for f in b["fills"]:
        per_bin.setdefault(cn["datas"][f["bin"] - 1], []).append([tuple(cn["dchips"][ch - 1]) for ch in f["miss"]])
    if schedule is not None:
        per_bin = schedule(per_bin)
    done = {}

    def late_miss(image):
        k = done.get(image, 0)
        done[image] = k + 1
        lst = per_bin.get(image, [])
        return lst[k] if k < len(lst) else []
    net = SimNet(sim)
    net.install(scp_connection, machine_controller)
    try:
        mc = MachineController("sim")
        earlier = []
        pre = {}
        for (ch, co, _state, _app, bn) in b["init"]:
            pre.setdefault(bn, []).append([ch, co])
        if pre:             # one earlier call of the real loader puts them there (nobody misses; left waiting)
            t, _ = c09.one_call(sim, mc, wd, dict(
                app=cn["app"], wait=1, ntries=2, usecount=0, style="map", miss=[],
                bins=[(cn["other"] if bn == b["otherbin"] else cn["datas"][bn - 1], targets_of(cn, pre[bn]))
                      for bn in sorted(pre)],
                label="earlier load before a replayed behaviour"))
            earlier.append(t)
        if hasattr(mc, "_nn_id"):
            mc._nn_id = cn["nn_id"]
        bins = [(cn["datas"][bn - 1], targets_of(cn, [t for t in b["targets"] if t[2] == bn])) for bn in cn["order"]]
        sim.late_miss, sim.applied = late_miss, []
        try:
            tr, _ = c09.one_call(sim, mc, wd, dict(app=cn["app"], wait=b["wait"], ntries=b["ntries"],
                                                    usecount=b["usecount"], style=cn["style"],
                                                    how=cn.get("how2") or cn["how"], shape=cn.get("shape", "dict"),
                                                    bins=bins, miss=[], nn_id=cn["nn_id"],
                                                    label="tlc-simulated behaviour of LoadAppDesign"))
        finally:
            sim.late_miss = None
    finally:
        net.uninstall()
    tr["miss"] = [list(m) for m in sim.applied]
    tr["dchips"], tr["dcores"] = cn["dchips"], cn["dcores"]
    tr["dbins"] = [cn["order"].index(bn) + 1 if bn in cn["order"] else 0 for bn in range(1, len(b["blocks"]) + 1)]
    tr["other"] = list(bytearray(cn["other"]))
    # The docstring's "number of attempts" has two readings: n_tries re-tries after the first attempt (as coded:
    # at most n_tries + 1 attempts, which LoadAppDesign follows) or n_tries attempts in all.  The property only says
    # the attempts are bounded, so the design's prediction is an obligation only for behaviours on which both readings
    # agree - those in which the design does not need its (n_tries + 1)-th attempt.  The others are still judged by
    # every clause of LoadAppTrace (returned => all loaded, raised => exactly the missing cores, bounded attempts).
    if b["attempts"] <= max(1, b["ntries"]):
        tr["ev"].append(["design", b])
    else:
        tr["label"] = tr.get("label", "") + " (design needs its last attempt: prediction not an obligation)"
    return tr, earlier


def run_replay(chk, n=None):
    """called by c09.run: simulate, replay, judge.  Returns the traces produced."""
    n = chk.pick(200, 3000) if n is None else n
    wd = c09.Workdir(chk)
    bs = behaviours(chk, n, chk.seed + 1, chk.pick("LoadAppSim.cfg", "LoadAppSim_thorough.cfg"))
    traces = []
    for k, b in enumerate(bs):
        rng = random.Random(chk.seed * 1000003 + k)
        tr, earlier = replay(wd, b, concretise(b, rng))
        traces.extend(earlier)
        traces.append(tr)
        judged = tr["ev"][-1][0] == "design"
        c09.note(chk, dict(tr, ev=tr["ev"][:-1] if judged else tr["ev"]))   # (counted like the calls of job T)
        chk.replayed += 1
        chk.count("tlc-simulated behaviours whose prediction is an obligation (both readings of n_tries agree)" if judged
                  else "tlc-simulated behaviours judged by LoadAppTrace's clauses only (the design needs attempt n_tries + 1)")
        chk.count("tlc-simulated behaviours in which the design %s" % b["outcome"])
        chk.count("tlc-simulated behaviours: fills with at least one addressed chip missing",
                  sum(1 for f in b["fills"] if {c[0] for c in f["cores"]} & set(f["miss"])))
    chk.extra["tlc_simulated_behaviours_replayed_into_impl"] = len(bs)
    chk.extra["tlc_simulated_domain"] = ("LoadAppSim.cfg: 4 chips x 3 cores, up to 3 binaries of 1-3 blocks, n_tries 0..3, "
                                         "count / per-core verification, wait on/off, up to 4 cores already waiting, "
                                         "every subset of chips may miss every fill")
    chk.assumptions.append(
        "job R: LoadAppDesign makes at most n_tries + 1 attempts (n_tries re-tries, as coded and as LoadAppTrace's "
        "AttemptsBounded allows at most); the other reading of the docstring (n_tries attempts in all) is equally "
        "'bounded', so MatchesPrediction is an obligation only for the behaviours in which the design does not need "
        "attempt n_tries + 1 (the rest are judged by LoadAppTrace's clauses alone)")
    if traces:
        chk.sample(traces[-1]["ev"][-1])
    chk.validate(MODULE, CFG, traces, key_of=c09.key_of, batch=1500, workers=chk.pick(4, 16),
                 label="replayed behaviours of LoadAppSim")
    return traces


# ---------------------------------------------------------------------------------------------- self-test
def selftest(chk):
    wd = c09.Workdir(chk)
    bs = behaviours(chk, 120, 7)

    def first(pred):
        for b in bs:
            if pred(b):
                return b
        raise MachineryError("no simulated behaviour of the wanted kind among %d" % len(bs))

    def hit(b):          # some fill in which a chip that was addressed missed
        return any({c[0] for c in f["cores"]} & set(f["miss"]) for f in b["fills"])
    ret = first(lambda b: b["outcome"] == "returned" and b["attempts"] >= 2 and b["init"] and len(b["fills"]) >= 3)
    rai = first(lambda b: b["outcome"] == "raised" and b["attempts"] >= 2 and len(b["err"]) >= 2 and b["final"])
    cnt = first(lambda b: b["outcome"] == "returned" and b["usecount"] == 1 and b["attempts"] >= 2 and hit(b))
    good = []
    for k, b in enumerate((ret, rai, cnt)):
        tr, earlier = replay(wd, b, concretise(b, random.Random(k)))
        good.extend(earlier)
        good.append(tr)
    g_ret, g_rai = [t for t in good if t["ev"][-1][0] == "design"][:2]

    def mut(tr, f):
        t = dict(tr)
        t["ev"] = copy.deepcopy(tr["ev"])
        f(t["ev"][-1][1], t["ev"])
        return t

    def drop_hit_miss(D, ev):
        f = [f for f in D["fills"] if {c[0] for c in f["cores"]} & set(f["miss"])][0]
        f["miss"] = [m for m in f["miss"] if m not in {c[0] for c in f["cores"]}]
    # the real loader under another schedule than the one the design was given: nobody misses the first fill
    # of the first binary that had an addressed chip missing
    def other_schedule(per_bin):
        out = {k: [list(s) for s in v] for k, v in per_bin.items()}
        for k in sorted(out):
            if any(out[k][0]):
                out[k][0] = []
                break
        return out
    rai1 = first(lambda b: b["outcome"] == "raised" and b["attempts"] == 1)
    skewed = replay(wd, rai1, concretise(rai1, random.Random(5)), schedule=other_schedule)[0]
    d0 = [i for i, e in enumerate(g_ret["ev"]) if e[0] == "data"][0]
    cases = [(t, None) for t in good] + [
        (mut(g_ret, lambda D, ev: D.__setitem__("outcome", "raised")), "PredictedOutcome"),
        (mut(g_rai, lambda D, ev: D.__setitem__("outcome", "returned")), "PredictedOutcome"),
        (mut(g_rai, lambda D, ev: D["err"].pop()), "PredictedOutcome"),
        (mut(g_rai, lambda D, ev: D["err"][0].__setitem__(2, D["err"][0][2] % 3 + 1)), "PredictedOutcome"),
        (mut(g_ret, lambda D, ev: D.__setitem__("attempts", D["attempts"] + 1)), "PredictedAttempts"),
        (mut(g_ret, lambda D, ev: D["fills"].pop()), "PredictedFillsPerAttempt"),
        (mut(g_ret, lambda D, ev: D["fills"][-1].__setitem__("att", D["fills"][-1]["att"] - 1)), "PredictedFillsPerAttempt"),
        (mut(g_ret, lambda D, ev: D["fills"][0]["cores"].pop()), "PredictedCoresAddressed"),
        (mut(g_ret, lambda D, ev: D["fills"][-1].__setitem__("cores", list(D["fills"][0]["cores"]))), "PredictedCoresAddressed"),
        (mut(g_ret, drop_hit_miss), "ScheduleAsChosen"),
        (mut(g_ret, lambda D, ev: D["after"][0][0].__setitem__(2, 11)), "PredictedStateAfterEachAttempt"),
        (mut(g_ret, lambda D, ev: D["after"].pop()), "PredictedStateAfterEachAttempt"),
        (mut(g_ret, lambda D, ev: D["final"][0].__setitem__(2, 11)), "PredictedFinalState"),
        (mut(g_ret, lambda D, ev: D["final"].pop()), "PredictedFinalState"),
        (mut(g_rai, lambda D, ev: D["final"][-1].__setitem__(3, 0)), "PredictedFinalState"),
        (skewed, "MatchesPrediction"),
        # the clauses of LoadAppTrace stay live in the extended module
        (mut(g_ret, lambda D, ev: ev[d0][6].__setitem__(0, ev[d0][6][0] ^ 1)), "ImageReassembles"),
        (mut(g_rai, lambda D, ev: ev[-2].__setitem__(2, [])), "RaisedNamesExactlyMissing"),
    ]
    rej = chk.validate(MODULE, CFG, [c[0] for c in cases])
    got = {id(t): cl for t, _, cl in rej}
    msgs = []
    for n, (tr, want) in enumerate(cases):
        cl = got.get(id(tr))
        if (want is None) != (cl is None) or (want and want not in cl):
            msgs.append("case %d: expected %s, got %s" % (n, want, cl))
    return not msgs, "; ".join(msgs) or "%d good replays accepted, %d corrupted predictions / replays rejected with the " \
                                        "expected clauses" % (len(good), len(cases) - len(good))
