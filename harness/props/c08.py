"""C08 - bit-field keys are collision-free: fields never overlap or overflow.

D: BitFieldDesign.tla - field layout as a state machine (AddField / SetValue / Assign as the permissive
   post-condition and as the first-fit algorithm) at length 4: NoOverlap, WideEnough, the algorithm refines the
   post-condition, and success whenever the co-enabled widths fit.  A second job runs the scan range as rig codes
   it (one position short) and is expected to violate the success guarantee.
T: histories of operations on real rig.bitfield.BitField objects (add_field, calling the bit field with values,
   assign_fields, then everything every derived bit field reports) judged by BitFieldTrace.tla.

This module contains no oracle.  It generates programs, runs them on rig, and writes down what happened:
arguments, "ok" or the exception class, and after every successful assign_fields the table of what each
derived bit field reports.  32-bit values, keys and masks are written as lists of their one-bit positions.
"""
import itertools
import json
import os
import random

from rig.bitfield import BitField, UnavailableFieldError

from ..core import MachineryError, digest

TAGS = ("t0", "t1", "t2")
EXACT_FIT_KEY = "MustSucceed exact-fit: widths sum to the bit field length"
CROSS_KEY = ("MustSucceed cross-scope: fields of independent scopes (a=0 with b=1) can be present together and "
             "first-fit needs the top position or leaves a gap")


# how the caller hands over tags (see Session.add)
TAGFORMS = (0, 0, 1, 2, 3, 3, 4, 6, 8)    # (left out: 5, a one-shot generator, is no 'collection of strings'; 7, a
                                          # string with stray spaces, is not clearly a 'space-separated list of tags')
# An automatic field given 2^k - 1 with k >= 48 gets k + 1 bits from rig (int(log(v, 2)) + 1 in floating point), so a
# bit field that the widths fill exactly was refused.  Found by the coverage audit of the sixth session on the pinned
# tree and repaired (fix: 62f82cb, max_value.bit_length()); the inputs are generated on every run
# (VERIF_C08_WIDE_ONES=0 leaves them out).
WIDE_ONES_FROM = 48
WIDE_ONES = os.environ.get("VERIF_C08_WIDE_ONES", "1") != "0"
WIDE_ONES_KEY = ("MustSucceed all-ones >= 48 bits: an automatic field given 2^k - 1 (k >= 48) is laid out with k + 1 "
                 "bits, so a bit field its widths fill exactly is refused")


RECURSION_KEY = ("MustSucceed after RecursionError: add_field through a bit field whose values come from different "
                 "levels of the hierarchy (a=0, b=1, c=2 with c defined under a=0 only) recurses without bound and "
                 "leaves the field tree unusable")


def bits(v):
    return [i for i in range(v.bit_length()) if (v >> i) & 1]


def opt(x):
    return [] if x is None else [x]


def enc_scope(d):
    return [[k, bits(v)] for k, v in sorted(d.items())]


def skey(d):
    return tuple(sorted(d.items()))


class Session(object):
    """Drives one rig BitField and the bit fields derived from it; records every operation as an event."""

    def __init__(self, length, max_handles=28, scribble=False):
        self.length = length
        self.root = BitField(length)
        # the caller treats what get_tags returns as its own: it empties the set and puts a word of its own in
        self.scribble = scribble
        # generation bookkeeping (TLC checks the claim, clause AllPositioned): a layout has been reported and every
        # field accepted since then was defined with a length and a position
        self.settled = False
        self.handles = {(): self.root}       # scope -> derived rig BitField (insertion ordered)
        self.ops = []                        # replayable program
        self.ev = []
        self.names = []                      # names ever passed to add_field
        self.tags = []                       # tags ever passed to add_field
        self.accepted = []                   # (name, cond, length, start) of accepted add_field calls
        self.values = {}                     # name -> values accepted for a field of that name
        self.max_handles = max_handles
        self.counts = {}
        self.kept_sets = {}
        # set when add_field / a call overflowed the stack (known finding: a scope whose values come from different
        # branches): the field tree is left half-built, whatever the object does afterwards is undefined - and
        # differs between equally good implementations (a recursive layout overflows too, an iterative one returns
        # nonsense) - so the session ends there; the failing call itself is judged
        self.dead = False

    def _n(self, k):
        self.counts[k] = self.counts.get(k, 0) + 1

    # ---------------------------------------------------------------- operations
    def add(self, scope, name, length=None, start=None, tags=(), tagform=0):
        h = self.handles.get(skey(scope))
        if h is None or self.dead:
            return None
        tags = tuple(tags)
        self.ops.append(["add", dict(scope), name, length, start, list(tags), tagform])
        if name not in self.names:
            self.names.append(name)
        for t in tags:
            if t not in self.tags:
                self.tags.append(t)
        # the shapes "a string or collection of strings" takes: 0 a space-separated string, 1 a list, 2 a set of the
        # caller's (which the caller empties once the call has returned), 3 ONE set object per combination of tags
        # that the caller keeps and hands to every definition with those tags (what is recorded is the tags this
        # definition was given; that set is never changed here), 4 a tuple, 5 a generator (can be read once), 6 a
        # frozenset, 7 a string with leading, trailing and doubled spaces, 8 the keys of a dictionary
        if not tags:
            targ = {1: [], 4: (), 5: iter(()), 6: frozenset(), 7: "  ", 8: {}.keys()}.get(tagform)
        elif tagform == 0:
            targ = " ".join(tags)
        elif tagform == 1:
            targ = list(tags)
        elif tagform == 2:
            targ = set(tags)
        elif tagform == 3:
            targ = self.kept_sets.setdefault(frozenset(tags), set(tags))
        elif tagform == 4:
            targ = tuple(tags)
        elif tagform == 5:
            targ = (t for t in list(tags))
        elif tagform == 6:
            targ = frozenset(tags)
        elif tagform == 7:
            targ = " " + "  ".join(tags) + " "
        else:
            targ = dict.fromkeys(tags, 0).keys()
        self._n("tags given as form %d" % tagform)
        try:
            h.add_field(name, length=length, start_at=start, tags=targ)
            res = "ok"
            self.accepted.append((name, dict(scope), length, start))
            if length is None or start is None:
                self.settled = False
        except Exception as ex:
            res = type(ex).__name__
            self._n("add raised " + res)
            self.dead = self.dead or isinstance(ex, RecursionError)
        if tagform == 2 and tags:
            targ.clear()
        self.ev.append(["add", enc_scope(scope), name, opt(length), opt(start), list(tags), res])
        return res

    def call(self, scope, newvals, record_op=True):
        h = self.handles.get(skey(scope))
        if h is None or self.dead:
            return None
        if record_op:
            self.ops.append(["call", dict(scope), dict(newvals)])
        try:
            h2 = h(**dict(newvals))
            res = "ok"
        except Exception as ex:
            res = type(ex).__name__
            self._n("call raised " + res)
            self.dead = self.dead or isinstance(ex, RecursionError)
        self.ev.append(["call", enc_scope(scope), enc_scope(newvals), res])
        if res != "ok":
            return None
        merged = dict(scope)
        merged.update(newvals)
        self.handles.setdefault(skey(merged), h2)
        for k, v in newvals.items():
            self.values.setdefault(k, [])
            if v not in self.values[k]:
                self.values[k].append(v)
        return merged

    def assign(self, scope=None):
        if self.dead:
            return None
        h = self.handles.get(skey(scope or {}), self.root)
        self.ops.append(["assign", dict(scope or {})])
        try:
            h.assign_fields()
            res = "ok"
        except Exception as ex:
            res = type(ex).__name__
            self._n("assign raised " + res)
        self.ev.append(["assign", res])
        if res == "ok":
            self._n("assign ok")
            self.settled = True
            self._complete()
            self._table()
        return res

    def observe(self):
        """the table again WITHOUT another assign_fields: a layout was reported earlier and every field defined since
        has an explicit length and position, so every field is assigned and the property's clauses apply as they do
        after assign_fields (event "retable"; TLC verifies the claim)"""
        if self.dead or not self.settled:
            return None
        self.ops.append(["observe"])
        self.ev.append(["retable"])
        self._n("tables without a new assign_fields")
        self._complete()
        self._table()
        return "ok"

    # ---------------------------------------------------------------- observation
    def _shown(self, h):
        """names of the fields a derived bit field shows: rig's own enumeration, plus any name ever defined
        that the public getters do not refuse as unavailable"""
        try:
            shown = [i for i, _ in h.fields.enabled_fields(h.field_values)]
        except Exception:
            shown = []
        for n in self.names:
            if n not in shown:
                try:
                    h.get_location_and_length(n)
                except UnavailableFieldError:
                    continue
                except Exception:
                    pass
                shown.append(n)
        return shown

    def _complete(self):
        """derive bit fields until every reachable scope built from the values given so far has been
        visited (bounded): complete value assignments are what KeysDistinct compares"""
        def expand(scope):
            if len(self.handles) >= self.max_handles:
                return
            h = self.handles[skey(scope)]
            unset = [n for n in self._shown(h) if n not in scope]
            if not unset:
                return
            n = unset[0]
            cands = list(self.values.get(n, []))[:3]
            for v in (0, 1):
                if len(cands) < 2 and v not in cands:
                    cands.append(v)
            for v in cands:
                if len(self.handles) >= self.max_handles:
                    return
                m = dict(scope)
                m[n] = v
                if skey(m) in self.handles:
                    expand(m)
                    continue
                m = self.call(scope, {n: v}, record_op=False)
                if m is not None:
                    expand(m)
        for k in list(self.handles):
            expand(dict(k))

    def _table(self):
        for k, h in list(self.handles.items()):
            scope = dict(k)
            rows = []
            for n in self._shown(h):
                try:
                    loc, ln = h.get_location_and_length(n)
                    got = h.get_tags(n)
                    tags = sorted(got)
                    if self.scribble:
                        got.clear()
                        got.add("scribbled")
                    fmask = bits(h.get_mask(field=n))
                    fkey = []
                    if n in scope:
                        try:
                            fkey = [bits(h.get_value(field=n))]
                        except Exception:
                            fkey = []
                    rows.append([n, "ok", int(loc), int(ln), tags, fmask, fkey])
                except Exception as ex:
                    rows.append([n, "raise", type(ex).__name__])
            try:
                mask = [bits(h.get_mask())]
            except Exception:
                mask = []
            try:
                key = [bits(h.get_value())]
            except Exception:
                key = []
            tagrows = []
            for t in self.tags:
                try:
                    m = bits(h.get_mask(tag=t))
                except Exception as ex:
                    tagrows.append([t, "raise", type(ex).__name__])
                    continue
                try:
                    tk = [bits(h.get_value(tag=t))]
                except Exception:
                    tk = []
                tagrows.append([t, "ok", m, tk])
            self.ev.append(["scope", enc_scope(scope), rows, mask, key, tagrows])
            self._n("scopes reported")
        self.ev.append(["endtable"])

    def trace(self, label=""):
        ev = self.ev + [["end"]]
        prog = dict(len=self.length, ops=self.ops, max_handles=self.max_handles, scribble=self.scribble)
        return dict(len=self.length, ev=ev, label=label, prog=json.dumps(prog, sort_keys=True))


def execute(prog, label="replay"):
    """re-run a recorded program (replay artefacts, selftest)"""
    s = Session(prog["len"], prog.get("max_handles", 28), prog.get("scribble", False))
    for op in prog["ops"]:
        if op[0] == "add":
            s.add(op[1], op[2], op[3], op[4], op[5], op[6])
        elif op[0] == "call":
            s.call(op[1], op[2])
        elif op[0] == "assign":
            s.assign(op[1])
        elif op[0] == "observe":
            s.observe()
    return s


# ---------------------------------------------------------------------------- small scope, exhaustive
def small_programs(domain):
    """domain: list of (L, n, every_kind).  Every hierarchy of n fields in a bit field of length L: each field
    under the root or under a value (0/1) of an earlier field (the last of three also under values of both
    earlier fields), names in canonical order with re-use (sibling scopes legitimately, same/nested scopes as a
    clash), every kind of definition (length None/1/2 x position None/0..L-1, or automatic positions only), a
    tag on the last field or not, each field given the value 3 or not; then assign_fields."""
    for (L, n, every_kind) in domain:
        kinds = [(ln, st) for ln in (None, 1, 2) for st in ([None] + list(range(L)))
                 if every_kind or st is None]
        parent_choices = []
        for i in range(n):
            ch = [()]
            for j in range(i):
                for v in (0, 1):
                    ch.append(((j, v),))
            if i == 2:
                for v in (0, 1):
                    for w in (0, 1):
                        ch.append(((0, v), (1, w)))
            parent_choices.append(ch)
        namings = [()]
        for i in range(n):
            namings = [nm + (c,) for nm in namings for c in "abc"[:min(i, len(set(nm))) + 1]]
        for parents in itertools.product(*parent_choices):
            for names in namings:
                for kd in itertools.product(kinds, repeat=n):
                    for tag in (False, True):
                        for vals in itertools.product((False, True), repeat=n):
                            yield L, n, parents, names, kd, tag, vals


def run_small(case):
    L, n, parents, names, kd, tag, vals = case
    s = Session(L, max_handles=20)
    scopes = []
    for i in range(n):
        sc = {}
        for (j, v) in parents[i]:
            sc.update(scopes[j])
            sc[names[j]] = v
        scopes.append(sc)
        if skey(sc) not in s.handles:
            s.call({}, sc)
        s.add(sc, names[i], kd[i][0], kd[i][1], ("t0",) if (tag and i == n - 1) else ())
    for i in range(n):
        if vals[i]:
            s.call(scopes[i], {names[i]: 3})
    s.assign()
    return s


# ---------------------------------------------------------------------------- random histories
def compatible(c, d):
    return all(d.get(k, v) == v for k, v in c.items())


def tree_safe(scope, accepted):
    """the values of `scope` can be peeled level by level: each level names fields defined exactly under the
    levels before it.  (Scopes that cannot - a=0, b=1, c=2 with c defined under a=0 only - send rig's
    add_field into unbounded recursion; they are generated rarely and on purpose.)"""
    done, rest = {}, dict(scope)
    while rest:
        layer = {k: v for k, v in rest.items()
                 if any(nm == k and cond == done for (nm, cond, _, _) in accepted)}
        if not layer:
            return False
        done.update(layer)
        for k in layer:
            del rest[k]
    return True


def load_estimate(accepted, need):
    """generation heuristic only (chooses a tight length): largest sum of widths over unions of compatible
    conditions"""
    conds = []
    for (_, c, _, _) in accepted:
        if c not in conds:
            conds.append(c)
    best = 0

    def width(i):
        nm, c, ln, st = accepted[i]
        return ln if ln else need.get(i, 1)

    def rec(k, cur):
        nonlocal best
        if k == len(conds):
            tot = sum(width(i) for i, (_, c, _, _) in enumerate(accepted) if all(cur.get(a) == b for a, b in c.items()))
            best = max(best, tot)
            return
        rec(k + 1, cur)
        if compatible(conds[k], cur):
            m = dict(cur)
            m.update(conds[k])
            rec(k + 1, m)
    rec(0, {})
    return best


def random_history(rng, mode, unsafe_ok=False):
    """mode 'auto': no explicit positions, length chosen afterwards so that the widths just fit (or just do not);
    mode 'mixed': explicit and automatic positions and lengths, several assign_fields calls."""
    if mode == "auto":
        L = 40            # provisional; the program is re-run with the final length
    else:
        L = rng.choice([1, 2, 3, 4, 5, 6, 8, 8, 12, 16, 16, 24, 31, 32, 32, 32, 48, 52, 56, 64, 64])
    s = Session(L, scribble=rng.random() < 0.3)
    need = {}             # index in s.accepted -> bits of the largest value given (generation bookkeeping)
    target = rng.randint(1, 9)
    steps = 0
    pool = "abcdefgh"

    def enabled(scope):
        return [(i, a) for i, a in enumerate(s.accepted) if all(scope.get(k) == v for k, v in a[1].items())]

    def do_add():
        scopes = [dict(k) for k in s.handles]
        conds = []
        for a in s.accepted:
            if a[1] not in conds:
                conds.append(a[1])
        if len(conds) >= 7:
            scopes = [c for c in scopes if c in conds] or [{}]
        safe = [c for c in scopes if tree_safe(c, s.accepted)]
        unsafe = [c for c in scopes if c not in safe]
        if unsafe and unsafe_ok and rng.random() < 0.5:
            scope = rng.choice(unsafe)
        else:
            scope = rng.choice(safe) if rng.random() < 0.6 else min(rng.sample(safe, min(2, len(safe))), key=len)
        used = [a[0] for a in s.accepted]
        fresh = [c for c in pool if c not in used]
        name = fresh[0] if (fresh and (not used or rng.random() < 0.72)) else rng.choice(used)
        ln = None if rng.random() < 0.5 else rng.randint(1, max(1, min(8, L)))
        if ln is not None and rng.random() < 0.06:
            ln = rng.randint(1, min(L, 64))
        st = None
        # once a layout has been reported the caller often goes on with fully explicit definitions (and looks at the
        # table again without another assign_fields, below)
        goes_on = mode == "mixed" and s.settled and rng.random() < 0.5
        if goes_on and ln is None:
            ln = rng.randint(1, max(1, min(4, L)))
        if goes_on or (mode == "mixed" and rng.random() < 0.42):
            w = ln or 1
            r = rng.random()
            ends = [a[3] + (a[2] or 1) for a in s.accepted if a[3] is not None]
            if r < 0.25:
                st = max(0, L - w)                      # flush with the top
            elif r < 0.4:
                st = 0
            elif r < 0.65 and ends:
                st = rng.choice(ends)                   # adjacent to an explicit field
            elif r < 0.95:
                st = rng.randrange(L)
            else:
                st = L - w + rng.randint(1, 2)          # overflows: must be refused
        tags = ()
        if rng.random() < 0.3:
            tags = tuple(sorted(rng.sample(TAGS, rng.randint(1, 2))))
        res = s.add(scope, name, ln, st, tags, rng.choice(TAGFORMS))
        # every field still has a position (a layout was reported, explicit definitions since): look again at once,
        # without another assign_fields
        if res == "ok" and s.settled and rng.random() < 0.8:
            s.observe()

    def do_call():
        scope = dict(rng.choice(list(s.handles)))
        if len(s.handles) >= 14:
            return
        cand = [(i, a) for i, a in enabled(scope) if a[0] not in scope]
        r = rng.random()
        if r < 0.04 and s.accepted:
            nm = rng.choice(s.accepted)[0]              # possibly unavailable or already set
            s.call(scope, {nm: rng.randint(0, 3)})
            return
        if not cand:
            return
        newvals = {}
        for (i, a) in rng.sample(cand, min(len(cand), 1 if rng.random() < 0.75 else 2)):
            ln = a[2]
            r = rng.random()
            if r < 0.4:
                v = rng.randint(0, 1)
            elif r < 0.55:
                v = rng.randint(2, 7)
            elif ln is not None:
                r2 = rng.random()
                v = (1 << ln) - 1 if r2 < 0.45 else (rng.randrange(1 << ln) if r2 < 0.9 else (1 << ln))
            else:
                k = rng.randint(1, 6 if mode == "auto" else min(64, L))
                if mode == "auto" and rng.random() < 0.06:
                    k = rng.randint(40, 62)          # wide automatic fields: lengths come from a floating-point log
                v = rng.getrandbits(k) | (1 << (k - 1))
                r3 = rng.random()
                if r3 < 0.25:
                    v = (1 << (k - 1)) + rng.choice((0, 0, 1))      # exactly a power of two, or one more
                elif r3 < 0.4 and (k <= WIDE_ONES_FROM - 1 or WIDE_ONES):
                    v = (1 << k) - 1                                # the field filled to its last bit
            newvals[a[0]] = v
        m = s.call(scope, newvals)
        if m is not None:
            for (i, a) in enabled(m):
                if a[0] in newvals:
                    need[i] = max(need.get(i, 1), newvals[a[0]].bit_length(), 1)
            if s.settled and rng.random() < 0.15:
                s.observe()       # a bit field derived after the layout, looked at without another assign_fields

    while steps < 60 and (len(s.accepted) < target or rng.random() < 0.3):
        if "add raised RecursionError" in s.counts:
            break         # every later operation on this tree is slow and fails the same way
        steps += 1
        r = rng.random()
        if not s.accepted or r < 0.42:
            do_add()
        elif r < 0.93 or mode == "auto":
            do_call()
        else:
            s.assign(dict(rng.choice(list(s.handles))))
    if mode == "auto":
        load = load_estimate(s.accepted, need)
        slack = rng.choice([0, 0, 0, 1, 1, 2, 3, -1])
        L2 = max(1, min(64, load + slack))
        prog = dict(len=L2, ops=s.ops, max_handles=s.max_handles, scribble=s.scribble)
        s = execute(prog)
    s.assign()
    return s


# ---------------------------------------------------------------------------- hand-written histories
def documented_examples():
    """the hierarchies of rig's documentation and tests, and bit fields filled to their last bit"""
    out = []
    # routing-key style: explicit top-level format bit, two formats with different fields
    s = Session(32)
    s.add({}, "external", 1, 31)
    s.call({}, {"external": 0}); s.call({}, {"external": 1})
    s.add({"external": 0}, "x", 8, 0, ("routing",)); s.add({"external": 0}, "y", 8, 8, ("routing",))
    s.add({"external": 0}, "p", 5, 16, ("app",))
    s.add({"external": 1}, "device", None, None, ("routing",)); s.add({"external": 1}, "payload", 16, 0)
    s.call({"external": 0}, {"x": 255, "y": 255, "p": 17}); s.call({"external": 1}, {"device": 5, "payload": 65535})
    s.assign()
    out.append(s)
    # every bit used, explicitly
    s = Session(32)
    s.add({}, "hi", 16, 16); s.add({}, "lo", 16, 0)
    s.call({}, {"hi": 0xFFFF, "lo": 0xFFFF}); s.call({}, {"hi": 0x8000, "lo": 1})
    s.assign()
    out.append(s)
    # every bit used, automatically (8 bits in 8; 32 bits in 32)
    for L, v in ((8, 255), (32, 0xFFFFFFFF), (1, 1)):
        s = Session(L)
        s.add({}, "a")
        s.call({}, {"a": v})
        s.assign()
        out.append(s)
    s = Session(8)
    s.add({}, "a", 3); s.add({}, "b", 5)
    s.assign()
    out.append(s)
    # an automatic field filled to its last bit, for every width: alone in a bit field of exactly that length, and
    # beside a one-bit field under each of its two values
    for k in range(2, 65):
        if k >= WIDE_ONES_FROM and not WIDE_ONES:
            break
        s = Session(k)
        s.add({}, "a")
        s.call({}, {"a": (1 << k) - 1})
        s.assign()
        out.append(s)
        if k < 64:
            s = Session(k + 1)
            s.add({}, "s", None, None, (), 4)
            s.call({}, {"s": 0}); s.call({}, {"s": 1})
            s.add({"s": 0}, "a"); s.add({"s": 1}, "a", None, None, ("t1",), 5)
            s.call({"s": 0}, {"a": (1 << k) - 1}); s.call({"s": 1}, {"a": (1 << (k - 1)) + 1})
            s.assign()
            out.append(s)
    # every field explicit; after the layout more explicit fields are defined and bit fields derived, and the table
    # is read again each time without another assign_fields (the caller scribbles on what get_tags returns)
    s = Session(32, scribble=True)
    s.add({}, "external", 1, 31, ("fmt",), 6)
    s.call({}, {"external": 0}); s.call({}, {"external": 1})
    s.add({"external": 0}, "x", 8, 0, ("routing",), 7); s.add({"external": 0}, "y", 8, 8, ("routing", "app"), 7)
    s.add({"external": 1}, "payload", 16, 0, ("routing",), 5)
    s.assign()
    s.add({"external": 0}, "p", 5, 16, ("app",), 5)
    s.observe()
    s.add({"external": 1}, "device", 4, 16, ("dev", "routing"), 8)
    s.add({"external": 1}, "clash", 4, 14)              # overlaps payload and device: refused
    s.observe()
    s.call({"external": 0}, {"x": 255, "y": 1, "p": 17})
    s.call({"external": 1}, {"device": 5})
    s.call({"external": 1, "device": 5}, {"payload": 65535})
    s.add({"external": 1, "device": 5}, "sub", 3, 20, ("dev2",), 4)
    s.observe()
    s.add({}, "late", 2, 29, (), 1)
    s.observe()
    out.append(s)
    # depth four, sibling scopes re-using names, one spare bit
    s = Session(9)
    s.add({}, "a")
    sc = {}
    for d, nm in enumerate("bcd"):
        for v in (0, 1):
            s.call(sc, {"abcd"[d]: v})
        nxt = dict(sc); nxt["abcd"[d]] = 0
        alt = dict(sc); alt["abcd"[d]] = 1
        s.add(nxt, nm, 2, None, ("t%d" % (d % 3),)); s.add(alt, nm, 1)
        sc = nxt
    s.call(sc, {"d": 3})
    s.assign()
    out.append(s)
    # independent scopes crossing: five fields, widths fit with a bit to spare
    for L in (5, 6, 7):
        s = Session(L)
        s.add({}, "a"); s.add({}, "b")
        s.call({}, {"a": 0}); s.call({}, {"a": 1}); s.call({}, {"b": 0})
        s.add({"a": 0}, "x", 1); s.add({"b": 0}, "z", 1); s.add({"a": 1}, "y", 2)
        s.assign()
        out.append(s)
    # a field defined where the values come from different levels of the hierarchy: c exists under a=0 only,
    # b is independent of a
    s = Session(16)
    s.add({}, "a"); s.add({}, "b")
    s.call({}, {"a": 0})
    s.add({"a": 0}, "c")
    s.call({}, {"a": 0, "b": 1, "c": 2})
    s.add({"a": 0, "b": 1, "c": 2}, "d")
    s.assign()
    out.append(s)
    return out


def far_histories(rng):
    """the far ends of 'any depth' and of the number of fields: a chain of selectors 8-12 deep (each level a field
    under value 0 of the level above, at every third level a one-bit sibling of the same name under value 1, tags
    given at the bottom),
    and 20-40 fields side by side; no explicit position, the bit field exactly as long as the widest path, or one
    bit longer"""
    out = []
    for _ in range(2):
        depth = rng.randint(8, 12)
        widths = [rng.randint(1, 3) for _ in range(depth + 1)]
        spare = rng.choice((0, 0, 1))
        s = Session(sum(widths) + spare, max_handles=36, scribble=rng.random() < 0.5)
        names = ["f%d" % i for i in range(depth + 1)]
        order = rng.random() < 0.5
        sc = {}
        s.add(sc, names[0], None if rng.random() < 0.5 else widths[0])
        for d in range(depth):
            nxt = dict(sc); nxt[names[d]] = 0
            alt = dict(sc); alt[names[d]] = 1
            for v in ((0, 1) if order else (1, 0)):
                s.call(sc, {names[d]: v})
            w = widths[d + 1]
            tags = (TAGS[d % 3],) if d >= depth - 2 else ()
            # (a sibling at every third level only: TLC enumerates the unions of conditions when a layout is refused)
            defs = [(nxt, None if rng.random() < 0.6 else w, tags)] + ([(alt, 1, ())] if d % 3 == 0 else [])
            for (where, ln, tg) in (defs if order else defs[::-1]):
                s.add(where, names[d + 1], ln, None, tg, rng.choice(TAGFORMS))
            sc = nxt
        # the values that make each automatic field as wide as planned, given from the bottom up or the top down
        vals = [(dict((names[j], 0) for j in range(d)), names[d], (1 << widths[d]) - 1) for d in range(depth + 1)]
        for (where, nm, v) in (vals if rng.random() < 0.5 else vals[::-1]):
            s.call(where, {nm: v})
        s.assign()
        out.append(s)
    for _ in range(2):
        n = rng.randint(20, 40)
        widths = [rng.choice((1, 1, 1, 2, 2, 3)) for _ in range(n)]
        while sum(widths) > 63:
            widths.pop()
        n = len(widths)
        s = Session(sum(widths) + rng.choice((0, 0, 1)), max_handles=12, scribble=rng.random() < 0.5)
        auto = [rng.random() < 0.5 for _ in range(n)]
        for i in range(n):
            s.add({}, "g%d" % i, None if auto[i] else widths[i], None,
                  tuple(sorted(rng.sample(TAGS, rng.randint(1, 2)))) if rng.random() < 0.2 else (), rng.choice(TAGFORMS))
        top = dict(("g%d" % i, (1 << widths[i]) - 1) for i in range(n))
        s.call({}, top)
        s.call({}, dict(("g%d" % i, rng.randrange(1 << widths[i])) for i in range(n)))
        s.assign()
        out.append(s)
    return out


# ---------------------------------------------------------------------------- run
def wide_ones(tr, i):
    """an accepted call before event i gave a value 2^k - 1 with k >= WIDE_ONES_FROM"""
    for x in tr["ev"][:i]:
        if x[0] == "call" and x[-1] == "ok":
            for (_, b) in x[2]:
                if len(b) >= WIDE_ONES_FROM and b == list(range(len(b))):
                    return True
    return False


def key_of(tr, i, clauses):
    e = tr["ev"][i - 1]
    classes = sorted(set(x[-1] for x in tr["ev"][:i] if x[0] in ("add", "call", "assign") and x[-1] != "ok"))
    plain = all(c in ("ValueError", "UnavailableFieldError") for c in classes)
    if (e[0] == "assign" and plain and clauses in (["MustSucceedExactFit"], ["MustSucceed"], ["MustSucceedCrossScopes"])
            and wide_ones(tr, i)):
        return WIDE_ONES_KEY
    if e[0] == "assign" and plain and clauses == ["MustSucceedExactFit"]:
        return EXACT_FIT_KEY
    if e[0] == "assign" and plain and clauses == ["MustSucceedCrossScopes"]:
        return CROSS_KEY
    if "RecursionError" in classes and all(c.startswith("MustSucceed") for c in clauses):
        return RECURSION_KEY
    return "%s %s len=%d raised=%s prog=%s" % (e[0], ",".join(clauses), tr["len"], ",".join(classes), digest(tr["prog"]))


def run(chk):
    rng = random.Random(chk.seed)
    if chk.replay_path:
        with open(chk.replay_path) as f:
            rp = json.load(f)
        if rp["replay"].get("module") == "BitFieldReplayTrace":
            from . import c08_replay
            c08_replay.replay_file(chk, rp)
            return
        prog = json.loads(rp["replay"]["trace"]["prog"])
        t = execute(prog).trace("replay")
        chk.note_case(t["prog"])
        chk.sample(t["ev"][:6])
        chk.validate("BitFieldTrace", "BitFieldTrace.cfg", [t], key_of=key_of)
        return

    # ---- D
    chk.design("BitFieldDesign", "BitFieldDesign_cover.cfg", label="action coverage (vacuity)",
               expect_actions=("AddAny", "SetAny", "AssignAny", "StartFirstFit", "PlaceFixedAny", "PlaceFloatAny",
                               "Finish"))
    chk.design("BitFieldDesign", "BitFieldDesign_quick.cfg",
               label="length 4, <= 3 fields, every kind of definition, depth <= 2; intended scan range")
    if not chk.quick:
        chk.design("BitFieldDesign", "BitFieldDesign_thorough.cfg",
                   label="length 4, <= 4 fields, automatic positions, depth <= 2; intended scan range")
        r = chk.design("BitFieldDesign", "BitFieldDesign_cross.cfg", allow_error=True,
                       label="length 5, 5 fields, independent scopes: first-fit is expected to fragment")
        chk.extra["design_cross_scopes"] = (
            "violates SuccessFirstFitCross only (first-fit leaves a gap when independent scopes cross; "
            "tree-shaped hierarchies are not affected)" if (not r.ok and "SuccessFirstFitCross" in (r.error or ""))
            else "unexpected: %s" % (r.error or "no violation")[:200])
        if r.ok or "SuccessFirstFitCross" not in (r.error or ""):
            raise MachineryError("BitFieldDesign_cross: expected a violation of SuccessFirstFitCross, got %s"
                                 % (r.error or "no error"))
    r = chk.design("BitFieldDesign", "BitFieldDesign_ascoded.cfg", allow_error=True,
                   label="scan range one short, as rig codes it: expected to violate SuccessFirstFit")
    chk.extra["design_scan_as_coded"] = (
        "violates SuccessFirstFit (the model of range(0, length - n) refuses a layout that fits)"
        if (not r.ok and "SuccessFirstFit is violated" in (r.error or "")) else
        ("no violation found" if r.ok else "job failed: %s" % (r.error or "")[:200]))
    if r.ok or "SuccessFirstFit is violated" not in (r.error or ""):
        raise MachineryError("BitFieldDesign_ascoded: expected an invariant violation of SuccessFirstFit, got %s"
                             % (r.error or "no error"))

    # ---- T
    traces = []
    info = {}

    def take(s, label, nontrivial=None):
        t = s.trace(label)
        traces.append(t)
        for k, v in s.counts.items():
            info[k] = info.get(k, 0) + v
        if nontrivial is None:
            nontrivial = len(s.accepted) >= 2 and any(e[0] == "assign" for e in t["ev"])
        chk.note_case(t["prog"], nontrivial=nontrivial)
        return t

    for s in documented_examples():
        take(s, "example")
    for s in far_histories(rng):
        take(s, "far")
    dom = [(L, n, True) for L in chk.pick((2, 3), (1, 2, 3, 4)) for n in (1, 2)]
    if not chk.quick:
        dom.append((4, 3, False))
    cases = list(small_programs(dom))
    # three fields with every kind of definition: too many to enumerate, sampled
    extra3 = chk.pick(1500, 20000)
    domain = ("(length, fields, kinds) in %s; each field under the root or under value 0/1 of an earlier field (the "
              "third also under values of both); names a/b/c in canonical order with re-use; kinds: length "
              "None/1/2 x position None/0..L-1 (True) or automatic positions only (False); tag on the last field "
              "or not; value 3 given to each field or not; then assign_fields and the full table" % (dom,))
    for c in cases:
        take(run_small(c), "small")
    chk.exhaustive = True
    chk.extra["small_scope_domain"] = domain
    chk.extra["small_scope_cases"] = len(cases)
    n3 = 0
    while n3 < extra3:
        L = rng.choice((2, 3, 4))
        gen = small_case_random(rng, L)
        take(run_small(gen), "small3")
        n3 += 1
    nrand = chk.pick(1600, 20000)
    every = chk.pick(400, 2000)
    for i in range(nrand):
        mode = "auto" if i % 5 < 2 else "mixed"
        take(random_history(rng, mode, unsafe_ok=(i % every in (6, 7))), mode)
    for k, v in sorted(info.items()):
        chk.count(k, v)
    chk.rule = ("histories on real BitField objects: the documented hierarchies and full bit fields; every small "
                "hierarchy (see small_scope_domain); random three-field hierarchies with every kind of definition; "
                "random histories of add_field (length None or 1..32, position None / flush with the top / adjacent "
                "to another explicit field / random / overflowing, tags as string or list), calls with values "
                "(0/1, small, full width, one too large, up to 32 bits), several assign_fields, depth <= 4+, sibling "
                "scopes re-using names, independent scopes crossing, lengths 1..64; 'auto' histories have no "
                "explicit position and a length chosen to fit exactly, with 1-3 bits to spare, or one short. "
                "Positions are never compared with expected positions.  non-trivial = at least two accepted fields "
                "and an assign_fields; distinct = distinct programs")
    chk.assumptions = [
        "explicit positions are >= 0 (a negative start_at is outside the property's domain)",
        "bit field lengths and field lengths are 1..64",
        "the success guarantee is judged for the first assign_fields of a history only (later ones inherit "
        "positions from the earlier layout)",
        "a field's condition is the set of values held by the bit field through which it was defined "
        "(documentation of add_field)",
    ]
    chk.sample(traces[0]["ev"][:12]); chk.sample(traces[len(traces) // 3]["ev"][:12])
    chk.sample(traces[-1]["ev"][:12])
    chk.validate("BitFieldTrace", "BitFieldTrace.cfg", traces, key_of=key_of, batch=chk.pick(2500, 5000))
    # job R: definition histories chosen by TLC's simulator (BitFieldSim), replayed call by call on real BitFields
    from . import c08_replay
    c08_replay.run_replay(chk)


def small_case_random(rng, L):
    n = 3
    kinds = [(ln, st) for ln in (None, 1, 2) for st in ([None] + list(range(L)))]
    parents = [()]
    parents.append(rng.choice([()] + [((0, v),) for v in (0, 1)]))
    parents.append(rng.choice([()] + [((j, v),) for j in (0, 1) for v in (0, 1)] +
                              [((0, v), (1, w)) for v in (0, 1) for w in (0, 1)]))
    names = ["a"]
    for i in (1, 2):
        names.append(rng.choice("abc"[:min(i, len(set(names))) + 1]))
    kd = tuple(rng.choice(kinds) for _ in range(n))
    return (L, n, tuple(parents), tuple(names), kd, rng.random() < 0.3,
            tuple(rng.random() < 0.4 for _ in range(n)))


# ---------------------------------------------------------------------------- selftest
def selftest(chk):
    def good_session():
        s = Session(12)
        s.add({}, "a", None, None, ())
        s.call({}, {"a": 0}); s.call({}, {"a": 1})
        s.add({"a": 0}, "b", 3, None, ("t0",))
        s.add({"a": 1}, "b", None, 4, ())
        s.add({}, "c", 2, 9, ("t1",))
        s.call({"a": 0}, {"b": 5, "c": 3}); s.call({"a": 1}, {"b": 6, "c": 1})
        s.assign()
        return s
    good = good_session().trace("selftest")
    ev = good["ev"]
    ia = next(i for i, e in enumerate(ev) if e[0] == "assign")
    scopes = [i for i, e in enumerate(ev) if e[0] == "scope"]
    full = [i for i in scopes if ev[i][4] and all(r[6] for r in ev[i][2])]     # complete assignments

    def mut(f):
        t = dict(good)
        t["ev"] = json.loads(json.dumps(good["ev"]))
        f(t["ev"])
        return t

    def row(e, name):
        return next(r for r in e[2] if r[0] == name)

    def move_b(evs):          # field b of the scope a=0 reported on top of field a
        for i in scopes:
            if ["a", []] in evs[i][1]:
                row(evs[i], "b")[2] = row(evs[i], "a")[2]

    def same_key(evs):        # the second complete assignment reports the key and mask of the first
        evs[full[1]][3] = json.loads(json.dumps(evs[full[0]][3]))
        evs[full[1]][4] = json.loads(json.dumps(evs[full[0]][4]))

    # histories whose continuation is written by hand: answers rig must not give
    fit = Session(4)
    fit.add({}, "a", 2); fit.add({}, "b", 1)
    fit_t = fit.trace()
    fix = Session(4)
    fix.add({}, "a", 2, 0); fix.add({}, "b", 1)
    fix_t = fix.trace()
    loose = Session(6)
    loose.add({}, "a"); loose.call({}, {"a": 0}); loose.add({"a": 0}, "b", 2); loose.add({}, "c", 1)
    loose_t = loose.trace()
    # the table read again without another assign_fields
    again = Session(8, scribble=True)
    again.add({}, "a", 2, 0, ("t0",), 5); again.assign(); again.add({}, "b", 2, 4, ("t1",), 7); again.observe()
    again_t = again.trace()
    last = max(i for i, e in enumerate(again_t["ev"]) if e[0] == "scope")
    stale = dict(again_t, ev=json.loads(json.dumps(again_t["ev"])))
    stale["ev"][last][3] = [[0, 1]]                     # the mask as it was before field b was defined
    early = dict(fix_t, ev=fix_t["ev"][:-1] + [["retable"], ["endtable"], ["end"]])       # no layout yet
    floating = Session(8)
    floating.add({}, "a", 2, 0); floating.assign(); floating.add({}, "c"); floating.settled = True; floating.observe()
    cases = [
        (good, None),
        (again_t, None),
        (stale, "MaskIsUnion"),
        (early, "AllPositioned"),
        (floating.trace(), "AllPositioned"),
        (mut(move_b), "NoOverlap"),
        (mut(lambda evs: [r.__setitem__(3, 2) for i in scopes for r in evs[i][2] if r[0] == "b" and r[3] == 3]),
         "WideEnough"),
        (mut(lambda evs: evs[full[0]][4][0].append(31)), None),       # a stray key bit outside every field: harmless
        (mut(lambda evs: evs[full[0]].__setitem__(4, [[]])), "ReadBack"),
        (mut(lambda evs: evs[full[0]][3][0].append(11)), "MaskIsUnion"),
        (mut(lambda evs: row(evs[scopes[0]], "a").__setitem__(4, [])), "TagsClosed"),
        (mut(same_key), "KeysDistinct"),
        (mut(lambda evs: evs.__delitem__(1)), "KnownHandle"),          # drop a call event
        (mut(lambda evs: evs.__delitem__(scopes[1])), "AllHandlesReported"),    # drop a table row
        (mut(lambda evs: evs.__setitem__(slice(0, 2), [evs[1], evs[0]])), "FieldInScope"),   # swap add and call
        (dict(loose_t, ev=loose_t["ev"][:-1] + [["assign", "ValueError"], ["end"]]), "MustSucceed"),
        (mut(lambda evs: evs.__setitem__(slice(ia, len(evs)), [["assign", "ValueError"], ["end"]])), None),
        (dict(fit_t, ev=fit_t["ev"][:-1] + [["add", [], "c", [1], [], [], "ok"], ["assign", "ValueError"], ["end"]]),
         "MustSucceedExactFit"),
        (dict(fix_t, ev=fix_t["ev"][:-1] + [["add", [], "c", [2], [1], [], "ok"], ["end"]]), "RejectsBadExplicit"),
        (dict(fix_t, ev=fix_t["ev"][:-1] + [["add", [], "c", [2], [3], [], "ok"], ["end"]]), "RejectsBadExplicit"),
        (dict(fix_t, ev=fix_t["ev"][:-1] + [["add", [], "c", [2], [2], [], "ok"], ["end"]]), None),
        (dict(fit_t, ev=fit_t["ev"][:-1] + [["add", [], "b", [], [], [], "ok"], ["end"]]), "NameClashRejected"),
        (mut(lambda evs: evs.__delitem__(len(evs) - 2)), "TableClosed"),        # table never closed
    ]
    rej = chk.validate("BitFieldTrace", "BitFieldTrace.cfg", [c[0] for c in cases], key_of=key_of)
    got = {id(t): cl for t, _, cl in rej}
    msgs = []
    for n, (tr, want) in enumerate(cases):
        cl = got.get(id(tr))
        if (want is None) != (cl is None) or (want and want not in cl):
            msgs.append("case %d: expected %s, got %s" % (n, want, cl))
    # the projection: bit lists round-trip
    for v in (0, 1, 5, 0x80000000, 0xFFFFFFFF):
        if sum(1 << b for b in bits(v)) != v:
            msgs.append("bits(%d) does not round-trip" % v)
    return not msgs, "; ".join(msgs) or "%d corrupted traces rejected with the expected clauses" % (len(cases) - 5)
