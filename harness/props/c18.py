"""C18 - commands go to the chip, core and application the caller named.

D: ContextDesign.tla - the context mechanism as coded (push on entry; callbacks, then pop on exit whatever happens;
   contexts merged oldest to newest; defaults < context < explicit keywords; refusal when a value is still required)
   explored for every nesting of depth <= 3 over 2 parameters x 2 values with normal exits and exceptions raised
   and caught at every level, and every split of the arguments of three method shapes into positional / keyword /
   omitted.  The mechanism must agree with Context.tla's declarative Resolved / Lacking, leaving must restore what
   was in force, an application block must stop its own id once.  The variant that pops before running the
   callbacks is refuted (cfg ContextDesign_popfirst).
T: real MachineController / BMPController objects over a simulated network: the `socket` / `select` / `time` module
   attributes of rig.machine_control.scp_connection, .machine_controller and .bmp_controller are replaced from
   outside, no real socket is opened.  The simulated machine decodes every datagram that is put on the wire (SDP
   destination chip and core, SCP command, arg1, arg2, the connection = the host the socket was connected to) and
   answers with a plausible acknowledgement.  Every decorated method is found by introspection
   (ContextMixin.use_contextual_arguments wrappers), its parameters and defaults are read from the wrapped function.
   One trace = one controller driven through nested `with` blocks (plain and application blocks), exits by
   exception caught at any enclosing level, and command calls with the contextual arguments given positionally /
   by keyword / left to the context or the default / left unset.  Connections are discovered by rig's own
   discover_connections() against the simulated machine (any subset of Ethernet links up).  The caller also uses
   the rest of the public API of the context objects that ctrl(...) and ctrl.application(...) return:
   before_close(f, ...) - functions of the caller's own, registered before the block is entered, inside it, again on a
   kept object that is entered again, none / one / several in one call, in several calls; a function records that it
   was called, calls a command of the controller, or raises.  Judged by ContextTrace.tla.

This file contains no oracle: it drives rig, records what was sent and encodes it.
"""
import contextlib
import ast
import inspect
import sys
import textwrap
import json
import os
import random
import struct
import time as real_time

from rig.links import Links
from rig.machine_control import MachineController, BMPController
from rig.machine_control import machine_controller, bmp_controller, scp_connection
from rig.routing_table import RoutingTableEntry, Routes
from rig.utils.contexts import Required

MC_NAMES = ("x", "y", "p", "processor", "app_id")
BMP_NAMES = ("cabinet", "frame", "board")
VBASE = 0x00400000          # what the simulated machine reports as sv->vcpu_base
IOBUF = 0x00500000
SDRAM_SYS = 0x00600000
RTR_COPY = 0x00700000
ALLOCATED = 0x60100000
DEFAULT_MC_INIT = {"app_id": 66}                               # documented default of MachineController
DEFAULT_BMP_INIT = {"cabinet": 0, "frame": 0, "board": 0}      # documented default of BMPController


class Boom(Exception):
    """The exception the driver raises inside a block."""


# ------------------------------------------------------------------------------------------ introspection
class MethodInfo(object):
    """One decorated method, described from what is PUBLIC about it: the signature of the function the user wrote
    (inspect follows functools.wraps' __wrapped__; the class source is parsed when there is no such link) and the
    keyword-only arguments named in its @use_contextual_arguments(...) line.  Nothing is read from the wrapper's
    closure or code object, so a rewritten decorator is still understood."""

    def __init__(self, name, wrapper, kwonly, node=None, glob=None):
        self.name = name
        f = getattr(wrapper, "__wrapped__", None)
        if f is not None:
            spec = inspect.getfullargspec(f)
            args, defaults, varargs = list(spec.args), list(spec.defaults or ()), spec.varargs
        else:
            args = [a.arg for a in node.args.args]
            defaults = [eval(compile(ast.Expression(d), "<default>", "eval"), dict(glob)) for d in node.args.defaults]
            varargs = node.args.vararg
        self.varargs = varargs is not None
        self.pos = args[1:]
        self.has_default = [False] * (len(self.pos) - len(defaults)) + [True] * len(defaults)
        self.defaults = [Required] * (len(self.pos) - len(defaults)) + defaults
        self.kwonly = list(kwonly.items())

    @staticmethod
    def enc_default(v):
        if v is Required:
            return ["req"]
        if isinstance(v, int) and not isinstance(v, bool):
            return ["int", v]
        return ["other"]

    def encode(self):
        return [self.name, self.pos, [self.enc_default(v) for v in self.defaults],
                [[k, self.enc_default(v)] for k, v in self.kwonly], 1 if self.varargs else 0]

    def declared(self):
        return self.pos + [k for k, _ in self.kwonly]


def decorated_methods(cls):
    """Every method of cls whose definition carries the @...use_contextual_arguments decorator (found in the source
    of the classes of the MRO, i.e. by the decorator's public name, not by how its wrapper happens to be built)."""
    out = {}
    for klass in reversed(cls.__mro__):
        if klass is object:
            continue
        try:
            tree = ast.parse(textwrap.dedent(inspect.getsource(klass)))
        except (OSError, TypeError):
            continue
        glob = vars(sys.modules[klass.__module__])
        for node in tree.body[0].body:
            if not isinstance(node, ast.FunctionDef):
                continue
            for d in node.decorator_list:
                target = d.func if isinstance(d, ast.Call) else d
                nm = target.attr if isinstance(target, ast.Attribute) else getattr(target, "id", None)
                if nm != "use_contextual_arguments":
                    continue
                kwonly = {}
                if isinstance(d, ast.Call):
                    for k in d.keywords:
                        kwonly[k.arg] = eval(compile(ast.Expression(k.value), "<decorator>", "eval"), dict(glob))
                out[node.name] = MethodInfo(node.name, inspect.getattr_static(cls, node.name), kwonly, node, glob)
    return out


# ------------------------------------------------------------------------------------------ simulated network
class FakeSock(object):
    def __init__(self, net):
        self.net, self.host, self.inbox = net, None, []
        net.opened += 1

    def connect(self, addr):
        self.host = addr[0]

    def send(self, data):
        self.net.on_send(self, bytes(data))
        return len(data)

    def recv(self, n):
        if not self.inbox:
            raise IOError("nothing to receive")
        return self.inbox.pop(0)

    def setblocking(self, b):
        pass

    def settimeout(self, t):
        pass

    def close(self):
        pass

    def fileno(self):
        return -1


class FakeSocketModule(object):
    AF_INET, SOCK_DGRAM = 2, 2
    error = IOError
    timeout = IOError

    def __init__(self, net):
        self.net = net

    def socket(self, *args):
        return FakeSock(self.net)

    def gethostbyname(self, name):
        return name


class FakeSelect(object):
    def select(self, r, w, x, timeout=0.0):
        return [s for s in r if s.inbox], [], []


class FakeTime(object):
    def time(self):
        return real_time.time()

    def sleep(self, t):
        pass


class FakeNet(object):
    """The simulated machine: logs every datagram, acknowledges each with a plausible reply."""

    def __init__(self, kind, w=8, h=8, root=(0, 0), up=(), structs=None):
        self.kind, self.w, self.h, self.root, self.up = kind, w, h, tuple(root), set(map(tuple, up))
        self.log = []
        self.opened = 0
        self.count_reply = 3
        self.fail_signals = False      # answer signal commands with a fatal return code
        self.cells = {}
        if structs is not None:
            sv, vcpu = structs[b"sv"], structs[b"vcpu"]

            def put(field, fmt, value):
                self.cells[sv.base + sv[field].offset] = struct.pack(fmt, value)
            put(b"p2p_dims", "<H", (w << 8) | h)
            put(b"vcpu_base", "<I", VBASE)
            put(b"iobuf_size", "<I", 16)
            put(b"sdram_sys", "<I", SDRAM_SYS)
            put(b"rtr_copy", "<I", RTR_COPY)
            put(b"num_cpus", "<B", 18)
            for core in range(18):
                self.cells[VBASE + vcpu.size * core + vcpu[b"iobuf"].offset] = struct.pack("<I", IOBUF)
            self.cells[IOBUF] = struct.pack("<4I", 0, 0, 0, 4) + b"abcd"

    def memory(self, addr, n):
        out = bytearray(n)
        for a, b in self.cells.items():
            lo, hi = max(a, addr), min(a + len(b), addr + n)
            if lo < hi:
                out[lo - addr:hi - addr] = b[lo - a:hi - a]
        return bytes(out)

    def position_of(self, host, x, y):
        if (x, y) != (255, 255):
            return x, y
        if host.startswith("10.0."):
            return tuple(int(t) for t in host.split(".")[2:])
        return self.root

    def on_send(self, sock, data):
        (flags, tag, dest, src, dy, dx, sy, sx, cmd, seq, a1, a2, a3) = struct.unpack_from("<2x8B2H3I", data)
        payload = data[26:]
        core = dest & 0x1f
        self.log.append((sock.host, dx, dy, core, cmd, a1, a2, a3))
        z3 = struct.pack("<3I", 0, 0, 0)
        if cmd == 0:                                   # version
            if self.kind == "mc":
                px, py = self.position_of(sock.host, dx, dy)
                body = struct.pack("<3I", (px << 24) | (py << 16) | (core << 8) | core, (133 << 16) | 256, 0) + \
                    b"SC&MP/SpiNNaker\0"
            else:
                body = struct.pack("<3I", core, (200 << 16) | 256, 0) + b"BC&MP/Spin5-BMP\0"
        elif cmd == 2:                                 # read
            body = self.memory(a1, a2)
        elif cmd == 17:                                # link read
            body = bytes(a2)
        elif cmd == 22:                                # signal / count
            body = struct.pack("<3I", self.count_reply, 0, 0)
        elif cmd == 26 and (a1 >> 16) == 2:            # iptag get
            body = bytes(32)
        elif cmd == 28:                                # alloc / free
            body = struct.pack("<3I", ALLOCATED, 0, 0)
        elif cmd == 31:                                # chip info
            ethup = 1 if (dx, dy) in self.up else 0
            body = struct.pack("<3I", 18 | (0x3f << 8) | (1023 << 14) | (ethup << 25), 1 << 20, 1 << 12)
            body += bytes([7] + [15] * 17) + struct.pack("<HI", 0, 10 | (dx << 16) | (dy << 24))
        elif cmd == 48:                                # BMP info (ADC)
            body = bytes(48)
        else:
            body = z3
        rc = 0x83 if (self.fail_signals and cmd == 22) else 0x80
        sock.inbox.append(struct.pack("<2x8B2H", 0x07, tag, src, dest, sy, sx, dy, dx, rc, seq) + body)


@contextlib.contextmanager
def substituted(net):
    """Replace the socket / select / time module attributes of the rig modules; restore them afterwards."""
    saved = []

    def sub(mod, attr, value):
        if hasattr(mod, attr):
            saved.append((mod, attr, getattr(mod, attr)))
            setattr(mod, attr, value)
    sub(scp_connection, "socket", FakeSocketModule(net))
    sub(scp_connection, "select", FakeSelect())
    sub(machine_controller, "socket", FakeSocketModule(net))
    sub(machine_controller, "time", FakeTime())
    sub(bmp_controller, "time", FakeTime())
    try:
        yield
    finally:
        for mod, attr, value in saved:
            setattr(mod, attr, value)


# ------------------------------------------------------------------------------------------ canned arguments
RTE = RoutingTableEntry({Routes.east}, 0x00010000, 0xffff0000)
CANNED = {
    "address": 0x60001000, "link": Links.north,
    "struct_name": "sv", "field_name": "p2p_dims", "values": 0x0202, "value": 5,
    "iptag": 1, "addr": "10.9.8.7", "port": 50000, "led": 1, "action": True, "size": 64, "tag": 1, "clear": True,
    "ptr": 0x60001000, "signal": "sync0", "state": "run", "count": 1, "poll_interval": 0.0, "timeout": 1.0,
    "routing_tables": {(1, 1): [RTE], (0, 1): [RTE, RTE]}, "entries": [RTE],
    "delay": 0.0, "post_power_on_delay": 0.0, "fpga_num": 1,
    ("fill", "data"): 0xAB, ("read_vcpu_struct_field", "field_name"): "user0",
    ("write_vcpu_struct_field", "field_name"): "user0", ("set_power", "state"): True,
    ("read_fpga_reg", "addr"): 0x40, ("write_fpga_reg", "addr"): 0x40, ("write_fpga_reg", "value"): 0x1234,
}
MISSING = object()
APP_KEYS = 1001            # keys of kept application context objects start here (kept plain blocks: 1, 2, ...)


class Alt(object):
    """a canned argument with several shapes, used in turn (e.g. one state name or a list of state names)"""

    def __init__(self, *values):
        self.values = values
        self.n = 0

    def pick(self):
        self.n += 1
        return self.values[self.n % len(self.values)]


CANNED[("count_cores_in_state", "state")] = Alt("run", ["run", "wait"], ("sync0",), "wait")
CANNED[("wait_for_cores_to_reach_state", "state")] = Alt("run", ["run", "wait"])
# sizes and alignments on both sides of rig's boundaries: fill() of a region that is not word-aligned goes through
# write(); reads / writes longer than one SCP packet (256 bytes on the simulated machine) are split into several commands
CANNED[("fill", "size")] = Alt(64, 6, 64, 10, 7)
CANNED[("fill", "address")] = Alt(0x60001000, 0x60001000, 0x60001002, 0x60001000)
CANNED["data"] = Alt(b"\x01\x02\x03\x04\x05\x06\x07\x08", bytes(range(200)) * 3, b"\x01\x02\x03\x04")
CANNED["length_bytes"] = Alt(8, 8, 520)


def canned(mname, pname):
    v = CANNED.get((mname, pname), MISSING)
    v = CANNED.get(pname, MISSING) if v is MISSING else v
    return v.pick() if isinstance(v, Alt) else v


class Driver(object):
    """Knows the decorated methods of one controller class and how to call each of them."""

    def __init__(self, chk, kind, tmpdir):
        self.kind = kind
        self.cls = MachineController if kind == "mc" else BMPController
        self.names = MC_NAMES if kind == "mc" else BMP_NAMES
        self.methods = decorated_methods(self.cls)
        self.aplx = os.path.join(tmpdir, "c18-app.aplx")
        with open(self.aplx, "wb") as f:
            f.write(bytes(range(250)) + bytes(50))
        self.star = {}
        if kind == "mc":
            targets = {(1, 1): {1, 2}, (0, 1): {3}}
            self.star = {"send_scp": (0,), "flood_fill_aplx": (self.aplx, targets),
                         "load_application": (self.aplx, targets)}
        else:
            self.star = {"send_scp": (0,)}
        self.drivable = []
        for name, mi in sorted(self.methods.items()):
            if name == "application":
                continue                      # driven as a block, not as a command
            if mi.varargs and name not in self.star:
                chk.skip("%s.%s: no canned positional arguments for a star-args method" % (self.cls.__name__, name))
                continue
            lacking = [p for p, hd in zip(mi.pos, mi.has_default)
                       if p not in self.names and canned(name, p) is MISSING and not hd]
            if lacking:
                chk.skip("%s.%s: no canned value for parameter(s) %s" % (self.cls.__name__, name, lacking))
                continue
            self.drivable.append(name)

    def make_call(self, name, rng, values, style=None):
        """A call of method `name`: values = {contextual name: int} to use when a name is given explicitly;
        style: None (random) | "omit" (leave every contextual argument to the context) | "kw" | "pos"."""
        mi = self.methods[name]
        pos, kw, pos_enc, kw_enc = [], {}, [], []
        if mi.varargs:
            pos = list(self.star.get(name, ()))
            pos_enc = [["other"]] * len(pos)
            npos = 0
            rest = []
        else:
            ctx_idx = [i for i, p in enumerate(mi.pos) if p in self.names]
            if style == "pos":
                npos = (max(ctx_idx) + 1) if ctx_idx else 0
            elif style in ("omit", "kw"):
                npos = min(ctx_idx) if ctx_idx else len([p for p, hd in zip(mi.pos, mi.has_default) if not hd])
                npos = rng.randint(0, npos) if style == "kw" else npos
            else:
                npos = rng.randint(0, len(mi.pos))
            for p in mi.pos[:npos]:
                if p in self.names:
                    pos.append(values[p]); pos_enc.append(["int", values[p]])
                else:
                    v = canned(name, p)
                    if v is MISSING:        # a parameter with a default and no canned value: stop the prefix here
                        break
                    pos.append(v); pos_enc.append(["other"])
            npos = len(pos)
            rest = list(zip(mi.pos[npos:], mi.has_default[npos:]))
        for p, hd in rest:
            if p in self.names:
                give = {"omit": False, "kw": True, "pos": True}.get(style, rng.random() < 0.5)
                if give:
                    kw[p] = values[p]; kw_enc.append([p, ["int", values[p]]])
            elif not hd or (style is None and rng.random() < 0.2 and canned(name, p) is not MISSING):
                kw[p] = canned(name, p); kw_enc.append([p, ["other"]])
        for p, _ in mi.kwonly:
            if p in self.names:
                give = {"omit": False, "kw": True, "pos": True}.get(style, rng.random() < 0.5)
                if give:
                    kw[p] = values[p]; kw_enc.append([p, ["int", values[p]]])
        return dict(t="invoke", meth=name, pos_enc=pos_enc, kw_enc=kw_enc)

    def app_call(self, rng, app_id, how):
        """application(...) with the id given positionally / by keyword / left to the context."""
        if how == "pos":
            return dict(pos_enc=[["int", app_id]], kw_enc=[])
        if how == "kw":
            return dict(pos_enc=[], kw_enc=[["app_id", ["int", app_id]]])
        return dict(pos_enc=[], kw_enc=[])

    def materialise(self, name, pos_enc, kw_enc):
        """The Python arguments of an encoded call: contextual values as recorded, the rest canned."""
        mi = self.methods[name]
        if mi.varargs:
            pos = list(self.star.get(name, ()))
        else:
            pos = [e[1] if e[0] == "int" else canned(name, mi.pos[i]) for i, e in enumerate(pos_enc)]
        kw = {k: (e[1] if e[0] == "int" else canned(name, k)) for k, e in kw_enc}
        return pos, kw


# ------------------------------------------------------------------------------------------ running a program
def pairs(d):
    return [[k, v] for k, v in sorted(d.items()) if isinstance(v, int) and not isinstance(v, bool)]


def le4(v):
    return list(int(v & 0xffffffff).to_bytes(4, "little"))


def conn_of(kind, host):
    if kind == "mc":
        if host == "init":
            return [-1, -1]
        return [int(t) for t in host.split(".")[2:]] if host.startswith("10.0.") else [-2, -2]
    return [int(t) for t in host.split("-")[1:]] if host.startswith("bmp-") else [-2, -2]


def enc_sent(kind, log):
    return [[conn_of(kind, h), x, y, p, cmd, le4(a1), le4(a2)] for (h, x, y, p, cmd, a1, a2, a3) in log]


def execute(drv, setup, program, label=""):
    """Run `program` (a list of nodes) against a fresh controller over a fresh simulated network."""
    kind = drv.kind
    init = setup["init"]
    evs = []
    used = set()
    if kind == "mc":
        net = FakeNet("mc", setup["w"], setup["h"], setup["root"], setup["up"])
    else:
        net = FakeNet("bmp")
    with substituted(net):
        if kind == "mc":
            ctrl = MachineController("init") if init is None else MachineController("init", initial_context=dict(init))
            fresh = FakeNet("mc", setup["w"], setup["h"], setup["root"], setup["up"], ctrl.structs)
            net.cells = fresh.cells
            ctrl.scp_data_length           # prime the lazily probed packet size so that no command probes
            other = MachineController("another-machine", initial_context={})
        else:
            hosts = {tuple(k): "bmp-" + "-".join(map(str, k)) for k in setup["hosts"]}
            ctrl = BMPController(hosts) if init is None else BMPController(hosts, initial_context=dict(init))
            other = BMPController("another-bmp", initial_context={})
        del net.log[:]

        observe = setup.get("observe", True)
        kept = {}                  # context objects made once and entered several times
        kept_apps = {}             # application context objects (the result of application(...)) entered again later
        files = []                 # file-like views returned by sdram_alloc_as_filelike: [object, freed?]

        def ctx_now():
            # (asking the controller what is in force is itself a call into the mechanism; sessions with
            # observe=False never ask, and are judged on the datagrams alone)
            return pairs(ctrl.get_context_arguments()) if observe else []

        emark = [0]

        def flush():
            """The datagrams put on the wire since the previous event."""
            out = enc_sent(kind, net.log[emark[0]:])
            emark[0] = len(net.log)
            return out

        pending = []               # datagrams a leave put on the wire before a callback of the caller took its turn

        def left():
            """The datagrams of the leave itself (not those of commands that the caller's callbacks called)."""
            out = pending + flush()
            del pending[:]
            return out

        def do_invoke(node):
            used.add(node["meth"])
            if node["meth"] == "load_application":
                net.count_reply = sum(len(c) for c in drv.star["load_application"][1].values())
            pos, kw = drv.materialise(node["meth"], node["pos_enc"], node["kw_enc"])
            try:
                rv = getattr(ctrl, node["meth"])(*pos, **kw)
                outcome = ["ok"]
                if node["meth"] == "sdram_alloc_as_filelike":
                    files.append([rv, False])
            except Exception as ex:       # judged by the spec
                outcome = ["raise", type(ex).__name__]
            net.count_reply = 3
            evs.append(["invoke", node["meth"], node["pos_enc"], node["kw_enc"], outcome, flush()])

        def callback(spec):
            """A function of the caller's, to be registered with before_close(...)."""
            def fn():
                pending.extend(flush())
                evs.append(["cb", spec["id"], ctx_now()])
                if spec["do"] == "invoke":
                    # (the machine's refusal of stop signals, when the program asks for one, is aimed at the block's
                    # own stop, not at what the caller's function sends)
                    held, net.fail_signals = net.fail_signals, False
                    try:
                        do_invoke(spec["call"])
                    finally:
                        net.fail_signals = held
                elif spec["do"] == "raise":
                    raise Boom()
            return fn

        def register(cm, node, when):
            """The caller's before_close(...) calls on the context object of `node` that are due at this point."""
            for reg in node.get("cbs") or ():
                if reg["when"] == when:
                    try:
                        cm.before_close(*[callback(spec) for spec in reg["fns"]])
                    except Exception as ex:       # judged by the spec (no such event is expected)
                        evs.append(["register-failed", type(ex).__name__])

        def run_nodes(nodes):
            # context objects may be made long before they are entered
            early = {id(n): ctrl(**n["map"]) for n in nodes if n["t"] == "block" and n.get("early")}
            for node in nodes:
                if node["t"] == "update":
                    ctrl.update_current_context(**node["map"])
                    evs.append(["update", pairs(node["map"]), ctx_now(), flush()])
                elif node["t"] == "links":
                    # the machine's live Ethernet links change (the environment's step); a later
                    # discover_connections() finds them
                    net.up = set(map(tuple, node["up"]))
                    evs.append(["links", [list(c) for c in sorted(net.up)]])
                elif node["t"] == "fileop":
                    # a file-like view made by an earlier sdram_alloc_as_filelike is used now, under whatever blocks
                    # are open now
                    live = [i for i, f in enumerate(files) if not f[1]]
                    if not live:
                        continue
                    i = live[node["idx"] % len(live)]
                    mem = files[i][0]
                    try:
                        if node["op"] == "read":
                            mem.seek(0)
                            mem.read(8)
                        elif node["op"] == "write":
                            mem.seek(4)
                            mem.write(b"wxyz")
                            mem.flush()
                        elif node["op"] == "slice":
                            mem[4:12].read(4)
                        else:
                            files[i][1] = True
                            mem.free()
                        outcome = ["ok"]
                    except Exception as ex:       # judged by the spec
                        outcome = ["raise", type(ex).__name__]
                    evs.append(["fileop", i + 1, node["op"], outcome, flush()])
                elif node["t"] == "invoke":
                    do_invoke(node)
                elif node["kind"] == "foreign":
                    # a block of ANOTHER controller object: it is no context of ctrl, so no event is recorded
                    with other(**node["map"]):
                        run_nodes(node["children"])
                else:
                    run_block(node, early.get(id(node)))

        def run_block(node, made=None):
            reentered = False
            if node["kind"] == "app" and node.get("keep") is not None and node["keep"] in kept_apps:
                # an application context object the program kept is entered again: no new call of application(...)
                cm = kept_apps[node["keep"]]
                reentered = True
            elif node["kind"] == "app":
                used.add("application")
                call = node["call"]
                pos, kw = drv.materialise("application", call["pos_enc"], call["kw_enc"])
                try:
                    cm = ctrl.application(*pos, **kw)
                except Exception as ex:
                    evs.append(["app", call["pos_enc"], call["kw_enc"], ["raise", type(ex).__name__],
                                flush(), ctx_now()])
                    return
                if node.get("keep") is not None:
                    kept_apps[node["keep"]] = cm
            elif node.get("keep") is not None:
                if node["keep"] not in kept:
                    kept[node["keep"]] = ctrl(**node["map"])
                cm = kept[node["keep"]]
            else:
                cm = made if made is not None else ctrl(**node["map"])
            register(cm, node, "pre")
            try:
                try:
                    with cm:
                        if reentered:
                            evs.append(["enter", [], ctx_now(), flush(), APP_KEYS + node["keep"]])
                        elif node["kind"] == "app":
                            evs.append(["app", call["pos_enc"], call["kw_enc"], ["ok"], flush(), ctx_now()])
                            if node.get("keep") is not None:
                                # (a marker: the block just entered is an object the program keeps)
                                evs.append(["keepapp", APP_KEYS + node["keep"]])
                        else:
                            evs.append(["enter", pairs(node["map"]), ctx_now(), flush(),
                                        0 if node.get("keep") is None else node["keep"] + 1])
                        register(cm, node, "in")
                        run_nodes(node["children"])
                        register(cm, node, "late")
                        net.fail_signals = bool(node.get("stop_fails"))
                        if node["raises"]:
                            raise Boom()
                finally:
                    net.fail_signals = False
            except Boom:
                evs.append(["exit", "exception", left(), ctx_now()])
                if not node["catches"]:
                    raise
            except scp_connection.SCPError:
                # the stop signal of an application block was refused by the machine: the block is left by the
                # error its exit raised (which replaces any exception that was propagating)
                evs.append(["exit", "exception", left(), ctx_now()])
            except Exception as ex:
                # leaving the block failed in some other way: recorded, judged by the spec (ExitCompletes)
                evs.append(["exit", "error " + type(ex).__name__, left(), ctx_now()])
            else:
                evs.append(["exit", "normal", left(), ctx_now()])

        try:
            run_nodes(program)
        except Boom:
            pass
        evs.append(["end", ctx_now()])
    tr = dict(kind=kind, init=pairs(init if init is not None else
                                    (DEFAULT_MC_INIT if kind == "mc" else DEFAULT_BMP_INIT)),
              meths=[drv.methods[m].encode() for m in sorted(used)], ev=evs, label=label,
              opened=net.opened, blind=0 if observe else 1,
              # what is needed to run the same program again (./check C18 --replay); strings, so that TLC skips them
              setup=json.dumps(setup), prog=json.dumps(program))
    if kind == "mc":
        tr.update(w=setup["w"], h=setup["h"], rx=setup["root"][0], ry=setup["root"][1],
                  up=[list(c) for c in sorted(setup["up"])], vbase=VBASE)
    else:
        tr.update(hosts=[list(k) for k in setup["hosts"]])
    return tr


# ------------------------------------------------------------------------------------------ programs
HEAVY = ("get_system_info", "get_routing_table_entries", "discover_connections", "get_p2p_routing_table")


def block(kind, children, raises=False, catches=True, map=None, call=None, early=False, stop_fails=False, keep=None,
          cbs=None):
    """cbs: the caller's before_close(...) calls on the block's context object, a list of
    dict(when="pre" (before the block is entered) | "in" (inside, at the start of the body) | "late" (inside, at the
    end of the body), fns=[dict(id=n, do="mark" | "invoke" (with call=an invoke node) | "raise"), ...])."""
    return dict(t="block", kind=kind, map=map or {}, call=call, children=children, raises=raises, catches=catches,
                early=early, stop_fails=stop_fails, keep=keep, cbs=cbs or [])


def draw_registrations(drv, rng, draw_values, counter, pool, shape=None, raising=True):
    """before_close(...) calls of the caller: shape = [(when, number of functions), ...] or None (random)."""
    if shape is None:
        shape = [(rng.choice(("pre", "pre", "in", "late")), rng.choice((1, 1, 1, 2, 3, 0)))
                 for _ in range(rng.choice((1, 1, 2, 3)))]
    regs = []
    for when, nfn in shape:
        fns = []
        for _ in range(nfn):
            counter[0] += 1
            r = rng.random()
            if r < 0.55 or not pool:
                fns.append(dict(id=counter[0], do="mark"))
            elif r < 0.94 or not raising:
                fns.append(dict(id=counter[0], do="invoke",
                                call=drv.make_call(rng.choice(pool), rng, draw_values(), rng.choice(("omit", "omit", "kw", None)))))
            else:
                fns.append(dict(id=counter[0], do="raise"))
        regs.append(dict(when=when, fns=fns))
    return regs


def decorate(drv, nodes, rng, draw_values, q, counter=None, pool=None, raising=True):
    """The caller hangs functions of their own (before_close) on a share q of the blocks of a program; a kept object
    that the program enters several times may get more at every entry."""
    counter = [0] if counter is None else counter
    pool = [m for m in drv.drivable if m not in HEAVY] if pool is None else pool
    for node in nodes:
        if node["t"] != "block":
            continue
        decorate(drv, node["children"], rng, draw_values, q, counter, pool, raising)
        if node["kind"] != "foreign" and rng.random() < q:
            node["cbs"] = node.get("cbs", []) + draw_registrations(drv, rng, draw_values, counter, pool, raising=raising)
    return nodes


def exit_patterns(depth):
    """None, or (r, c): an exception raised at the end of the body of level r, caught outside level c <= r."""
    return [None] + [(r, c) for r in range(1, depth + 1) for c in range(1, r + 1)]


def chain_program(drv, levels, pattern, next_invoke, leading=()):
    """levels: list of ("plain", map) | ("app", call).  Block k holds [invoke, block k+1, invoke]; a last invoke
    follows the outermost block."""
    inner = None
    for k in range(len(levels), 0, -1):
        kind, payload = levels[k - 1]
        children = [next_invoke()] + ([inner, next_invoke()] if inner is not None else [])
        raises = pattern is not None and pattern[0] == k
        catches = pattern is None or pattern[1] == k or k > pattern[0]
        inner = block(kind, children, raises, catches, map=payload if kind == "plain" else None,
                      call=payload if kind == "app" else None)
    return list(leading) + [inner, next_invoke()]


def subsets(names):
    out = [[]]
    for n in names:
        out += [s + [n] for s in out]
    return out


def small_scope_mc(chk, drv, rng):
    setup = dict(init={"y": 1, "app_id": 20}, w=12, h=12, root=(0, 0), up=[(0, 0), (4, 8)])
    level_values = [dict(x=2, p=3, app_id=31), dict(x=9, p=4, app_id=32), dict(x=5, p=5, app_id=33)]
    light = [m for m in drv.drivable if m not in HEAVY]
    counter = [0]
    explicit = dict(x=7, y=7, p=9, processor=9, app_id=99)

    def next_invoke():
        counter[0] += 1
        return drv.make_call(light[counter[0] % len(light)], rng, explicit, "omit")
    discover = drv.make_call("discover_connections", rng, explicit, "omit")
    choices = lambda k: ([("plain", {n: level_values[k][n] for n in s}) for s in subsets(["x", "p", "app_id"])] +
                         [("app", drv.app_call(rng, level_values[k]["app_id"], "pos" if k % 2 else "kw"))])
    keep_d3 = chk.pick(0.12, 1.0)
    n = 0
    complete = True
    for depth in (1, 2, 3):
        def rec(k, acc):
            if k == depth:
                yield list(acc)
                return
            for c in choices(k):
                for r in rec(k + 1, acc + [c]):
                    yield r
        for levels in rec(0, []):
            for pat in exit_patterns(depth):
                if depth == 3 and keep_d3 < 1.0 and rng.random() >= keep_d3:
                    complete = False
                    continue
                n += 1
                lead = [discover] if n % 2 else []
                yield execute(drv, setup, chain_program(drv, levels, pat, next_invoke, lead), "small-mc")
    chk.extra["small_scope_mc"] = dict(
        complete=complete,
        domain="chains of 1-3 nested blocks; each block sets any subset of {x, p, app_id} (values distinct per level) "
               "or is an application block; every exit pattern: no exception, or one raised at the end of the body of "
               "level r and caught outside level c <= r; an invoke after every entry and every exit, all contextual "
               "arguments left to the context; initial context {y, app_id}; connections discovered in every second chain")


def small_scope_bmp(chk, drv, rng):
    hosts = [(0, 0), (0, 1), (1, 0), (1, 1), (0, 0, 4), (1, 1, 0), (0, 1, 6), (1, 0, 0)]
    setup = dict(init=None, hosts=hosts)
    level_values = [dict(cabinet=1, frame=1, board=4), dict(cabinet=0, frame=1, board=6), dict(cabinet=1, frame=0, board=2)]
    counter = [0]
    explicit = dict(cabinet=0, frame=0, board=9)

    def next_invoke():
        counter[0] += 1
        return drv.make_call(drv.drivable[counter[0] % len(drv.drivable)], rng, explicit, "omit")
    keep_d3 = chk.pick(0.12, 1.0)
    complete = True
    for depth in (1, 2, 3):
        def rec(k, acc):
            if k == depth:
                yield list(acc)
                return
            for s in subsets(list(BMP_NAMES)):
                for r in rec(k + 1, acc + [("plain", {n: level_values[k][n] for n in s})]):
                    yield r
        for levels in rec(0, []):
            for pat in exit_patterns(depth):
                if depth == 3 and keep_d3 < 1.0 and rng.random() >= keep_d3:
                    complete = False
                    continue
                yield execute(drv, setup, chain_program(drv, levels, pat, next_invoke), "small-bmp")
    chk.extra["small_scope_bmp"] = dict(
        complete=complete,
        domain="chains of 1-3 nested blocks, each setting any subset of {cabinet, frame, board}; every exit pattern; "
               "default initial context (0, 0, 0); connections for every (cabinet, frame) and four boards")


# (the root chip - the one the host is wired to - need not be at a board's origin as seen from (0, 0))
MACHINES = [(2, 2, (0, 0)), (8, 8, (0, 0)), (12, 12, (0, 0)), (12, 12, (4, 8)), (24, 12, (0, 0)), (16, 16, (0, 0)),
            (12, 24, (8, 4)), (12, 12, (0, 0)), (12, 12, (4, 0)), (24, 12, (7, 3)), (12, 12, (1, 1)), (24, 24, (20, 4))]


def random_program(drv, rng, draw_values, names, light_only, link_cands=None):
    pool = [m for m in drv.drivable if not (light_only and m in ("get_system_info", "get_routing_table_entries"))]

    keepers = []               # (key, map) of context objects that the program keeps and enters again
    app_keepers = []           # keys of application context objects that the program keeps and enters again
    has_files = [False]

    def gen(depth, parent="none"):
        nodes = []
        for _ in range(rng.randint(1, 3 if depth else 4)):
            r = rng.random()
            if rng.random() < 0.07:
                # the innermost block's arguments (or, outside any block, the initial context) changed in place
                v = draw_values()
                # (directly inside an application block the application id is left alone: which application such a
                # block then stops is not something the property speaks about)
                nodes.append(dict(t="update", map={n: v[n] for n in names
                                                   if rng.random() < 0.5 and not (parent == "app" and n == "app_id")}))
                continue
            if drv.kind == "mc" and rng.random() < 0.05:
                # a file-like view of allocated memory is made here and used later, wherever the program is then
                has_files[0] = True
                nodes.append(drv.make_call("sdram_alloc_as_filelike", rng, draw_values(),
                                           rng.choice((None, "omit", "kw", "pos"))))
                continue
            if has_files[0] and rng.random() < 0.12:
                nodes.append(dict(t="fileop", idx=rng.randrange(8), op=rng.choice(("read", "write", "slice", "read", "write", "free"))))
                continue
            if link_cands and rng.random() < 0.04:
                # Ethernet links come up / go down, then (usually) the connections are discovered again
                nodes.append(dict(t="links", up=[list(c) for c in link_cands if rng.random() < 0.6]))
                if rng.random() < 0.8:
                    nodes.append(drv.make_call("discover_connections", rng, draw_values(), "omit"))
                continue
            if r < 0.55 or depth >= 3:
                name = rng.choice(pool)
                if name in HEAVY and rng.random() < 0.7:
                    name = rng.choice(pool)
                nodes.append(drv.make_call(name, rng, draw_values(), rng.choice((None, None, "omit", "kw", "pos"))))
            elif r < 0.85 or drv.kind == "bmp":
                v = draw_values()
                m = {n: v[n] for n in names if rng.random() < 0.4}
                if rng.random() < 0.1:
                    m["nonesuch"] = 7          # a name no method declares
                if rng.random() < 0.08:
                    # (a block of another controller is no block of this one: what lies inside it is still directly
                    # inside the enclosing block of this controller)
                    nodes.append(block("foreign", gen(depth + 1, parent), map={n: v[n] for n in names}))
                elif rng.random() < 0.35:
                    # a context object kept by the program: made at its first entry, entered again later,
                    # under whatever blocks are open then
                    if keepers and rng.random() < 0.6:
                        key, m = rng.choice(keepers)
                    else:
                        key = len(keepers)
                        keepers.append((key, m))
                    kids = [drv.make_call(rng.choice(pool), rng, draw_values(), "omit")] + \
                        (gen(depth + 1) if rng.random() < 0.3 else [])
                    nodes.append(block("plain", kids, rng.random() < 0.25, rng.random() < 0.5, map=m, keep=key))
                else:
                    nodes.append(block("plain", gen(depth + 1), rng.random() < 0.25, rng.random() < 0.5, map=m,
                                       early=rng.random() < 0.3))
            else:
                call = drv.app_call(rng, draw_values()["app_id"], rng.choice(("pos", "kw", "ctx")))
                key = None
                if rng.random() < 0.3:
                    # the object application(...) returns is kept: made at its first entry, entered again later
                    if app_keepers and rng.random() < 0.6:
                        key = rng.choice(app_keepers)
                    else:
                        key = len(app_keepers)
                        app_keepers.append(key)
                nodes.append(block("app", gen(depth + 1, "app"), rng.random() < 0.25, rng.random() < 0.5, call=call,
                                   stop_fails=rng.random() < 0.15, keep=key))
        return nodes
    return gen(0)


def random_mc(chk, drv, rng, n):
    cbrng = random.Random(chk.seed * 1000 + 181)
    for i in range(n):
        w, h, root = rng.choice(MACHINES)
        # candidates for a live Ethernet link: the chips at their board's origin as seen from the root, and a few others
        cands = [(x, y) for x in range(w) for y in range(h)
                 if ((x - root[0]) % 12, (y - root[1]) % 12) in ((0, 0), (4, 8), (8, 4))]
        cands += [(rng.randrange(w), rng.randrange(h)) for _ in range(2)]
        cands = sorted(set(cands))
        up = [c for c in cands if rng.random() < 0.6]

        def draw_with(rng):
            if rng.random() < 0.04:
                xy = (255, 255)
            else:
                xy = (rng.randrange(w), rng.randrange(h))
            return dict(x=xy[0], y=xy[1], p=rng.randint(0, 17), processor=rng.randint(0, 17),
                        app_id=rng.randint(1, 255))

        def draw():
            return draw_with(rng)
        r = rng.random()
        if r < 0.35:
            init = None
        elif r < 0.5:
            init = {}
        else:
            v = draw()
            init = {k: v[k] for k in MC_NAMES if rng.random() < 0.4}
        prog = random_program(drv, rng, draw, MC_NAMES, light_only=(w * h > 150),
                              link_cands=cands if rng.random() < 0.3 else None)
        if rng.random() < 0.7:
            prog.insert(0, drv.make_call("discover_connections", rng, draw(), rng.choice(("omit", "omit", "kw", "pos"))))
        observe = rng.random() < 0.6
        # (the caller's own before_close functions are drawn from another stream: the programs stay what they were)
        decorate(drv, prog, cbrng, lambda: dict(draw_with(cbrng)), 0.2)
        yield execute(drv, dict(init=init, w=w, h=h, root=root, up=up, observe=observe), prog, "random-mc")


def focus_mc(chk, drv, rng, n):
    """Short programs aimed at histories the random trees reach rarely: (a) a file-like view made in one block and used
    in others, (b) an application context object kept and entered again, (c) Ethernet links that change between two
    discoveries, (d) fill() of unaligned regions and transfers longer than a packet under a block that sets a core."""
    for i in range(n):
        w, h, root = rng.choice([(12, 12, (0, 0)), (24, 12, (0, 0)), (24, 12, (7, 3)), (12, 24, (8, 4)), (24, 24, (20, 4))])
        cands = sorted((x, y) for x in range(w) for y in range(h)
                       if ((x - root[0]) % 12, (y - root[1]) % 12) in ((0, 0), (4, 8), (8, 4)))

        def draw():
            return dict(x=rng.randrange(w), y=rng.randrange(h), p=rng.randint(0, 17), processor=rng.randint(0, 17),
                        app_id=rng.randint(1, 255))

        def call(name, style="omit"):
            return drv.make_call(name, rng, draw(), style)

        def plain(children, names=("x", "y", "p"), **kw):
            v = draw()
            return block("plain", children, map={k: v[k] for k in names}, **kw)
        up = [c for c in cands if rng.random() < 0.7]
        lead = [call("discover_connections")] if rng.random() < 0.7 else []
        kind = i % 4
        if kind == 0:
            ops = [dict(t="fileop", idx=rng.randrange(4), op=o) for o in ("read", "write", "slice", "free")]
            rng.shuffle(ops)
            ops = ops[:rng.randint(2, 4)]
            prog = lead + [plain([call("sdram_alloc_as_filelike", rng.choice(("omit", "kw", "pos", None))), ops[0]],
                                 names=("x", "y", "p", "app_id")),
                           plain([ops[1]] + [plain(ops[2:3], raises=rng.random() < 0.3)], names=("x", "y")),
                           plain([call("sdram_alloc_as_filelike", "kw")] + ops[3:], names=("x", "p", "app_id"))] + \
                [dict(t="fileop", idx=rng.randrange(4), op=rng.choice(("read", "write", "free")))]
        elif kind == 1:
            a = drv.app_call(rng, draw()["app_id"], rng.choice(("pos", "kw")))
            inner = block("app", [call("sdram_alloc"), dict(t="update", map={"x": rng.randrange(w)})], call=a, keep=0,
                          raises=rng.random() < 0.3)
            again = block("app", [call("send_signal")] +
                          ([block("app", [call("count_cores_in_state")], call=a, keep=0)] if rng.random() < 0.4 else []),
                          call=a, keep=0, raises=rng.random() < 0.3, stop_fails=rng.random() < 0.2)
            prog = lead + [inner, call("send_signal"), plain([again, call("clear_routing_table_entries")],
                                                             names=("y", "app_id")), again, call("sdram_free", "kw")]
        elif kind == 2:
            up2 = [c for c in cands if rng.random() < 0.7]
            there = lambda: [drv.make_call(rng.choice(("read", "iptag_get", "get_chip_info", "sdram_alloc")), rng,
                                           dict(draw(), x=c[0] + rng.randrange(4), y=c[1]), "kw") for c in cands
                             if c[0] + 4 <= w]
            prog = [call("discover_connections")] + there()[:4] + [dict(t="links", up=[list(c) for c in up2])] + \
                ([call("discover_connections")] if rng.random() < 0.8 else []) + there()[:6]
            if rng.random() < 0.5:
                prog = [plain(prog, names=("x", "y"))]
        else:
            names = rng.choice((("p",), ("x", "p"), ("x", "y", "p"), ("y",)))
            style = lambda: rng.choice(("omit", "kw", "pos", None))
            prog = lead + [plain([call(m, style()) for m in ("fill", "fill", "write", "read", "write_across_link",
                                                             "read_across_link", "fill", "write", "read_across_link")],
                                 names=names)] + [call("fill", "kw"), call("fill", "pos")]
        init = rng.choice((None, {}, {k: draw()[k] for k in ("x", "y")}))
        yield execute(drv, dict(init=init, w=w, h=h, root=root, up=up, observe=rng.random() < 0.6), prog, "focus-mc")


# the caller's before_close(...) calls on one context object: (when, number of functions given in the call)
CB_SHAPES = [[("pre", 1)], [("pre", 2)], [("pre", 1), ("pre", 1)], [("in", 1)], [("late", 1)], [("pre", 1), ("in", 1)],
             [("pre", 0)], [("pre", 3), ("late", 2)], [("in", 2), ("late", 1)]]


def callbacks_mc(chk, drv, rng, n):
    """Programs about the public API of the context objects besides entering them: the caller registers functions of
    their own with before_close(...) on the object returned by ctrl.application(...) / ctrl(...) - before the block is
    entered, inside it, again when a kept object is entered again; none, one or several per call, one or several
    calls - and the block is left normally, by an exception caught just outside it, or by one caught further out.
    Every combination of (application | plain block) x CB_SHAPES x the three exits x (fresh | kept and entered again)
    comes round once in 108 programs."""
    pool = [m for m in drv.drivable if m not in HEAVY]
    for i in range(n):
        w, h, root = rng.choice([(8, 8, (0, 0)), (12, 12, (0, 0)), (24, 12, (7, 3)), (12, 24, (8, 4))])
        cands = sorted((x, y) for x in range(w) for y in range(h)
                       if ((x - root[0]) % 12, (y - root[1]) % 12) in ((0, 0), (4, 8), (8, 4)))

        def draw():
            return dict(x=rng.randrange(w), y=rng.randrange(h), p=rng.randint(0, 17), processor=rng.randint(0, 17),
                        app_id=rng.randint(1, 255))

        def call(name=None, style="omit"):
            return drv.make_call(name or rng.choice(pool), rng, draw(), style)
        counter = [0]
        j = i
        is_app, j = j % 2 == 0, j // 2
        shape, j = CB_SHAPES[j % len(CB_SHAPES)], j // len(CB_SHAPES)
        exit_kind, j = j % 3, j // 3
        kept = j % 2 == 1
        regs = lambda sh=None, raising=False: draw_registrations(drv, rng, draw, counter, pool, sh, raising)
        v = draw()
        body = [call(rng.choice(("sdram_alloc", "send_signal", "read", None)))]
        if rng.random() < 0.3:
            # an application block of its own inside, with functions of the caller's as well
            body.append(block("app", [call()], call=drv.app_call(rng, draw()["app_id"], "pos"), raises=rng.random() < 0.3,
                              cbs=regs(rng.choice(CB_SHAPES))))
        common = dict(raises=exit_kind > 0, catches=exit_kind < 2, keep=0 if kept else None,
                      cbs=regs(shape, raising=rng.random() < 0.15))
        if is_app:
            how = rng.choice(("pos", "kw", "ctx"))
            target = block("app", body, call=drv.app_call(rng, v["app_id"], how), stop_fails=rng.random() < 0.08, **common)
        else:
            target = block("plain", body, map={k: v[k] for k in ("x", "y", "p", "app_id") if rng.random() < 0.6}, **common)
        outer_names = [k for k in ("x", "y", "p", "app_id") if rng.random() < 0.7]
        o = draw()
        prog = [block("plain", [call(), target, call()], map={k: o[k] for k in outer_names})]
        if kept:
            # the same object entered again (no new application(...) call), with more functions registered on it
            again = dict(target, children=[call()], raises=rng.random() < 0.3, catches=True,
                         cbs=regs(rng.choice(CB_SHAPES)) if rng.random() < 0.7 else [])
            prog += [call("send_signal"), again] if rng.random() < 0.5 else \
                [block("plain", [again, call()], map={k: draw()[k] for k in ("y", "app_id")})]
        prog.append(call())
        if rng.random() < 0.6:
            prog.insert(0, call("discover_connections"))
        init = rng.choice((None, {}, {k: draw()[k] for k in ("x", "y", "app_id")}))
        yield execute(drv, dict(init=init, w=w, h=h, root=root, up=[c for c in cands if rng.random() < 0.7],
                                observe=rng.random() < 0.7), prog, "callbacks-mc")


def random_bmp(chk, drv, rng, n):
    cbrng = random.Random(chk.seed * 1000 + 183)
    for i in range(n):
        nc, nf = rng.randint(1, 2), rng.randint(1, 3)
        hosts = [(c, f) for c in range(nc) for f in range(nf)]
        hosts += sorted(set((rng.randrange(nc), rng.randrange(nf), rng.choice((0, 0, 1, 2, 5, 23)))
                            for _ in range(rng.randint(0, 5))))
        rng.shuffle(hosts)

        def draw():
            return dict(cabinet=rng.randrange(nc), frame=rng.randrange(nf), board=rng.choice((0, 1, 2, 5, 23, 7)))
        r = rng.random()
        if r < 0.35:
            init = None
        elif r < 0.5:
            init = {}
        else:
            v = draw()
            init = {k: v[k] for k in BMP_NAMES if rng.random() < 0.5}
        observe = rng.random() < 0.6
        prog = random_program(drv, rng, draw, BMP_NAMES, False)
        decorate(drv, prog, cbrng, lambda: dict(cabinet=cbrng.randrange(nc), frame=cbrng.randrange(nf),
                                                board=cbrng.choice((0, 1, 2, 5, 23, 7))), 0.2)
        yield execute(drv, dict(init=init, hosts=hosts, observe=observe), prog, "random-bmp")


# ------------------------------------------------------------------------------------------ the check
def key_of(tr, i, clauses):
    ev = tr["ev"][i - 1]
    what = ev[0] if ev[0] != "invoke" else "%s.%s" % ("MachineController" if tr["kind"] == "mc" else "BMPController", ev[1])
    return "%s %s" % (",".join(clauses), what)


def tally(chk, drv_by_kind, traces):
    per = {}
    for tr in traces:
        drv = drv_by_kind[tr["kind"]]
        ncb = 0                    # functions of the caller's called since the innermost open block's last other step
        for ev in tr["ev"]:
            if ev[0] == "cb":
                ncb += 1
                chk.count("functions the caller registered with before_close(...) called on leaving a block")
            elif ev[0] == "exit":
                if ncb and ev[2]:
                    chk.count("application blocks left after functions of the caller's ran (%s)"
                              % ("by exception" if ev[1] == "exception" else "normally"))
                ncb = 0
            elif ev[0] != "invoke":
                ncb = 0
            if ev[0] == "invoke":
                c = per.setdefault("%s.%s" % (drv.cls.__name__, ev[1]), [0, 0, 0])
                c[0 if ev[4] == ["ok"] else 1] += 1
                c[2] += len(ev[5])
                if ev[1] == "fill" and any(d[4] == 3 for d in ev[5]):
                    chk.count("fill() calls of an unaligned region (performed as writes)")
                if ev[1] in ("read", "write", "read_across_link", "write_across_link") and len(ev[5]) > 1:
                    chk.count("transfers split into several commands")
                mi = drv.methods[ev[1]]
                if tr["kind"] == "mc" and not set(mi.declared()) & {"p", "processor"}:
                    n = sum(1 for d in ev[5] if d[3] != 0)
                    if n:
                        chk.count("datagrams to a context's core sent by methods that declare no core argument "
                                  "(informational, not judged)", n)
            elif ev[0] == "fileop":
                chk.count("uses of a file-like view (read / write / slice / free) under later blocks")
                chk.count("datagrams sent by file-like views", len(ev[4]))
            elif ev[0] == "links":
                chk.count("changes of the live Ethernet links between discoveries")
            elif ev[0] == "enter" and ev[4] >= APP_KEYS:
                chk.count("kept application context objects entered again")
            elif ev[0] == "exit":
                chk.count("blocks left by exception" if ev[1] == "exception" else "blocks left normally")
                if ev[2]:
                    chk.count("stop signals on leaving application blocks", len(ev[2]))
    chk.extra["per_method_ok_rejected_datagrams"] = per
    chk.count("command calls", sum(c[0] + c[1] for c in per.values()))
    chk.count("command calls rejected", sum(c[1] for c in per.values()))
    chk.count("datagrams on the wire", sum(c[2] for c in per.values()))


def replay(chk):
    with open(chk.replay_path) as fh:
        old = json.load(fh)["replay"]["trace"]
    drv = Driver(chk, old["kind"], chk.tmp)
    t = execute(drv, json.loads(old["setup"]), json.loads(old["prog"]), "replay")
    t.pop("opened")
    chk.note_case(t["ev"])
    chk.sample(dict(t, ev=t["ev"][:6]))
    chk.rule = "replay of %s: the recorded program runs again on a fresh controller" % chk.replay_path
    chk.validate("ContextTrace", "ContextTrace.cfg", [t], key_of=key_of)


def run(chk):
    if chk.replay_path:
        return replay(chk)
    rng = random.Random(chk.seed)
    chk.design("ContextDesign", "ContextDesign_%s.cfg" % chk.tier,
               expect_actions=("Enter", "EnterApp", "ExitNormally", "ExitByException", "Propagate", "Catch", "Invoke"))
    r = chk.design("ContextDesign", "ContextDesign_popfirst.cfg", allow_error=True, label="refuted variant")
    if r.ok or "StopsOwnApp" not in (r.error or ""):
        from ..core import MachineryError
        raise MachineryError("ContextDesign_popfirst: the pop-before-callbacks variant was not refuted: %s" % r.error)
    chk.extra["refuted_variant"] = "pop before running the exit callbacks: StopsOwnApp violated (as expected)"

    mc, bmp = Driver(chk, "mc", chk.tmp), Driver(chk, "bmp", chk.tmp)
    chk.extra["methods_driven"] = {"MachineController": mc.drivable + ["application (as a block)"],
                                   "BMPController": bmp.drivable}
    traces = []
    traces += list(small_scope_mc(chk, mc, rng))
    traces += list(small_scope_bmp(chk, bmp, rng))
    traces += list(random_mc(chk, mc, rng, chk.pick(1200, 20000)))
    traces += list(focus_mc(chk, mc, rng, chk.pick(120, 2000)))
    traces += list(callbacks_mc(chk, mc, random.Random(chk.seed * 1000 + 182), chk.pick(216, 3240)))
    traces += list(random_bmp(chk, bmp, rng, chk.pick(500, 8000)))
    opened = sum(t.pop("opened") for t in traces)
    chk.count("simulated sockets opened (no real socket)", opened)
    for t in traces:
        nontrivial = any(e[0] == "invoke" and e[4] == ["ok"] for e in t["ev"]) and \
            any(e[0] in ("enter", "app") for e in t["ev"])
        chk.note_case((t["kind"], t["init"], t.get("up"), t.get("hosts"),
                       [e[:4] if e[0] != "invoke" else e[:5] for e in t["ev"]]), nontrivial=nontrivial)
    tally(chk, {"mc": mc, "bmp": bmp}, traces)
    chk.rule = ("small scope: see small_scope_mc / small_scope_bmp; then seeded random programs: trees of depth <= 3 of "
                "plain blocks (random subsets of the contextual names, sometimes a name no method declares), "
                "application blocks (id positional / keyword / from context) and calls of every decorated method found "
                "by introspection with each contextual argument positional / keyword / omitted; 25% of the blocks are "
                "left by an exception, caught outside that block or further out; machines 2x2 ... 24x12 with root "
                "chips on different boards and random subsets of Ethernet links up, connections discovered by rig's "
                "discover_connections at the start of 70% of the programs (and wherever the random program calls it); "
                "initial context: the documented default, empty, or random; non-trivial = at least one block and one "
                "accepted command; distinct = distinct (controller, initial context, network, event skeleton with "
                "arguments); also: file-like views returned by sdram_alloc_as_filelike read / written / sliced / freed "
                "under later blocks, application context objects kept and entered again (also inside themselves), "
                "Ethernet links changing between two discoveries, fill() of unaligned regions, transfers of 8-600 "
                "bytes (one to three commands), and focus programs for each of these (focus_mc); the caller's own "
                "before_close(...) functions on 20% of the blocks of the random programs (registered before entering / "
                "inside the body / again on kept objects; 0-3 functions per call, 1-3 calls; a function records that it "
                "ran, calls a command - judged like any command called inside the block -, or raises), and "
                "callbacks_mc: (application | plain block) x nine registration shapes x (normal exit | exception caught "
                "just outside | caught further out) x (fresh | kept object entered again), each twice")
    chk.exhaustive = False
    chk.assumptions += [
        "the simulated machine acknowledges every command (no time-outs, no error codes); replies are canned",
        "SCP field layout of the app id (CMD_ALLOC, CMD_RTR, CMD_SIG, flood-fill end) is written in Context.tla",
        "the board controller is only driven towards (cabinet, frame) pairs for which a connection was given",
        "update_current_context is driven in the random programs only (the small-scope chains change contexts through `with` alone)"]
    for t in (traces[3], traces[len(traces) // 2], traces[-1]):
        chk.sample(dict(t, ev=t["ev"][:6], prog="(omitted)"))
    chk.validate("ContextTrace", "ContextTrace.cfg", traces, key_of=key_of, batch=2000)
    # job R: behaviours of the context-stack design chosen by TLC's simulator, replayed through the real controllers
    from . import c18_replay
    c18_replay.run_replay(chk)


def selftest(chk):
    import copy
    rng = random.Random(5)
    mc, bmp = Driver(chk, "mc", chk.tmp), Driver(chk, "bmp", chk.tmp)
    v = dict(x=7, y=7, p=9, processor=9, app_id=99)
    omit = lambda name: mc.make_call(name, rng, v, "omit")
    app = block("app", [omit("sdram_alloc")], raises=True, catches=True, call=mc.app_call(rng, 40, "pos"))
    outer = block("plain", [omit("read"), app, omit("get_processor_status")], map=dict(x=9, y=1, p=4))
    good = execute(mc, dict(init=None, w=12, h=12, root=(0, 0), up=[(0, 0), (4, 8)]),
                   [omit("discover_connections"), outer, omit("read")])
    good.pop("opened")
    names = [e[0] if e[0] != "invoke" else e[1] for e in good["ev"]]
    assert names == ["discover_connections", "enter", "read", "app", "sdram_alloc", "exit", "get_processor_status",
                     "exit", "read", "end"], names
    bomit = lambda name: bmp.make_call(name, rng, dict(cabinet=0, frame=0, board=0), "omit")
    bgood = execute(bmp, dict(init=None, hosts=[(0, 0), (0, 1), (0, 1, 6)]),
                    [block("plain", [bomit("read_adc"), bomit("set_power")], map=dict(frame=1, board=6))])
    bgood.pop("opened")

    # the caller's own before_close functions on an application block (one recording, one calling a command) and on
    # the plain block around it; the application block is left by an exception
    capp = block("app", [omit("sdram_alloc")], raises=True, catches=True, call=mc.app_call(rng, 40, "kw"),
                 cbs=[dict(when="pre", fns=[dict(id=1, do="mark")]),
                      dict(when="in", fns=[dict(id=2, do="invoke", call=omit("send_signal"))])])
    couter = block("plain", [capp, omit("read")], map=dict(x=9, y=1, p=4), cbs=[dict(when="late", fns=[dict(id=3, do="mark")])])
    cgood = execute(mc, dict(init=None, w=12, h=12, root=(0, 0), up=[(0, 0)]), [couter])
    cgood.pop("opened")
    names = [e[0] if e[0] != "invoke" else e[1] for e in cgood["ev"]]
    assert names == ["enter", "app", "sdram_alloc", "cb", "cb", "send_signal", "exit", "read", "cb", "exit", "end"], names

    def mut(base, f):
        t = copy.deepcopy(base)
        f(t["ev"])
        return t

    def swap(i, j):
        def f(ev):
            ev[i], ev[j] = ev[j], ev[i]
        return f
    other_core = lambda ev: [d.__setitem__(5, [d[5][0], (d[5][1] + 1) % 256, d[5][2], d[5][3]]) for d in ev[6][5]]
    cases = [
        (good, None), (bgood, None),
        (mut(good, lambda ev: ev[2][5][0].__setitem__(1, 8)), "ResolvedX"),
        (mut(good, lambda ev: ev[2][5][0].__setitem__(2, 2)), "ResolvedY"),
        (mut(good, lambda ev: ev[2][5][0].__setitem__(3, 0)), "ResolvedP"),
        (mut(good, lambda ev: ev[2][5][0].__setitem__(0, [-1, -1])), "RightConnection"),
        (mut(good, lambda ev: ev[4][5][0][5].__setitem__(1, 41)), "ResolvedAppId"),
        (mut(good, lambda ev: ev[5].__setitem__(2, [])), "ApplicationExitStops"),
        (mut(good, lambda ev: ev[5][2][0][6].__setitem__(0, 66)), "ApplicationExitStops"),
        (mut(good, lambda ev: ev[5][2].append(ev[5][2][0])), "ApplicationExitStops"),
        (mut(good, lambda ev: ev[7].__setitem__(2, list(ev[5][2]))), "ApplicationExitStops"),
        (mut(good, lambda ev: ev[5][3].pop()), "ExitRestores"),
        (mut(good, lambda ev: ev[7].__setitem__(1, "error AssertionError")), "ExitCompletes"),
        (mut(good, lambda ev: ev[1][2].pop()), "EnterInForce"),
        (mut(good, other_core), "SubjectCoreAddressed"),
        (mut(good, lambda ev: ev[8].__setitem__(4, ["ok"])), "RequiredRejectedBeforeSend"),
        (mut(good, lambda ev: ev[8].__setitem__(5, list(ev[2][5]))), "NothingSentOnReject"),
        (mut(good, lambda ev: (ev[2].__setitem__(4, ["raise", "TypeError"]), ev[2].__setitem__(5, []))),
         "AcceptedWhenResolved"),
        (mut(good, lambda ev: ev[2].__setitem__(5, [])), "CommandSent"),
        (mut(good, lambda ev: ev.__delitem__(7)), "AcceptedWhenResolved"),      # dropped exit: the last read resolves
        (mut(good, lambda ev: (ev.__delitem__(8), ev.__delitem__(7))), "AllBlocksLeft"),
        (mut(good, lambda ev: ev.insert(9, ["exit", "normal", [], list(ev[9][1])])), "BalancedExit"),
        (mut(good, swap(1, 2)), "RequiredRejectedBeforeSend"),                  # command before its block
        (mut(good, swap(4, 5)), "ResolvedAppId"),                               # command after its block was left
        (cgood, None),
        (mut(cgood, lambda ev: ev[6].__setitem__(2, [])), "ApplicationExitStops"),           # the stop was lost
        (mut(cgood, lambda ev: ev[6].__setitem__(2, ev[6][2] + ev[5][5])), "ApplicationExitStops"),
        (mut(cgood, lambda ev: ev[9].__setitem__(2, list(ev[6][2]))), "ApplicationExitStops"),
        (mut(cgood, lambda ev: ev[3][2].pop()), "CallbackBeforeExit"),
        (mut(cgood, swap(3, 6)), "CallbackBeforeExit"),         # the block popped, then the function called
        (mut(cgood, swap(8, 9)), "CallbackBeforeExit"),
        (mut(cgood, lambda ev: ev[5][5][0][6].__setitem__(0, 66)), "ResolvedAppId"),         # (a signal to application 40)
        (mut(bgood, lambda ev: ev[1][5][0].__setitem__(0, [0, 1])), "RightConnection"),
        (mut(bgood, lambda ev: ev[1][5][0].__setitem__(3, 5)), "ResolvedBoard"),
        (mut(bgood, lambda ev: ev[2][5][0][6].__setitem__(0, 1)), "ResolvedBoard"),
        (mut(bgood, lambda ev: ev[2][5][0].__setitem__(0, [0, 0])), "RightConnection"),
    ]
    rej = chk.validate("ContextTrace", "ContextTrace.cfg", [c[0] for c in cases])
    got = {id(t): cl for t, _, cl in rej}
    msgs = []
    for tr, want in cases:
        cl = got.get(id(tr))
        if (want is None) != (cl is None) or (want and want not in cl):
            msgs.append("expected %s, got %s" % (want, cl))
    return not msgs, "; ".join(msgs) or "%d corrupted / dropped / swapped traces rejected with the expected clauses" % (
        len(cases) - 3)
