"""C19 - SpiNN-5 board geometry functions agree with the board tiling.

D: Spinn5.tla (tile size, partition of the plane, 48 leaving links, edge <=> board change on a walk).
T: every value of the five rig.geometry SpiNN-5 functions becomes an event judged by Spinn5Trace.tla.
"""
import random

from rig import geometry
from rig.links import Links


def run(chk):
    rng = random.Random(chk.seed)
    chk.design("Spinn5Design", "Spinn5Design.cfg", expect_actions=("Move",))

    traces = []
    # machine shapes: multiples of 12 and ragged; root offsets
    # (the largest machines have coordinates of 128 and more: the 1200-board system is 240 x 240)
    shapes = [(12, 12), (24, 12), (12, 24), (24, 24), (36, 24), (8, 8), (20, 13), (1, 1), (5, 30), (36, 36),
              (240, 240), (132, 24), (12, 156), (255, 250)]
    if not chk.quick:
        shapes += [(w, h) for w in range(1, 37, 5) for h in range(1, 37, 7)]
    roots = [(0, 0), (4, 8), (8, 4), (1, 0), (0, 1), (11, 11), (5, 7)]
    if chk.quick:
        roots += [(rng.randint(0, 11), rng.randint(0, 11)) for _ in range(5)]
    else:
        roots = [(x, y) for x in range(12) for y in range(12)]
    base_roots = roots
    for (w, h) in shapes:
        # the root chip can be any chip of the machine, not only one of the first board's
        roots = base_roots + [(rng.randrange(w), rng.randrange(h)) for _ in range(chk.pick(2, 6))] + \
            ([(rng.randrange(w), rng.randrange(12, h))] if h > 12 else [])
        if max(w, h) > 100:
            roots = rng.sample(roots, 4) + roots[-1:]
        for (rx, ry) in roots:
            if (w, h) not in shapes[:5] and (rx, ry) not in base_roots[:7] and not chk.quick and rng.random() < 0.7:
                continue
            evs = []
            wrap = (w % 12 == 0 and h % 12 == 0)
            chips = [(x, y) for x in range(w) for y in range(h)]
            if len(chips) > chk.pick(150, 600):
                chips = rng.sample(chips, chk.pick(150, 600))
            for (x, y) in chips:
                try:
                    ex, ey = geometry.spinn5_local_eth_coord(x, y, w, h, rx, ry)
                except Exception as ex_:          # judged by the specification (NoException)
                    evs.append(["raise", "spinn5_local_eth_coord", x, y, type(ex_).__name__])
                    continue
                evs.append(["eth", x, y, int(ex), int(ey)])
                chk.note_case(("eth", x % 12, y % 12, w, h, rx, ry))
                cx, cy = geometry.spinn5_chip_coord(x, y, rx, ry)
                evs.append(["chip", x, y, int(cx), int(cy)])
                for k in Links:
                    r = geometry.spinn5_fpga_link(x, y, k, rx, ry)
                    evs.append(["fpga", x, y, int(k)] + ([0, 0, 0] if r is None else [1, int(r[0]), int(r[1])]))
                chk.note_case(("chip", x, y, rx, ry))
            eths = [[int(a), int(b)] for a, b in geometry.spinn5_eth_coords(w, h, rx, ry)]
            evs.append(["eths", eths])
            chk.note_case(("eths", w, h, rx, ry))
            # one whole board (the one whose Ethernet chip is at the root offset), every chip and link
            q = []
            for bx in range(8):
                for by in range(8):
                    if bx - by <= 4 and by - bx <= 3:
                        for k in Links:
                            r = geometry.spinn5_fpga_link(bx + rx, by + ry, k, rx, ry)
                            if r is not None:
                                q.append([bx, by, int(k), int(r[0]), int(r[1])])
            evs.append(["board", q])
            traces.append(dict(w=w, h=h, rx=rx, ry=ry, ev=evs))
    # standard system dimensions
    evs = []
    for n in list(range(0, chk.pick(400, 1500))) + [3 * k for k in range(130, chk.pick(300, 1000), 7)]:
        try:
            dw, dh = geometry.standard_system_dimensions(n)
            evs.append(["dims", n, 1, int(dw), int(dh)])
        except ValueError:
            evs.append(["dims", n, 0, 0, 0])
        chk.note_case(("dims", n), nontrivial=(n % 3 == 0))
    for i in range(0, len(evs), 100):
        traces.append(dict(w=1, h=1, rx=0, ry=0, ev=evs[i:i + 100]))

    chk.rule = ("machine shapes %d (multiples of 12 and ragged) x root offsets %d; per machine up to %d chips x "
                "{local eth, chip coord, six FPGA links}, the Ethernet list, one whole board's FPGA map; board counts "
                "0..%d; non-trivial = every case except board counts that are not multiples of three" %
                (len(shapes), len(roots), chk.pick(150, 600), chk.pick(400, 1500)))
    chk.exhaustive = False
    for t in traces[:1] + traces[-1:]:
        chk.sample(dict(w=t["w"], h=t["h"], rx=t["rx"], ry=t["ry"], ev=t["ev"][:4] + t["ev"][-2:]))
    chk.assumptions.append("on machines whose width or height is not a multiple of 12 the local Ethernet chip is "
                           "judged only when the board's Ethernet chip lies inside the machine (elsewhere the torus does "
                           "not close on board edges and the tiling does not define the answer)")

    def key_of(tr, i, clauses):
        e = tr["ev"][i - 1]
        return "%s %s w=%s h=%s root=(%s,%s) %s" % (e[0], ",".join(clauses), tr["w"], tr["h"], tr["rx"], tr["ry"],
                                                    e[1:4] if e[0] not in ("board", "eths") else "")

    chk.validate("Spinn5Trace", "Spinn5Trace.cfg", traces, key_of=key_of, batch=400)
    # beyond the property: the wizard protocol (rig.wizard uses standard_system_dimensions), its command-line
    # front-end and unbooted_ping.listen, judged against Wizard.tla
    from . import wizard
    wizard.run_beyond(chk)


def selftest(chk):
    good = [["eth", 5, 0, 8, 4], ["chip", 5, 0, 1, 8 - 0 - 4 + 0]]
    cases = [
        (dict(w=12, h=12, rx=0, ry=0, ev=[["eth", 5, 0, 4, 8], ["chip", 5, 0, 1, 4], ["chip", 4, 0, 4, 0], ["fpga", 4, 0, 0, 1, 0, 6],
                                        ["fpga", 3, 0, 0, 0, 0, 0], ["dims", 24, 1, 48, 24], ["dims", 4, 0, 0, 0]]), None),
        (dict(w=12, h=12, rx=0, ry=0, ev=[["eth", 5, 0, 0, 0]]), "EthIsBoardOrigin"),
        (dict(w=12, h=12, rx=0, ry=0, ev=[["chip", 4, 0, 0, 4]]), "ChipIsOffset"),
        (dict(w=12, h=12, rx=0, ry=0, ev=[["fpga", 3, 0, 0, 1, 0, 6]]), "FpgaIffLeaves"),
        (dict(w=12, h=12, rx=0, ry=0, ev=[["eths", [[0, 0], [4, 8]]]]), "EthsExact"),
        (dict(w=12, h=12, rx=0, ry=0, ev=[["dims", 24, 1, 96, 12]]), "DimsSquarest"),
    ]
    rej = chk.validate("Spinn5Trace", "Spinn5Trace.cfg", [c[0] for c in cases])
    got = {id(t): cl for t, _, cl in rej}
    msgs = []
    for tr, want in cases:
        cl = got.get(id(tr))
        if (want is None) != (cl is None) or (want and want not in cl):
            msgs.append("expected %s, got %s" % (want, cl))
    return not msgs, "; ".join(msgs) or "%d corrupted traces rejected with the expected clauses" % (len(cases) - 1)
