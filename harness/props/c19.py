"""C19 - SpiNN-5 board geometry functions agree with the board tiling.

D: Spinn5.tla (tile size, partition of the plane, 48 leaving links, edge <=> board change on a walk).
T: every value of the five rig.geometry SpiNN-5 functions becomes an event judged by Spinn5Trace.tla.
"""
import random

from rig import geometry
from rig.links import Links


TILE = [(bx, by) for bx in range(8) for by in range(8) if bx - by <= 4 and by - bx <= 3]


def _call(evs, name, x, y, f, *a, **kw):
    """Call rig; an exception becomes a judged event (NoException), never the end of the run."""
    try:
        return True, f(*a, **kw)
    except Exception as ex_:
        evs.append(["raise", name, x, y, type(ex_).__name__])
        return False, None


def _board(evs, ox, oy, rx, ry, wrap_wh=None):
    """One whole board's FPGA map: every chip of the board whose Ethernet chip is (ox, oy), every link."""
    q = []
    for (bx, by) in TILE:
        x, y = bx + ox, by + oy
        if wrap_wh:
            x, y = x % wrap_wh[0], y % wrap_wh[1]
        for k in Links:
            ok, r = _call(evs, "spinn5_fpga_link", x, y, geometry.spinn5_fpga_link, x, y, k, rx, ry)
            if ok and r is not None:
                q.append([bx, by, int(k), int(r[0]), int(r[1])])
    evs.append(["board", q])


def _eths(evs, gen):
    ok, r = _call(evs, "spinn5_eth_coords", 0, 0, lambda: [[int(a), int(b)] for a, b in gen])
    if ok:
        evs.append(["eths", r])


def run(chk):
    rng = random.Random(chk.seed)
    chk.design("Spinn5Design", "Spinn5Design.cfg", expect_actions=("Move",))

    traces = []
    # machine shapes: multiples of 12 and ragged; root offsets
    # (the largest machines have coordinates of 128 and more: the 1200-board system is 240 x 240)
    shapes = [(12, 12), (24, 12), (12, 24), (24, 24), (36, 24), (8, 8), (20, 13), (1, 1), (5, 30), (36, 36),
              (240, 240), (132, 24), (12, 156), (255, 250)]
    if not chk.quick:
        shapes += [(w, h) for w in range(1, 37, 5) for h in range(1, 37, 7)]
    # "light" shapes (a few roots, fewer chips each): one dimension a multiple of 12 and the other ragged, wide and
    # flat, and shapes drawn afresh for every seed
    light = [(12, 8), (8, 12), (24, 20), (16, 36), (30, 5), (48, 7)]
    light += [(rng.randint(1, 40), rng.randint(1, 40)) for _ in range(chk.pick(3, 30))]
    light += [(12 * rng.randint(1, 4), rng.randint(1, 40)), (rng.randint(1, 40), 12 * rng.randint(1, 4))]
    light = [sh for sh in light if sh not in shapes]
    roots = [(0, 0), (4, 8), (8, 4), (1, 0), (0, 1), (11, 11), (5, 7)]
    if chk.quick:
        roots += [(rng.randint(0, 11), rng.randint(0, 11)) for _ in range(5)]
    else:
        roots = [(x, y) for x in range(12) for y in range(12)]
    base_roots = roots
    n_histories = 0
    for (w, h) in shapes + light:
        is_light = (w, h) in light
        # the root chip can be any chip of the machine, not only one of the first board's
        roots = base_roots + [(rng.randrange(w), rng.randrange(h)) for _ in range(chk.pick(2, 6))] + \
            ([(rng.randrange(w), rng.randrange(12, h))] if h > 12 else [])
        if max(w, h) > 100:
            roots = rng.sample(roots, 4) + roots[-1:]
        if is_light:
            roots = rng.sample(base_roots, chk.pick(2, 6)) + roots[len(base_roots):][:chk.pick(1, 3)]
        nchips = chk.pick(60, 300) if is_light else chk.pick(150, 600)
        for (rx, ry) in roots:
            if (w, h) not in shapes[:5] and (rx, ry) not in base_roots[:7] and not chk.quick and rng.random() < 0.7:
                continue
            evs = []
            wrap = (w % 12 == 0 and h % 12 == 0)
            chips = [(x, y) for x in range(w) for y in range(h)]
            if len(chips) > nchips:
                chips = rng.sample(chips, nchips)
            for (x, y) in chips:
                try:
                    ex, ey = geometry.spinn5_local_eth_coord(x, y, w, h, rx, ry)
                except Exception as ex_:          # judged by the specification (NoException)
                    evs.append(["raise", "spinn5_local_eth_coord", x, y, type(ex_).__name__])
                    continue
                evs.append(["eth", x, y, int(ex), int(ey)])
                chk.note_case(("eth", x % 12, y % 12, w, h, rx, ry))
                ok, r = _call(evs, "spinn5_chip_coord", x, y, geometry.spinn5_chip_coord, x, y, rx, ry)
                if ok:
                    evs.append(["chip", x, y, int(r[0]), int(r[1])])
                for k in Links:
                    ok, r = _call(evs, "spinn5_fpga_link", x, y, geometry.spinn5_fpga_link, x, y, k, rx, ry)
                    if ok:
                        evs.append(["fpga", x, y, int(k)] + ([0, 0, 0] if r is None else [1, int(r[0]), int(r[1])]))
                chk.note_case(("chip", x, y, rx, ry))
            # the Ethernet list is a generator: on the smaller machines an earlier caller has abandoned one half-way
            # for the same arguments, and two more are alive at once and consumed in turn
            history = w * h <= 1300 or rng.random() < 0.2
            if history:
                n_histories += 1
                ok, g0 = _call(evs, "spinn5_eth_coords", 0, 0, geometry.spinn5_eth_coords, w, h, rx, ry)
                if ok:
                    _call(evs, "spinn5_eth_coords", 0, 0, lambda: [next(g0, None) for _ in range(rng.randint(1, 2))])
            _eths(evs, geometry.spinn5_eth_coords(w, h, rx, ry))
            chk.note_case(("eths", w, h, rx, ry))
            if history:
                ok, r = _call(evs, "spinn5_eth_coords", 0, 0, lambda: (geometry.spinn5_eth_coords(w, h, rx, ry),
                                                                        geometry.spinn5_eth_coords(w, h, rx, ry)))
                if ok:
                    ga, gb = iter(r[0]), iter(r[1])
                    la, lb = [], []
                    live = [(ga, la), (gb, lb)]

                    def turns():
                        while live:
                            g, out = live[rng.randrange(len(live))]
                            item = next(g, None)
                            if item is None:
                                live.remove((g, out))
                            else:
                                out.append(item)
                    if _call(evs, "spinn5_eth_coords", 0, 0, turns)[0]:
                        _eths(evs, la)
                        _eths(evs, lb)
            # one whole board (the one whose Ethernet chip is at the root offset), every chip and link
            _board(evs, rx, ry, rx, ry)
            # ... and one of the other boards of the machine (each of the three boards of a 12 x 12 cell, cells
            # anywhere; on a whole torus the chips beyond the far edge are named by their wrapped coordinates)
            dx, dy = rng.choice(((0, 0), (4, 8), (8, 4)))
            ox = rx % 12 + dx + 12 * rng.randrange((w + 11) // 12)
            oy = ry % 12 + dy + 12 * rng.randrange((h + 11) // 12)
            _board(evs, ox, oy, rx, ry, (w, h) if wrap and rng.random() < 0.7 else None)
            traces.append(dict(w=w, h=h, rx=rx, ry=ry, ev=evs))

    # Short sessions in which the caller does what the loop above never does: one chip asked about under two or three
    # root chips (differing in x only, in y only, or in both) one straight after the other, the functions in any order, the root chip left to its default (0, 0) or
    # given by keyword.
    n_pairs = chk.pick(60, 400)
    for _ in range(n_pairs):
        w, h = rng.choice(shapes + light)
        x, y = rng.randrange(w), rng.randrange(h)
        pair = [(0, 0) if rng.random() < 0.4 else (rng.randrange(w), rng.randrange(h))]
        for _k in range(rng.randint(1, 2)):
            # the next root chip differs from the last in x only, in y only, or in both
            kind = rng.choice("xyb")
            px, py = pair[-1]
            qx = px if kind == "y" else (px + rng.randint(1, 11)) % max(w, 12)
            qy = py if kind == "x" else (py + rng.randint(1, 11)) % max(h, 12)
            if (qx % 12, qy % 12) != (px % 12, py % 12):
                pair.append((qx, qy))
        if rng.random() < 0.5:
            pair.reverse()
        for (rx, ry) in pair:
            evs = []
            ops = ["eth", "chip", "eths"] + ["fpga%d" % int(k) for k in rng.sample(list(Links), rng.randint(1, 6))]
            rng.shuffle(ops)
            for op in ops[:rng.randint(2, len(ops))]:
                style = rng.choice(("pos", "kw", "default") if (rx, ry) == (0, 0) else ("pos", "kw"))
                a, kw = {"pos": ((rx, ry), {}), "kw": ((), dict(root_y=ry, root_x=rx)), "default": ((), {})}[style]
                if op == "eth":
                    ok, r = _call(evs, "spinn5_local_eth_coord", x, y, geometry.spinn5_local_eth_coord,
                                  x, y, w, h, *a, **kw)
                    if ok:
                        evs.append(["eth", x, y, int(r[0]), int(r[1])])
                elif op == "chip":
                    ok, r = _call(evs, "spinn5_chip_coord", x, y, geometry.spinn5_chip_coord, x, y, *a, **kw)
                    if ok:
                        evs.append(["chip", x, y, int(r[0]), int(r[1])])
                elif op == "eths":
                    if w * h <= 1300:
                        ok, g = _call(evs, "spinn5_eth_coords", 0, 0, geometry.spinn5_eth_coords, w, h, *a, **kw)
                        if ok:
                            _eths(evs, g)
                else:
                    k = Links(int(op[4:]))
                    ok, r = _call(evs, "spinn5_fpga_link", x, y, geometry.spinn5_fpga_link, x, y, k, *a, **kw)
                    if ok:
                        evs.append(["fpga", x, y, int(k)] + ([0, 0, 0] if r is None else [1, int(r[0]), int(r[1])]))
                chk.note_case(("session", op, style, x, y, w, h, rx, ry))
            if evs:
                traces.append(dict(w=w, h=h, rx=rx, ry=ry, ev=evs))
    # standard system dimensions: every count below 400; every multiple of three up to the largest machine built
    # (1200 boards, 240 x 240) and a little beyond; further out, the counts where the squarest pair is hardest to
    # find (squares, near-squares, twice and three times a prime) and counts that are not multiples of three
    evs = []
    top = chk.pick(400, 1500)
    counts = list(range(0, top)) + list(range(3 * ((top + 2) // 3), chk.pick(1300, 3000), 3))
    far = [3 * k * k for k in range(20, 32)] + [3 * k * (k + 1) for k in range(20, 31)] + \
          [3 * 2 * p for p in (211, 307, 401, 499)] + [3 * 3 * p for p in (149, 211, 331)] + [3 * 997, 3 * 23 * 29]
    far += [3 * rng.randrange(430, 1000) for _ in range(20)]
    far += [rng.randrange(top, 3000) for _ in range(30)]
    for n in counts + [n for n in far if n not in set(counts)]:
        try:
            dw, dh = geometry.standard_system_dimensions(n)
            evs.append(["dims", n, 1, int(dw), int(dh)])
        except ValueError:
            evs.append(["dims", n, 0, 0, 0])
        except Exception as ex_:
            evs.append(["raise", "standard_system_dimensions", n, 0, type(ex_).__name__])
        chk.note_case(("dims", n), nontrivial=(n % 3 == 0))
    for i in range(0, len(evs), 100):
        traces.append(dict(w=1, h=1, rx=0, ry=0, ev=evs[i:i + 100]))

    chk.rule = ("machine shapes %d (multiples of 12, ragged, and one dimension of each; %d of them with fewer roots and "
                "chips, some drawn per seed) x root offsets up to %d; per machine up to %d chips x {local eth, chip coord, "
                "six FPGA links}, the Ethernet list (on %d machines also after an abandoned generator and from two "
                "generators consumed in turn), the FPGA map of the root's board and of one other board; %d groups of "
                "short sessions about one chip under two or three root chips (differing in x, in y or in both), functions in any order, root by position / keyword "
                "/ default; board counts 0..%d, every multiple of three to %d, hard and random counts to 3000; "
                "non-trivial = every case except board counts that are not multiples of three" %
                (len(shapes + light), len(light), len(base_roots) + chk.pick(3, 7), chk.pick(150, 600), n_histories,
                 n_pairs, top - 1, chk.pick(1300, 3000)))
    chk.exhaustive = False
    for t in traces[:1] + traces[-1:]:
        chk.sample(dict(w=t["w"], h=t["h"], rx=t["rx"], ry=t["ry"], ev=t["ev"][:4] + t["ev"][-2:]))
    chk.assumptions.append("on machines whose width or height is not a multiple of 12 the local Ethernet chip is "
                           "judged only when the board's Ethernet chip lies inside the machine (elsewhere the torus does "
                           "not close on board edges and the tiling does not define the answer)")

    def key_of(tr, i, clauses):
        e = tr["ev"][i - 1]
        return "%s %s w=%s h=%s root=(%s,%s) %s" % (e[0], ",".join(clauses), tr["w"], tr["h"], tr["rx"], tr["ry"],
                                                    e[1:4] if e[0] not in ("board", "eths") else "")

    chk.validate("Spinn5Trace", "Spinn5Trace.cfg", traces, key_of=key_of, batch=400)
    # beyond the property: the wizard protocol (rig.wizard uses standard_system_dimensions), its command-line
    # front-end and unbooted_ping.listen, judged against Wizard.tla
    from . import wizard
    wizard.run_beyond(chk)


def selftest(chk):
    good = [["eth", 5, 0, 8, 4], ["chip", 5, 0, 1, 8 - 0 - 4 + 0]]
    cases = [
        (dict(w=12, h=12, rx=0, ry=0, ev=[["eth", 5, 0, 4, 8], ["chip", 5, 0, 1, 4], ["chip", 4, 0, 4, 0], ["fpga", 4, 0, 0, 1, 0, 6],
                                        ["fpga", 3, 0, 0, 0, 0, 0], ["dims", 24, 1, 48, 24], ["dims", 4, 0, 0, 0]]), None),
        (dict(w=12, h=12, rx=0, ry=0, ev=[["eth", 5, 0, 0, 0]]), "EthIsBoardOrigin"),
        (dict(w=12, h=12, rx=0, ry=0, ev=[["chip", 4, 0, 0, 4]]), "ChipIsOffset"),
        (dict(w=12, h=12, rx=0, ry=0, ev=[["fpga", 3, 0, 0, 1, 0, 6]]), "FpgaIffLeaves"),
        (dict(w=12, h=12, rx=0, ry=0, ev=[["eths", [[0, 0], [4, 8]]]]), "EthsExact"),
        (dict(w=12, h=12, rx=0, ry=0, ev=[["dims", 24, 1, 96, 12]]), "DimsSquarest"),
    ]
    rej = chk.validate("Spinn5Trace", "Spinn5Trace.cfg", [c[0] for c in cases])
    got = {id(t): cl for t, _, cl in rej}
    msgs = []
    for tr, want in cases:
        cl = got.get(id(tr))
        if (want is None) != (cl is None) or (want and want not in cl):
            msgs.append("expected %s, got %s" % (want, cl))
    return not msgs, "; ".join(msgs) or "%d corrupted traces rejected with the expected clauses" % (len(cases) - 1)
