"""The application life cycle (beyond the listed properties): Lifecycle.tla / LifecycleDesign.tla / LifecycleTrace.tla,
hosted by the C09 check (loading an application is the middle of it).

D: LifecycleDesign.tla - probe, plan, enter the application block, allocate / load tables / load / start / release the
   barrier in any order the calls allow, the cores' own progress in between, the block left at any point; invariants
   OnlyFreeResourcesUsed, Isolation, NoLeak, Releases; three wrong designs must be refuted.
T: random life cycles through the REAL MachineController against the simulated machine (env/spinnaker_sim.py): a faulty
   machine on which a foreign application already holds cores, SDRAM blocks (with contents), router positions and
   entries is probed with get_system_info; place_and_route_wrapper plans a small generated graph on the probe; inside
   `with mc.application(app):` sdram_alloc_for_vertices, load_routing_tables, load_application(wait=True), counting and
   waiting, the start and sync0 signals, the application's own progress (environment events), reading the results back
   through the memory views; the block is left normally or by an exception raised at a random point.  Every call is
   one event (arguments, outcome, the commands the machine executed, the machine's state afterwards) exactly as
   session.py records it; LifecycleTrace.tla (which extends SessionTrace / GlueTrace) judges.

No oracle here: the driver looks at the simulator only to CHOOSE what happens next (which core moves on) and to copy
fields; whether anything is right is decided by TLC from the .tla text.
"""
import copy
import random
import struct

from rig.netlist import Net
from rig.place_and_route import Cores, SDRAM, place_and_route_wrapper
from rig.machine_control import scp_connection, machine_controller
from rig.machine_control.machine_controller import MachineController
from rig.machine_control.utils import sdram_alloc_for_vertices

from ..env.spinnaker_sim import (SimMachine, SDRAM_BASE, LINK_VEC, STATE_RUN, STATE_WAIT, STATE_SYNC0,
                                 STATE_PAUSE, STATE_EXIT)
from ..env.simnet import SimNet
from . import c01
from .session import halves, project, cmd_records, route_word, Workdir, STRUCT_TEXT

STATE_RTE = 2
FOREIGN = 20
APPS = (30, 66, 16)


class Injected(Exception):
    """the exception the driver raises inside the application block"""


# ---------------------------------------------------------------------------------------------- the machine
def make_machine(rng):
    w, h = rng.choice(((2, 1), (2, 2), (2, 2), (3, 2), (3, 3)))
    all_chips = [(x, y) for x in range(w) for y in range(h)]
    dead_chips = set()
    if w * h > 2 and rng.random() < 0.35:
        dead_chips.add(rng.choice(all_chips[1:]))
    dead_links = set()
    for _ in range(rng.choice((0, 0, 1, 2))):
        x, y = rng.choice(all_chips)
        l = rng.randrange(6)
        dx, dy = LINK_VEC[l]
        dead_links.add((x, y, l))
        dead_links.add(((x + dx) % w, (y + dy) % h, (l + 3) % 6))
    ncores = {xy: rng.choice((18, 18, 8, 5, 4, 3)) for xy in all_chips}
    heap = rng.choice((96, 256, 1024))
    sim = SimMachine(w, h, STRUCT_TEXT, dead_chips=dead_chips, dead_links=dead_links, ncores=ncores)
    for c in sim.chips.values():
        c.sdram_next, c.sdram_limit = SDRAM_BASE, SDRAM_BASE + heap
    return sim, heap


def plant_foreign(rng, sim):
    """another application is already there: cores, blocks with contents, router positions and entries, an IP tag"""
    # (rarely: one router almost full - a thousand positions make the recorded states large)
    big_chip = rng.choice(sorted(sim.chips)) if rng.random() < 0.03 else None
    for xy in sorted(sim.chips):
        c = sim.chips[xy]
        if rng.random() < 0.6:
            for p in rng.sample(range(1, c.ncores), min(rng.randint(1, 2), c.ncores - 1)):
                c.core_state[p], c.core_app[p] = rng.choice((STATE_RUN, STATE_RUN, STATE_SYNC0, STATE_PAUSE, STATE_EXIT,
                                                             STATE_RTE, STATE_WAIT)), FOREIGN
                sim._sync_core(c, p)
        if rng.random() < 0.6:
            tags = rng.sample((0, 1, 2, 3, 7), rng.randint(1, 2))
            for tag in tags:
                size = rng.choice((4, 10, 16, 24))
                ptr = c.sdram_next
                if ptr + ((size + 3) & ~3) > c.sdram_limit:
                    break
                c.sdram_next += ((size + 3) & ~3) + 8
                c.sdram_allocs[ptr] = (size, tag, FOREIGN)
                if tag:
                    c.write(c.alloc_tag + ((FOREIGN << 8) + tag) * 4, struct.pack("<I", ptr))
                c.write(ptr, bytes(bytearray(rng.randrange(256) for _ in range(size))))
        if rng.random() < 0.6 or xy == big_chip:
            first = rng.choice((1, 1, 2, 5))
            k = rng.choice((1, 2, 3, 4))
            if xy == big_chip:
                first, k = 1, rng.choice((1000, 1015))
            held = list(range(first, first + k))
            for pos in held:
                c.rtr_owner[pos] = FOREIGN
            used = held if k > 4 and rng.random() < 0.5 else rng.sample(held, rng.randint(0, min(k, 4)))
            for pos in used:
                c.rtr[pos] = (0xf0000000 | pos, 0xffffffff, 1 << rng.randrange(24), FOREIGN)
            sim._sync_router(c, used)
        if rng.random() < 0.2:
            c.iptags[rng.choice((1, 2))] = (17893, 0x0a000001)


def foreign_memory(sim):
    return [[x, y, ptr - SDRAM_BASE, list(bytearray(c.read(ptr, size)))]
            for (x, y), c in sorted(sim.chips.items()) for ptr, (size, tag, app) in sorted(c.sdram_allocs.items())
            if app == FOREIGN]


# ---------------------------------------------------------------------------------------------- the graph
def make_graph(rng, wd, k):
    nv = rng.randint(1, 6)
    vids = list(range(1, nv + 1))
    verts = {}
    for v in vids:
        res = {Cores: 2 if rng.random() < 0.1 else 1}
        if rng.random() < 0.85:
            res[SDRAM] = rng.choice((8, 10, 12, 20, 32, 64))
        verts["v%d" % v] = res
    names = sorted(verts)
    nets, keys = [], {}
    for i in range(rng.randint(0, 4)):
        n = Net(rng.choice(names), rng.sample(names, rng.randint(1, len(names))))
        nets.append(n)
        keys[n] = (0x00010000 + i, 0xffffffff)
    binaries = []
    for b in range(rng.randint(1, 2)):
        data = bytes(bytearray([b + 1, 0, 0, 0] + [rng.randrange(256) for _ in range(4 * rng.choice((1, 3, 63, 64)))]))
        binaries.append(wd.write(data, "life-%d-%d" % (k, b)))
    apps = {v: rng.choice(binaries) for v in names}
    return verts, apps, nets, keys, binaries


def enc_entry(e):
    return halves(e.key) + halves(e.mask) + halves(route_word(e.route))


# ---------------------------------------------------------------------------------------------- one life cycle
class Life(object):
    def __init__(self, rng, wd, k):
        self.rng, self.wd, self.k = rng, wd, k
        self.sim, self.heap = make_machine(rng)
        plant_foreign(rng, self.sim)
        self.app = rng.choice(APPS)
        self.ev = []
        self.views = {}
        self.mark = 0

    # ---- recording
    def since(self):
        recs = cmd_records(self.sim.log[self.mark:])
        self.mark = len(self.sim.log)
        return recs

    def call(self, f):
        """run f; its mechanically encoded outcome, or the exception as an outcome (and the exception itself)"""
        try:
            return f(), None
        except Exception as ex:                  # judged by the specification
            return ["raise", type(ex).__name__], ex

    def api(self, name, a, f, extra=None):
        self.mark = len(self.sim.log)
        outcome, ex = self.call(f)
        e = ["api", name, a, outcome, self.since(), project(self.sim)]
        if extra is not None:
            e.append(extra())
        self.ev.append(e)
        if ex is not None:
            self.throw(ex)

    def throw(self, ex):
        """an exception goes up inside the application block"""
        self.inside = ex
        raise ex

    def our_cores(self, state=None):
        return [(xy, p) for xy, c in sorted(self.sim.chips.items()) for p in range(1, c.ncores)
                if c.core_app[p] == self.app and (state is None or c.core_state[p] == state)]

    def env_move(self, xy, p, state):
        c = self.sim.chips[xy]
        c.core_state[p] = state
        self.sim._sync_core(c, p)
        self.ev.append(["env", xy[0], xy[1], p, state, project(self.sim)])

    def block_of(self, xy, p):
        """the block a core finds under its own number as the tag (what sark_tag_ptr does on the machine)"""
        c = self.sim.chips[xy]
        for ptr, (size, tag, app) in sorted(c.sdram_allocs.items()):
            if tag == p and app == self.app:
                return ptr, size
        return None

    # ---- the steps inside the block
    def step_vsdram(self):
        mc, rng = self.mc, self.rng
        core_as_tag = rng.random() < 0.85
        clear = rng.random() < 0.5
        rows = []
        for v in sorted(self.al):
            x, y = self.pl[v]
            sd, cr = self.al[v].get(SDRAM), self.al[v].get(Cores)
            rows.append([int(v[1:]), int(x), int(y), [] if sd is None else [int(sd.start), int(sd.stop)],
                         [] if cr is None else [int(cr.start), int(cr.stop)]])
        self.mark = len(self.sim.log)
        got = {}

        def f():
            got.update(sdram_alloc_for_vertices(mc, self.pl, self.al, core_as_tag=core_as_tag, clear=clear))
            return ["ok", [[int(v[1:]), int(m.address) - SDRAM_BASE, len(m)] for v, m in sorted(got.items())]]
        outcome, ex = self.call(f)
        a = dict(app=self.app, core_as_tag=int(core_as_tag), clear=int(clear), verts=rows)
        self.ev.append(["vsdram", a, outcome, self.since(), project(self.sim)])
        if ex is not None:
            self.throw(ex)
        for v, m in got.items():
            x, y = self.pl[v]
            self.views[v] = (m, [int(v[1:]), int(x), int(y), int(m.address) - SDRAM_BASE, len(m)])

    def step_tables(self):
        tabs = self.tabs
        a = dict(app=self.app, tables=[[x, y, [enc_entry(e) for e in t]] for (x, y), t in sorted(tabs.items())])
        self.api("load_tables", a, lambda: (self.mc.load_routing_tables(tabs), ["ok"])[1])

    def step_load(self):
        amap = self.amap
        tg, images = {}, []
        for path, chips in sorted(amap.items()):
            for (x, y), cores in sorted(chips.items()):
                tg.setdefault((x, y), set()).update(cores)
                images += [[x, y, int(p), self.bin_id[path]] for p in sorted(cores)]
        a = dict(app=self.app, wait=1, targets=[[x, y, sorted(int(p) for p in ps)] for (x, y), ps in sorted(tg.items())],
                 images=sorted(images))

        def running():
            out = []
            for (xy, p) in self.our_cores():
                img = self.sim.chips[xy].core_image[p]
                out.append([xy[0], xy[1], p, -1 if not img else bytearray(img)[0]])
            return sorted(out)
        self.api("load_app", a, lambda: (self.mc.load_application(amap, wait=True), ["ok"])[1], extra=running)

    def step_hostwrite(self):
        for v in sorted(self.views):
            if self.rng.random() < 0.6:
                m, view = self.views[v]
                pos = self.rng.randrange(0, view[4])
                data = [self.rng.randrange(256) for _ in range(self.rng.randint(1, view[4] - pos))]
                self.mark = len(self.sim.log)

                def f():
                    m.seek(pos)
                    return ["ok", int(m.write(bytes(bytearray(data))))]
                outcome, ex = self.call(f)
                self.ev.append(["hostwrite", view, pos, data, outcome, self.since(), project(self.sim)])
                if ex is not None:
                    self.throw(ex)

    def step_coreread(self):
        for (xy, p) in self.our_cores():
            blk = self.block_of(xy, p)
            if blk and self.rng.random() < 0.7:
                self.ev.append(["coreread", xy[0], xy[1], p, blk[0] - SDRAM_BASE,
                                list(bytearray(self.sim.chips[xy].read(blk[0], blk[1])))])

    def step_count(self, state):
        a = dict(states=[state], app=self.app, single=1, as_enum=0)
        self.api("count", a, lambda: ["ok", int(self.mc.count_cores_in_state(state))])

    def step_wait(self, state, count):
        poll, timeout = self.rng.choice((100, 50)), self.rng.choice((0, 100, 300))
        a = dict(state=state, count=count, app=self.app, poll=poll, timeout=timeout)
        self.api("wait", a, lambda: ["ok", int(self.mc.wait_for_cores_to_reach_state(
            state, count, poll_interval=poll / 1000.0, timeout=timeout / 1000.0))])

    def step_signal(self, name):
        a = dict(sig=name, app=self.app, as_enum=0)
        self.api("send_signal", a, lambda: (self.mc.send_signal(name), ["ok"])[1])

    def step_progress(self, to_barrier):
        """the application moves on by itself: running cores reach the barrier / write results and exit / fail"""
        rng = self.rng
        for (xy, p) in self.our_cores(STATE_RUN):
            r = rng.random()
            if to_barrier:
                if r < 0.75:
                    self.env_move(xy, p, STATE_SYNC0)
                elif r < 0.85:
                    self.env_move(xy, p, STATE_RTE)
                continue
            blk = self.block_of(xy, p)
            if blk and r < 0.9:
                data = bytes(bytearray(rng.randrange(256) for _ in range(blk[1])))
                self.sim.chips[xy].write(blk[0], data)
                self.ev.append(["corewrite", xy[0], xy[1], p, blk[0] - SDRAM_BASE, list(bytearray(data)), project(self.sim)])
            if r < 0.8:
                self.env_move(xy, p, STATE_EXIT)
            elif r < 0.9:
                self.env_move(xy, p, STATE_RTE)

    def step_readback(self):
        for v in sorted(self.views):
            m, view = self.views[v]
            self.mark = len(self.sim.log)

            def f():
                m.seek(0)
                return ["ok", list(bytearray(m.read()))]
            outcome, ex = self.call(f)
            self.ev.append(["readback", view, outcome, self.since(), project(self.sim)])
            if ex is not None:
                self.throw(ex)

    # ---- the whole thing
    def run(self):
        rng, sim = self.rng, self.sim
        init = project(sim)
        fmem = foreign_memory(sim)
        verts, apps, nets, keys, binaries = make_graph(rng, self.wd, self.k)
        self.bin_id = {path: i + 1 for i, path in enumerate(binaries)}
        net = SimNet(sim)
        net.install(scp_connection, machine_controller)
        try:
            mc = self.mc = MachineController("sim")
            self.mark = len(sim.log)
            got = {}

            def probe():
                got["si"] = mc.get_system_info()
                return ["ok", [[x, y, int(ci.num_cores), [int(s) for s in ci.core_states],
                                sorted(int(l) for l in ci.working_links), int(ci.largest_free_sdram_block),
                                int(ci.largest_free_sram_block), int(ci.largest_free_rtr_mc_block)]
                               for (x, y), ci in sorted(got["si"].items())]]
            outcome, ex = self.call(probe)
            self.ev.append(["probe", outcome, self.since(), project(sim)])
            if ex is None:
                self.plan_and_run(got["si"], verts, apps, nets, keys)
        finally:
            net.uninstall()
        self.ev.append(["final", foreign_memory(sim)])
        return dict(chips=[[x, y, sim.chips[(x, y)].ncores] for (x, y) in sorted(sim.chips)], heap=self.heap, strict_tag=0,
                    links=[[x, y, sorted(c.links)] for (x, y), c in sorted(sim.chips.items())], app=self.app,
                    foreign=FOREIGN, init=init, fmem=fmem, ev=self.ev, label="life cycle %d" % self.k)

    def plan_and_run(self, si, verts, apps, nets, keys):
        rng, mc, sim = self.rng, self.mc, self.sim
        pname, pk = c01.PLACERS[self.k % len(c01.PLACERS)]
        prob = dict(verts=[[int(v[1:]), verts[v][Cores], verts[v].get(SDRAM, -1), self.bin_id[apps[v]]] for v in sorted(verts)],
                    nets=[[int(n.source[1:]), sorted(int(s[1:]) for s in n.sinks)] + halves(keys[n][0]) + halves(keys[n][1])
                          for n in nets], placer=pname)

        def par():
            saved = random.getstate()            # (some placers draw from the global generator)
            random.seed(self.k * 7919 + 1)
            try:
                self.pl, self.al, self.amap, self.tabs = place_and_route_wrapper(verts, apps, nets, keys, si,
                                                                                 **pk(self.k * 7919 + 1))
            finally:
                random.setstate(saved)
            return ["ok", [[int(v[1:]), int(x), int(y)] for v, (x, y) in sorted(self.pl.items())],
                    [[int(v[1:]), [int(al[Cores].start), int(al[Cores].stop)],
                      [int(al[SDRAM].start), int(al[SDRAM].stop)] if SDRAM in al else []] for v, al in sorted(self.al.items())],
                    [[self.bin_id[path], x, y, sorted(int(p) for p in cores)] for path, chips in sorted(self.amap.items())
                     for (x, y), cores in sorted(chips.items())],
                    [[x, y, [enc_entry(e) for e in t]] for (x, y), t in sorted(self.tabs.items())]]
        outcome, ex = self.call(par)
        self.ev.append(["par", prob, outcome])
        if ex is not None:
            return
        ncores = sum(len(cores) for chips in self.amap.values() for cores in chips.values())
        setup = ["vsdram", "tables", "load"]
        rng.shuffle(setup)
        setup.insert(setup.index("vsdram") + 1 + rng.randrange(len(setup) - setup.index("vsdram")), "hostwrite")
        script = setup + ["wait_wait", "coreread", "start", "progress1", "wait_sync0", "sync0", "progress2", "wait_exit",
                          "count_rte", "readback"]
        inject_at = rng.randrange(len(script) + 1) if rng.random() < 0.4 else -1
        self.inside = None
        self.mark = len(sim.log)
        try:
            with mc.application(self.app):
                self.ev.append(["enter", self.app, self.since()])
                for i, step in enumerate(script + ["end"]):
                    if i == inject_at:
                        self.throw(Injected("raised inside the application block before step %d (%s)" % (i, step)))
                    if step == "vsdram":
                        self.step_vsdram()
                    elif step == "tables":
                        self.step_tables()
                    elif step == "load":
                        self.step_load()
                    elif step == "hostwrite":
                        self.step_hostwrite()
                    elif step == "wait_wait":
                        if rng.random() < 0.5:
                            self.step_count("wait")
                        self.step_wait("wait", ncores)
                    elif step == "coreread":
                        self.step_coreread()
                    elif step == "start":
                        self.step_signal("start")
                    elif step == "progress1":
                        self.step_progress(True)
                    elif step == "wait_sync0":
                        self.step_wait("sync0", ncores - rng.choice((0, 0, 1)))
                    elif step == "sync0":
                        self.step_signal("sync0")
                    elif step == "progress2":
                        self.step_progress(False)
                    elif step == "wait_exit":
                        self.step_wait("exit", ncores)
                    elif step == "count_rte":
                        self.step_count("runtime_exception")
                    elif step == "readback":
                        self.step_readback()
                self.mark = len(sim.log)
            # the block was left without an exception coming out of it
            outcome = ["ok"] if self.inside is None else ["swallowed", type(self.inside).__name__]
        except Exception as ex:
            # the block was left by an exception: the one raised inside it must be the one that comes out
            outcome = ["ok"] if ex is self.inside else ["raise", type(ex).__name__]
        self.ev.append(["api", "app_exit", dict(app=self.app, exc=int(self.inside is not None)), outcome, self.since(),
                        project(sim)])


def one_lifecycle(rng, wd, k):
    return Life(rng, wd, k).run()


# ---------------------------------------------------------------------------------------------- jobs
WRONG = (("LifecycleDesign_wrong_stopcoresonly.cfg", "NoLeak"),
         ("LifecycleDesign_wrong_entrieswithoutapp.cfg", "NoLeak"),
         ("LifecycleDesign_wrong_planignoresprobe.cfg", "OnlyFree"))


def design_jobs(chk):
    from ..core import MachineryError
    chk.design("LifecycleDesign", "LifecycleDesign_quick.cfg" if chk.quick else "LifecycleDesign_thorough.cfg",
               label="beyond the property: application life cycle", timeout=3600)
    for cfg, what in WRONG:
        r = chk.design("LifecycleDesign", cfg, allow_error=True,
                       label="beyond the property: wrong life-cycle design (must fail)", timeout=3600)
        if r.ok or ("Invariant %s is violated" % what) not in (r.error or ""):
            raise MachineryError("%s should violate %s: %s" % (cfg, what, (r.error or "no error")[:300]))
        chk.jobs[-1].update(expected_violation=what, error="Invariant %s is violated (as it must be)" % what)


def run_beyond(chk):
    """called by the hosting check (C09): design jobs + trace validation, reported under beyond_the_property"""
    design_jobs(chk)
    rng = random.Random(chk.seed + 9090)
    wd = Workdir(chk.tmp)
    traces = [one_lifecycle(rng, wd, k) for k in range(chk.pick(40, 400))]
    for t in traces:
        kinds = {(e[0], e[1]) if e[0] == "api" else (e[0],) for e in t["ev"]}
        last = [e for e in t["ev"] if e[0] == "api" and e[1] == "app_exit"]
        chk.count("life cycles: " + ("planning failed as documented" if not last else
                                     "block left by an exception" if last[0][2]["exc"] else "block left normally"))
        if ("readback",) in kinds:
            chk.count("life cycles that read results back")
    return chk.validate_beyond("LifecycleTrace", "LifecycleTrace.cfg", traces,
                               "application life cycle: probe -> place and route -> application block (allocate, load "
                               "tables, load, start, barrier, exit, read back) -> stop, next to a foreign application",
                               batch=200)


# ---------------------------------------------------------------------------------------------- self-test
def _complete(t, exc):
    kinds = [(e[0], e[1]) if e[0] == "api" else (e[0],) for e in t["ev"]]
    need = [("probe",), ("par",), ("enter",), ("vsdram",), ("api", "load_tables"), ("api", "load_app"), ("api", "wait"),
            ("api", "send_signal"), ("api", "app_exit")]
    if not exc:
        need += [("hostwrite",), ("coreread",), ("corewrite",), ("readback",), ("api", "count")]
    ex = [e for e in t["ev"] if e[0] == "api" and e[1] == "app_exit"]
    return all(k in kinds for k in need) and ex[0][2]["exc"] == exc and t["init"]["core"] and t["init"]["alloc"] \
        and len(json_size(t)) < 60000


def json_size(t):
    import json
    return json.dumps(t, separators=(",", ":"))


def selftest(chk):
    """Binding demonstration: corrupted fields, dropped and swapped events of good life cycles must be rejected by the
    expected clauses (and the good ones accepted)."""
    rng = random.Random(11)
    wd = Workdir(chk.tmp)
    good = bad_end = None
    for k in range(400):
        t = one_lifecycle(rng, wd, k)
        if good is None and _complete(t, 0):
            good = t
        elif bad_end is None and _complete(t, 1):
            bad_end = t
        if good and bad_end:
            break
    else:
        return False, "no complete life cycle generated for the self-test"

    def at(t, kind, name=None, pred=lambda e: True, nth=0):
        hits = [i for i, e in enumerate(t["ev"]) if e[0] == kind and (name is None or e[1] == name) and pred(e)]
        return hits[nth]

    def mut(f, base=None):
        t = copy.deepcopy(base or good)
        f(t, t["ev"])
        return t

    def busy_probe(t, ev):
        chip = next(c for c in ev[0][1][1] if any(s != 15 for s in c[3][1:]))
        chip[3][next(i for i, s in enumerate(chip[3]) if i and s != 15)] = 15

    def to_monitor(t, ev):
        ev[at(t, "par")][2][2][0][1] = [0, 1]

    def exit_without_stop(t, ev):
        i = at(t, "api", "app_exit")
        ev[i][4] = []
        ev[i][5] = copy.deepcopy(ev[i - 1][-1] if isinstance(ev[i - 1][-1], dict) else ev[i][5])

    def leave_core_waiting(t, ev):
        i = at(t, "api", "send_signal", lambda e: e[2]["sig"] == "start")
        c = next(c for c in ev[i][5]["core"] if c[4] == t["app"])
        c[3] = 5

    def touch_foreign(t, ev):
        i = at(t, "api", "load_app")
        c = next(c for c in ev[i][5]["core"] if c[4] == FOREIGN)
        c[3] = 11 if c[3] != 11 else 7

    def shift_read(t, ev):
        i = at(t, "readback")
        c = next(c for c in ev[i][3] if c[0] == 2)
        c[4] = [c[4][0], c[4][1] + 4]

    def swap(t, ev, i, j):
        ev[i], ev[j] = ev[j], ev[i]

    def flip_result(t, ev):
        # a block whose contents are known: a core wrote its results over it
        written = {(e[1], e[2], e[4]) for e in ev if e[0] == "corewrite"}
        i = at(t, "readback", pred=lambda e: (e[1][1], e[1][2], e[1][3]) in written)
        ev[i][2][1][0] ^= 1

    try:
        cases = [
            (good, None), (bad_end, None),
            (mut(lambda t, ev: ev[0][1][1][0].__setitem__(7, ev[0][1][1][0][7] + 1)), "ProbeIsMachines"),
            (mut(busy_probe), "ProbeIsMachines"),
            (mut(to_monitor), "PlanOnIdleProbedCores"),
            (mut(lambda t, ev: ev[at(t, "par")][2][4][0][2].extend([[0, 9, 65535, 65535, 0, 1]] * 1024)), "PlanTablesWithinProbe"),
            (mut(lambda t, ev: swap(t, ev, 0, 1)), "PlanAfterProbe"),
            (mut(lambda t, ev: next(c for c in ev[at(t, "vsdram")][3] if c[0] == 28)[4].__setitem__(1, 17 * 256)), "VertexAllocCommands"),
            (mut(lambda t, ev: next(c for c in ev[at(t, "api", "load_tables")][4] if c[0] == 29)[4].__setitem__(1, 2)), "TablesPerChip"),
            (mut(lambda t, ev: ev[at(t, "api", "load_app")][6][0].__setitem__(3, 9)), "EachCoreRunsItsBinary"),
            (mut(lambda t, ev: ev[at(t, "api", "wait")][3].__setitem__(1, 17)), "WaitResult"),
            (mut(lambda t, ev: ev[at(t, "api", "count")][3].__setitem__(1, 17)), "CountIsMachines"),
            (mut(leave_core_waiting), "Releases"),
            (mut(touch_foreign), "Isolation"),
            (mut(lambda t, ev: ev.__delitem__(at(t, "api", "load_tables"))), "OnlyFreeResourcesUsed"),
            (mut(lambda t, ev: ev[at(t, "hostwrite")][4].__setitem__(1, 0)), "HostWriteOutcome"),
            (mut(lambda t, ev: ev[at(t, "coreread")].__setitem__(2, 9)), "CoreReadsItsOwnBlock"),
            (mut(flip_result), "ReadBackIsBlocksContents"),
            (mut(shift_read), "ReadBackOnlyThatBlock"),
            (mut(exit_without_stop), "NoLeak"),
            (mut(exit_without_stop, bad_end), "ExitStops"),
            (mut(lambda t, ev: ev.__delitem__(at(t, "api", "app_exit"))), "BlockWasLeft"),
            (mut(lambda t, ev: ev[-1][1][0][3].__setitem__(0, ev[-1][1][0][3][0] ^ 255)), "ForeignContentsUnchanged"),
            (mut(lambda t, ev: ev[at(t, "api", "app_exit")].__setitem__(3, ["swallowed", "Injected"]), bad_end), "ExitStops"),
        ]
    except (StopIteration, IndexError) as ex:
        return False, "the self-test life cycle lacks something it corrupts (%r)" % (ex,)
    rej = chk.validate("LifecycleTrace", "LifecycleTrace.cfg", [c[0] for c in cases])
    got = {id(t): cl for t, _, cl in rej}
    msgs = []
    for n, (t, want) in enumerate(cases):
        cl = got.get(id(t))
        if (want is None) != (cl is None) or (want and want not in cl):
            msgs.append("case %d: expected %s, got %s" % (n, want, cl))
    return not msgs, "; ".join(msgs) or "%d corrupted life cycles rejected with the expected clauses" % (len(cases) - 2)
