"""C02 - every placer returns a feasible, constraint-respecting placement or fails.

D: PlacementDesign.tla - first-fit (cyclic and advance-only) + annealing swaps at small constants; the
   two-resource variant of the success guarantee is refuted as expected.
T: every placer configuration on generated problems; the returned placement / exception (and snapshots of the
   annealer at temperature changes) are events judged by PlacementTrace.tla.
"""
import random
import signal

from rig.links import Links
from rig.netlist import Net
from rig.place_and_route import Machine, Cores, SDRAM, SRAM
from rig.place_and_route.constraints import (LocationConstraint, SameChipConstraint, ReserveResourceConstraint,
                                             AlignResourceConstraint, RouteEndpointConstraint)
from rig.place_and_route.place import sequential, breadth_first, hilbert, rcm, rand, sa
from rig.place_and_route.place.sa.python_kernel import PythonKernel
from rig.routing_table import Routes

try:
    from rig.place_and_route.place.sa.c_kernel import CKernel
except Exception:       # pragma: no cover
    CKernel = None

RES = [Cores, SDRAM, SRAM]
WATCHDOG_S = 120


class Timeout(Exception):
    pass


def _alarm(signum, frame):
    raise Timeout()


def problem_json(vr, machine, cons, vidx):
    nres = len(machine.chip_resources)
    rlist = [r for r in RES if r in machine.chip_resources]
    ridx = {r: i + 1 for i, r in enumerate(rlist)}
    chips = [[x, y, [machine[(x, y)][r] for r in rlist]] for (x, y) in machine]
    vres = [[res.get(r, 0) for r in rlist] for v, res in vr.items()]
    loc, same, gres, lres = [], [], [], []
    for c in cons:
        if isinstance(c, LocationConstraint):
            loc.append([vidx[c.vertex], c.location[0], c.location[1]])
        elif isinstance(c, SameChipConstraint):
            same.append([vidx[v] for v in c.vertices])
        elif isinstance(c, ReserveResourceConstraint):
            amount = c.reservation.stop - c.reservation.start
            if c.location is None:
                gres.append([ridx[c.resource], amount])
            else:
                lres.append([c.location[0], c.location[1], ridx[c.resource], amount])
    return dict(chips=chips, vres=vres, loc=loc, same=same, gres=gres, lres=lres, w=machine.width, h=machine.height)


def placement_json(pl, vidx, n):
    out = [[] for _ in range(n)]
    extra = 0
    for v, xy in pl.items():
        if v in vidx:
            out[vidx[v] - 1] = [int(xy[0]), int(xy[1])]
        else:
            extra += 1
    if extra:
        out.append([-1, -1])      # a vertex that was never asked for: breaks Len(pl) = number of vertices
    return out


def gen_problem(rng, easy, chk):
    # sizes around powers of two matter to the space-filling-curve placers
    dims = (1, 2, 3, 4, 5, 5) if chk.quick else (1, 2, 3, 4, 5, 6, 7)
    w, h = rng.choice(dims), rng.choice(dims)
    if easy and rng.random() < 0.08:
        w, h = rng.choice(((9, 2), (3, 10), (11, 1), (6, 9), (17, 1)))
    nres = 1 if easy else rng.choice((1, 2, 2, 3))
    resources = {RES[i]: rng.randint(1, 6) for i in range(nres)}
    dead = set()
    for x in range(w):
        for y in range(h):
            if rng.random() < 0.1 and len(dead) < w * h - 1:
                dead.add((x, y))
    exc = {}
    for _ in range(rng.randint(0, 3)):
        xy = (rng.randrange(w), rng.randrange(h))
        # (an entry for a dead chip is what is left when a chip of a discovered machine is marked dead afterwards)
        if xy not in dead or rng.random() < 0.5:
            keys = list(resources)
            rng.shuffle(keys)                  # the order of a dictionary's keys means nothing
            exc[xy] = {r: rng.randint(0, 7) for r in keys}
    m = Machine(w, h, chip_resources=dict(resources), chip_resource_exceptions=exc, dead_chips=dead)
    chips = list(m)
    cons = []
    # reservations that fit on every chip they apply to
    for r in resources:
        if rng.random() < 0.5:
            # (also within the default quantities, which rig checks even when every chip has an exception)
            lo = min([m[xy][r] for xy in chips] + [resources[r]])
            if lo > 0:
                n = rng.randint(1, lo)
                a = rng.randint(0, lo - n)
                cons.append(ReserveResourceConstraint(r, slice(a, a + n)))
    free = {xy: {r: m[xy][r] - sum(c.reservation.stop - c.reservation.start for c in cons
                                   if c.resource == r) for r in resources} for xy in chips}
    for _ in range(rng.randint(0, 2)):
        xy = rng.choice(chips)
        r = rng.choice(list(resources))
        if free[xy][r] > 0:
            n = rng.randint(1, free[xy][r])
            cons.append(ReserveResourceConstraint(r, slice(0, n), xy))
            free[xy][r] -= n
    total = {r: sum(free[xy][r] for xy in chips) for r in resources}
    vr = {}
    if easy:
        r0 = Cores
        fill = rng.choice((0.3, 0.7, 1.0, 1.0))
        nv = int(total[r0] * fill)
        nv = max(0, min(nv, total[r0]))
        # vertices needing nothing come on top of the unit vertices (so the machine can be exactly full AND still
        # have to take them), anywhere in the dictionary's order
        needs = [{r0: 1} if rng.random() < 0.93 else ({r0: 0} if rng.random() < 0.5 else {}) for i in range(nv)]
        needs += [({r0: 0} if rng.random() < 0.5 else {}) for _ in range(rng.choice((0, 0, 1, 2, 4)))]
        rng.shuffle(needs)
        if rng.random() < 0.3:
            needs.sort(key=lambda d: d.get(r0, 0), reverse=True)      # the ones needing nothing last
        for i, d in enumerate(needs):
            vr["v%d" % i] = d
        # located vertices that fit on their chips
        left = {xy: free[xy][r0] for xy in chips}
        for v in list(vr)[:rng.randint(0, 4)]:
            xy = rng.choice(chips)
            need = vr[v].get(r0, 0)
            if left[xy] >= need:
                left[xy] -= need
                cons.append(LocationConstraint(v, xy))
    else:
        nv = rng.randint(0, 14)
        for i in range(nv):
            vr["v%d" % i] = {r: rng.choice((0, 0, 1, 1, 2, 3)) for r in resources if rng.random() < 0.85}
        names = list(vr)
        located = set()
        for _ in range(rng.randint(0, 3)):
            if names:
                v = rng.choice(names)
                if v not in located:
                    located.add(v)
                    cons.append(LocationConstraint(v, rng.choice(chips)))
        for _ in range(rng.randint(0, 3)):
            if names:
                grp = [rng.choice(names) for _ in range(rng.randint(1, 4))]     # duplicates, chains
                # at most one located member per group keeps the constraint set consistent
                if sum(1 for v in set(grp) if v in located) <= 1:
                    cons.append(SameChipConstraint(grp))
        # keep same-chip groups with located members consistent across chains: drop location constraints of
        # vertices that are (transitively) grouped with another located vertex
        cons = _consistent(cons)
        if rng.random() < 0.3 and names:
            cons.append(RouteEndpointConstraint(rng.choice(names), Routes.north))
        if rng.random() < 0.2:
            cons.append(AlignResourceConstraint(rng.choice(list(resources)), 2))
    names = list(vr)
    nets = []
    for _ in range(rng.randint(0, 2 * len(names) + 1) if names else 0):
        nets.append(Net(rng.choice(names), [rng.choice(names) for _ in range(rng.randint(1, 4))],
                        rng.choice((1, 1, 0, 2.5))))
    rng.shuffle(cons)
    return vr, nets, m, cons


def gen_order_problem(rng):
    """two or three resources of very different sizes, most chips described by an exception whose dictionary lists
    the resources in another order than the machine's defaults, and a load close to capacity: whoever confuses
    positions with names overfills a chip"""
    w, h = rng.choice(((1, 1), (2, 1), (2, 2), (3, 2)))
    names = RES[:rng.choice((2, 2, 3))]
    big = {r: rng.choice((2, 3, 5)) * (10 ** k) for k, r in enumerate(names)}       # e.g. 3 cores, 50 of the next ...
    order = list(names)
    rng.shuffle(order)
    resources = {r: big[r] for r in order}
    exc = {}
    for x in range(w):
        for y in range(h):
            if rng.random() < 0.7:
                keys = list(names)
                rng.shuffle(keys)
                exc[(x, y)] = {r: max(1, big[r] - rng.choice((0, 0, 1))) for r in keys}
    m = Machine(w, h, chip_resources=resources, chip_resource_exceptions=exc)
    vr = {}
    total = {r: sum(m[xy][r] for xy in m) for r in names}
    used = {r: 0 for r in names}
    for i in range(40):
        keys = list(names)
        rng.shuffle(keys)
        need = {r: rng.randint(0, max(1, big[r] // 2)) for r in keys}
        if any(used[r] + need[r] > 0.8 * total[r] for r in names):
            break
        for r in names:
            used[r] += need[r]
        vr["v%d" % i] = need
    nets = [Net(rng.choice(list(vr)), [rng.choice(list(vr))]) for _ in range(len(vr))] if vr else []
    return vr, nets, m, []


def _consistent(cons):
    """drop location constraints that would pin one (transitive) same-chip group to two chips"""
    parent = {}

    def find(a):
        while parent.get(a, a) != a:
            a = parent[a]
        return a
    for c in cons:
        if isinstance(c, SameChipConstraint):
            vs = list(c.vertices)
            for v in vs[1:]:
                parent[find(v)] = find(vs[0])
    seen = {}
    out = []
    for c in cons:
        if isinstance(c, LocationConstraint):
            g = find(c.vertex)
            if g in seen and seen[g] != c.location:
                continue
            seen[g] = c.location
        out.append(c)
    return out


def placers(rng, vr, m, seedbase):
    names = list(vr)
    order = names[:]
    rng.shuffle(order)
    corder = list(m)
    rng.shuffle(corder)
    ps = [
        ("sequential", lambda a: sequential.place(*a)),
        ("sequential-orders", lambda a: sequential.place(*a, vertex_order=order, chip_order=corder)),
        ("breadth_first", lambda a: breadth_first.place(*a)),
        ("breadth_first-chips", lambda a: breadth_first.place(*a, chip_order=corder)),
        ("hilbert", lambda a: hilbert.place(*a)),
        ("hilbert-nobf", lambda a: hilbert.place(*a, breadth_first=False)),
        ("rcm", lambda a: rcm.place(*a)),
        ("rand", lambda a: rand.place(*a, random=random.Random(seedbase))),
        ("sa-python-0", lambda a: sa.place(*a, effort=0.0, random=random.Random(seedbase), kernel=PythonKernel)),
    ]
    return ps


def large_problems(rng, chk):
    """The far end of "all graphs, all machines": a pipeline of over a thousand vertices (one connected component
    that is one long path) and machines of over a thousand chips.  Unit core demand, so the success guarantee applies."""
    out = []
    for k in range(chk.pick(1, 4)):
        n = rng.randint(1100, 1600)
        names = ["p%d" % i for i in range(n)]
        rng.shuffle(names)
        vr = {v: {Cores: 1} for v in names}
        chain = sorted(names, key=lambda v: int(v[1:]))
        nets = [Net(a, [b]) for a, b in zip(chain, chain[1:])]
        m = Machine(rng.randint(10, 12), rng.randint(10, 12), chip_resources={Cores: 17, SDRAM: 128})
        out.append((vr, nets, m, []))
    for k in range(chk.pick(1, 4)):
        w = rng.randint(33, 40)
        m = Machine(w, (1100 // w) + rng.randint(1, 6), chip_resources={Cores: 2},
                    dead_chips={(rng.randrange(w), rng.randrange(20)) for _ in range(rng.randint(0, 5))})
        names = ["q%d" % i for i in range(rng.randint(5, 40))]
        vr = {v: {Cores: 1} for v in names}
        nets = [Net(rng.choice(names), rng.sample(names, 3)) for _ in range(10)]
        out.append((vr, nets, m, []))
    return out


# ---------------------------------------------------------------------------------------------------------------
# Further input families (audit, round 6).  They use their own random stream so that the problems above stay the same.

def dead_links_for(rng, w, h, mode):
    """dead links of a w x h machine: 'nowrap' = every link that leaves the rectangle (what a machine without
    wrap-around cables looks like: the annealing kernels take another branch), 'random' = each link with probability
    0.3, 'isolated' = one or two chips with all six links (and the links towards them) dead, 'all' = every link"""
    dead = set()
    if mode in ("nowrap", "nowrap+isolated"):
        for x in range(w):
            dead |= {(x, 0, Links.south), (x, 0, Links.south_west), (x, h - 1, Links.north), (x, h - 1, Links.north_east)}
        for y in range(h):
            dead |= {(0, y, Links.west), (0, y, Links.south_west), (w - 1, y, Links.east), (w - 1, y, Links.north_east)}
    if mode == "random":
        dead |= {(x, y, l) for x in range(w) for y in range(h) for l in Links if rng.random() < 0.3}
    if mode in ("isolated", "nowrap+isolated"):
        for _ in range(rng.randint(1, 2)):
            x, y = rng.randrange(w), rng.randrange(h)
            for l in Links:
                dx, dy = l.to_vector()
                dead.add((x, y, l))
                dead.add(((x + dx) % w, (y + dy) % h, l.opposite))
    if mode == "all":
        dead |= {(x, y, l) for x in range(w) for y in range(h) for l in Links}
    return dead


class _Thing(object):
    """a vertex that is just an object: hashable by identity, not orderable"""
    __slots__ = ()


def mixed_vertices(rng, names, m):
    """vertices are 'any hashable object': plain objects, integers, floats, tuples (some equal to chip coordinates),
    frozen sets, byte strings, None and strings side by side - nothing that could be sorted"""
    chips = list(m)
    out, used = {}, set()
    for i, v in enumerate(names):
        for _ in range(20):
            k = rng.randrange(9)
            cand = (_Thing() if k == 0 else object() if k == 1 else 100 + i if k == 2 else 0.5 + i if k == 3 else
                    rng.choice(chips) if k == 4 else frozenset([i, "f"]) if k == 5 else b"b%d" % i if k == 6 else
                    None if k == 7 else (i, "t%d" % i))
            if cand not in used:
                break
        else:
            cand = object()
        used.add(cand)
        out[v] = cand
    return out


def rename(vr, nets, cons, mp):
    vr2 = {mp[v]: res for v, res in vr.items()}
    nets2 = [Net(mp[n.source], [mp[v] for v in n.sinks], n.weight) for n in nets]
    cons2 = []
    for c in cons:
        if isinstance(c, LocationConstraint):
            c = LocationConstraint(mp[c.vertex], c.location)
        elif isinstance(c, SameChipConstraint):
            c = SameChipConstraint([mp[v] for v in c.vertices])
        elif isinstance(c, RouteEndpointConstraint):
            c = RouteEndpointConstraint(mp[c.vertex], c.route)
        cons2.append(c)
    return vr2, nets2, cons2


def gen_feasible_problem(rng):
    """a general problem (2-3 resources, dead chips, exceptions, reservations, same-chip groups - chained, with
    duplicated members -, located group members) built around a hidden feasible placement with 40-90 % of every chip
    used: unlike the random general problems (which mostly cannot be placed once they contain a group) most of these
    ARE placed, so merged and pinned vertices really go through placement, annealing swaps and expansion"""
    w, h = rng.choice(((2, 1), (2, 2), (3, 2), (3, 3), (4, 3), (5, 4), (1, 4)))
    names = RES[:rng.choice((2, 2, 3))]
    order = list(names)
    rng.shuffle(order)
    resources = {r: rng.randint(3, 9) for r in order}
    dead = {(x, y) for x in range(w) for y in range(h) if rng.random() < 0.1}
    if len(dead) == w * h:
        dead.pop()
    exc = {}
    for _ in range(rng.randint(0, 3)):
        keys = list(names)
        rng.shuffle(keys)
        exc[(rng.randrange(w), rng.randrange(h))] = {r: rng.randint(1, 10) for r in keys}
    mode = rng.choice(("none", "nowrap", "nowrap", "random"))
    m = Machine(w, h, chip_resources=resources, chip_resource_exceptions=exc, dead_chips=dead,
                dead_links=dead_links_for(rng, w, h, mode))
    chips = list(m)
    cons = []
    free = {xy: dict(m[xy]) for xy in chips}
    if rng.random() < 0.5:
        r = rng.choice(names)
        lo = min([free[xy][r] for xy in chips] + [resources[r]])
        if lo > 1:
            cons.append(ReserveResourceConstraint(r, slice(0, 1)))
            for xy in chips:
                free[xy][r] -= 1
    if rng.random() < 0.5:
        xy, r = rng.choice(chips), rng.choice(names)
        if free[xy][r] > 0:
            n = rng.randint(1, free[xy][r])
            cons.append(ReserveResourceConstraint(r, slice(0, n), xy))
            free[xy][r] -= n
    hidden = {}
    k = 0
    for xy in chips:
        left = dict(free[xy])
        budget = {r: int(left[r] * rng.choice((0.4, 0.6, 0.9, 1.0))) for r in names}
        for _ in range(rng.randint(0, 6)):
            keys = [r for r in names if rng.random() < 0.85]
            rng.shuffle(keys)
            need = {r: rng.choice((0, 1, 1, 2, 3)) for r in keys}
            if all(need.get(r, 0) <= budget[r] for r in names):
                for r in names:
                    budget[r] -= need.get(r, 0)
                hidden["g%d" % k] = (xy, need)
                k += 1
    vs = list(hidden)
    rng.shuffle(vs)
    vr = {v: hidden[v][1] for v in vs}
    on = {}
    for v in vs:
        on.setdefault(hidden[v][0], []).append(v)
    crowded = [xy for xy in on if len(on[xy]) >= 2]
    rng.shuffle(crowded)
    for xy in crowded[:rng.randint(1, 4)]:
        grp = [rng.choice(on[xy]) for _ in range(rng.randint(2, 4))]
        cons.append(SameChipConstraint(grp))
        if rng.random() < 0.5:
            cons.append(SameChipConstraint([rng.choice(grp), rng.choice(on[xy])]))       # a chain
    pinned = list(on)
    rng.shuffle(pinned)
    for xy in pinned[:rng.randint(0, 3)]:
        cons.append(LocationConstraint(rng.choice(on[xy]), xy))          # (at most one per chip)
    nets = [Net(rng.choice(vs), [rng.choice(vs) for _ in range(rng.randint(1, 4))], rng.choice((1, 1, 2.5)))
            for _ in range(2 * len(vs))] if vs else []
    rng.shuffle(cons)
    return vr, nets, m, cons


def extra_problems(rng, chk):
    """(tag, easy_generated, vr, nets, machine, constraints) - see the families in run()'s rule text"""
    out = []
    modes = ("nowrap", "nowrap", "random", "isolated", "nowrap+isolated", "all")
    n_links = chk.pick(48, 600)
    for i in range(n_links):
        easy = i % 2 == 0
        vr, nets, m, cons = gen_problem(rng, easy, chk)
        mode = modes[i % len(modes)]
        m = Machine(m.width, m.height, m.chip_resources, m.chip_resource_exceptions, m.dead_chips,
                    dead_links_for(rng, m.width, m.height, mode))
        tag = "links-" + mode
        names = list(vr)
        # nets without sinks, same-chip constraints over nothing / one vertex: legal and without effect
        if names and rng.random() < 0.4:
            nets = nets + [Net(rng.choice(names), [])]
            rng.shuffle(nets)
        if rng.random() < 0.3:
            cons = cons + [SameChipConstraint([])] + ([SameChipConstraint([rng.choice(names)])] if names else [])
            rng.shuffle(cons)
        if names and i % 3 == 0:
            vr, nets, cons = rename(vr, nets, cons, mixed_vertices(rng, names, m))
            tag += "+mixed"
        out.append((tag, easy, vr, nets, m, cons))
    for i in range(chk.pick(40, 500)):
        vr, nets, m, cons = gen_feasible_problem(rng)
        tag = "feasible-general"
        if vr and i % 4 == 0:
            vr, nets, cons = rename(vr, nets, cons, mixed_vertices(rng, list(vr), m))
            tag += "+mixed"
        out.append((tag, False, vr, nets, m, cons))
    # a location constraint naming a dead chip or a chip outside the machine: no placement can honour it
    for i in range(chk.pick(16, 200)):
        easy = i % 2 == 0
        vr, nets, m, cons = gen_problem(rng, easy, chk)
        names = list(vr)
        if not names:
            continue
        if i % 4 < 2 and not m.dead_chips and len(list(m)) > 1:
            # one more chip dies (one that no constraint names)
            named = {c.location for c in cons if getattr(c, "location", None) is not None}
            spare = [xy for xy in m if xy not in named]
            if spare:
                m = Machine(m.width, m.height, m.chip_resources, m.chip_resource_exceptions,
                            m.dead_chips | {rng.choice(spare)}, m.dead_links)
        dead = sorted(m.dead_chips)
        where = (rng.choice(dead) if dead and i % 4 < 2 else
                 rng.choice(((m.width, 0), (0, m.height), (-1, 0), (m.width + 2, m.height + 3))))
        cons = cons + [LocationConstraint(rng.choice(names), where)]
        rng.shuffle(cons)
        out.append(("location-unavailable", easy, vr, nets, m, cons))
    # machines without any resource type: everything fits everywhere
    for i in range(chk.pick(6, 60)):
        w, h = rng.randint(1, 4), rng.randint(1, 4)
        dead = {(rng.randrange(w), rng.randrange(h))} if w * h > 1 and rng.random() < 0.5 else set()
        m = Machine(w, h, chip_resources={}, dead_chips=dead,
                    dead_links=dead_links_for(rng, w, h, rng.choice(("nowrap", "none"))))
        names = ["z%d" % k for k in range(rng.randint(0, 7))]
        vr = {v: {} for v in names}
        cons = [LocationConstraint(v, rng.choice(list(m))) for v in names[:rng.randint(0, 2)]]
        nets = [Net(rng.choice(names), [rng.choice(names) for _ in range(rng.randint(0, 3))]) for _ in range(len(names))]
        out.append(("no-resources", True, vr, nets, m, cons))
    return out


def option_placers(vr, m, seedbase):
    """the optional parameters of the annealer and the random placer left out, or used the other way"""
    def glob(f):
        def g(a):
            random.seed(seedbase)         # the placers' default generator is the random module itself
            return f(a)
        return g
    return [
        ("rand-defaultrng", glob(lambda a: rand.place(*a))),
        ("sa-defaults", glob(lambda a: sa.place(*a))),                       # default kernel, effort, generator
        ("sa-python-0.1-nocallback", lambda a: sa.place(*a, effort=0.1, random=random.Random(seedbase),
                                                        kernel=PythonKernel, kernel_kwargs={"no_warn": True})),
    ]


def run_extras(chk, traces):
    rng = random.Random(chk.seed * 7919 + 20260925)
    tags = {}
    for i, (tag, easy, vr, nets, m, cons) in enumerate(extra_problems(rng, chk)):
        tags[tag] = tags.get(tag, 0) + 1
        vidx = {v: k + 1 for k, v in enumerate(vr)}
        tr = problem_json(vr, m, cons, vidx)
        tr["easy_generated"] = easy
        tr["family"] = tag
        evs = []
        args = (vr, nets, m, cons)
        seedbase = chk.seed * 1000003 + 500000 + i
        for name, f in placers(rng, vr, m, seedbase) + option_placers(vr, m, seedbase):
            run_one(name, f, args, vidx, len(vr), evs)
            chk.evaluations += 1
        for kn, (kname, kern) in enumerate((("python", PythonKernel), ("c", CKernel))):
            if kern is None:
                continue
            # watched at every temperature change; for one of the two kernels the callback stops the anneal at once
            stop = (i // 2 + kn) % 2 == 1
            snaps = []

            def cb(it, placements, cost, acc, temp, dist, snaps=snaps, stop=stop):
                if len(snaps) < 4:
                    snaps.append(placement_json(placements, vidx, len(vr)))
                return False if stop else None
            run_one("sa-%s-0.1%s" % (kname, "-stopped" if stop else ""),
                    lambda a, kern=kern, cb=cb: sa.place(*a, effort=0.1, random=random.Random(seedbase + 1),
                                                         kernel=kern, on_temperature_change=cb),
                    args, vidx, len(vr), evs, snaps)
            chk.evaluations += 1
        tr["ev"] = evs
        traces.append(tr)
        chk._nontrivial.add(str((tag, tr["chips"], tr["vres"], tr["loc"], tr["same"], tr["gres"], tr["lres"])))
    for tag, n in sorted(tags.items()):
        chk.count("extra problems: " + tag.split("+")[0], n)
    return sum(tags.values())


def run_one(name, f, args, vidx, n, evs, snapshots=None):
    signal.signal(signal.SIGALRM, _alarm)
    signal.setitimer(signal.ITIMER_REAL, WATCHDOG_S)
    try:
        pl = f(args)
    except Timeout:
        evs.append(["raise", name, "DidNotTerminateWithin%ds" % WATCHDOG_S])
    except Exception as ex:
        evs.append(["raise", name, type(ex).__name__])
    else:
        if snapshots:
            for s in snapshots:
                evs.append(["swap", name, s])
        evs.append(["placed", name, placement_json(pl, vidx, n)])
    finally:
        signal.setitimer(signal.ITIMER_REAL, 0)


def run(chk):
    rng = random.Random(chk.seed)
    chk.design("PlacementDesign", "PlacementDesign_quick.cfg", expect_actions=("PlaceNext", "SwapAny", "Finish"))
    chk.design("PlacementDesign", "PlacementDesign_advance.cfg", expect_actions=("PlaceNext", "SwapAny"))
    r = chk.design("PlacementDesign", "PlacementDesign_tworesources.cfg", allow_error=True, label="expected to fail")
    if r.ok or "EasyNeverFails" not in (r.error or ""):
        from ..core import MachineryError
        raise MachineryError("the two-resource variant of the success guarantee should be refuted: %s" % r.error)
    chk.count("design variants refuted as expected (two resources)")

    traces = []
    nprob = chk.pick(500, 12000)
    for i in range(nprob):
        easy = i % 2 == 0
        if i % 10 == 9:
            easy = False
            vr, nets, m, cons = gen_order_problem(rng)
        else:
            vr, nets, m, cons = gen_problem(rng, easy, chk)
        vidx = {v: k + 1 for k, v in enumerate(vr)}
        tr = problem_json(vr, m, cons, vidx)
        tr["easy_generated"] = easy
        evs = []
        args = (vr, nets, m, cons)
        for name, f in placers(rng, vr, m, chk.seed * 1000003 + i):
            run_one(name, f, args, vidx, len(vr), evs)
            chk.evaluations += 1
        # annealing with effort: python kernel with snapshots at temperature changes, C kernel
        heavy = (i % 4 in (0, 1) or i % 10 == 9) if chk.quick else True     # easy (even i) and general (odd i) problems alike
        if heavy:
            for kname, kern in (("python", PythonKernel), ("c", CKernel)):
                if kern is None:
                    continue
                for effort in ((0.1, 1.0) if i % 8 in (0, 1) else (0.1,)):
                    snaps = []

                    def cb(it, placements, cost, acc, temp, dist, snaps=snaps):
                        if len(snaps) < 4:
                            snaps.append(placement_json(placements, vidx, len(vr)))
                    run_one("sa-%s-%s" % (kname, effort),
                            lambda a, kern=kern, effort=effort, cb=cb: sa.place(
                                *a, effort=effort, random=random.Random(chk.seed + i), kernel=kern,
                                on_temperature_change=cb),
                            args, vidx, len(vr), evs, snaps)
                    chk.evaluations += 1
        tr["ev"] = evs
        traces.append(tr)
        chk._nontrivial.add(str((tr["chips"], tr["vres"], tr["loc"], tr["same"], tr["gres"], tr["lres"])))
    for vr, nets, m, cons in large_problems(rng, chk):
        vidx = {v: k + 1 for k, v in enumerate(vr)}
        tr = problem_json(vr, m, cons, vidx)
        tr["easy_generated"] = True
        evs = []
        for name, f in placers(rng, vr, m, chk.seed + 17):
            if name.startswith("sa-"):
                continue              # (annealing a thousand vertices takes minutes; the other placers take seconds)
            run_one(name, f, (vr, nets, m, cons), vidx, len(vr), evs)
            chk.evaluations += 1
        tr["ev"] = evs
        traces.append(tr)
        chk._nontrivial.add(str((tr["w"], tr["h"], len(vr))))
    nextra = run_extras(chk, traces)
    nraise = sum(1 for t in traces for e in t["ev"] if e[0] == "raise")
    nplaced = sum(1 for t in traces for e in t["ev"] if e[0] == "placed")
    nswap = sum(1 for t in traces for e in t["ev"] if e[0] == "swap")
    chk.count("placer runs that raised", nraise)
    chk.count("placer runs that returned", nplaced)
    chk.count("annealer snapshots judged", nswap)
    chk.rule = ("%d problems (half 'easy': unit demand of one resource, no same-chip groups, located vertices fit, "
                "capacity suffices at 30-100%% fill; half general: 1-3 resources, dead chips, per-chip exceptions, "
                "location / same-chip (chained, duplicated members) / global and per-chip reservation / endpoint / "
                "alignment constraints, vertices needing nothing) x 9 placer configurations each (sequential, "
                "custom orders, breadth-first, Hilbert x2, RCM, random, annealing effort 0) + annealing with the "
                "Python and C kernels at effort 0.1/1.0 on a subset; plus pipelines of 1100-1600 vertices and machines of over 1100 chips through the "
                "placers other than annealing; evaluations = placer runs; distinct = distinct "
                "problem; plus %d further problems (own random stream): machines with dead links - no wrap-around "
                "links, random dead links, chips cut off from all neighbours, no working link at all -, general problems built around a hidden "
                "feasible placement (so that groups and pinned members really are placed and annealed), vertices that "
                "are arbitrary unorderable hashable objects, nets without sinks, empty / singleton same-chip "
                "constraints, a location constraint on a dead chip or outside the machine, machines without any "
                "resource type; each through the 9 configurations, the random placer and the annealer with every "
                "optional parameter left out, and both kernels watched by a callback that for one of the two "
                "stops the anneal at once" % (nprob, nextra))
    chk.exhaustive = False
    chk.assumptions.append("termination is observed with a %d s watchdog per placer run (an observation, not a proof)"
                           % WATCHDOG_S)
    chk.assumptions.append("the C kernel is observed at temperature changes and at the end only")
    chk.sample(traces[0]); chk.sample(traces[1]); chk.sample(traces[-1])

    def key_of(tr, i, clauses):
        e = tr["ev"][i - 1]
        return "%s %s %s problem=%s" % (e[0], e[1], ",".join(clauses),
                                       str((tr["w"], tr["h"], tr["vres"], tr["loc"], tr["same"], tr["gres"], tr["lres"]))[:300])

    chk.validate("PlacementTrace", "PlacementTrace.cfg", traces, key_of=key_of, batch=1500)


def selftest(chk):
    tr = dict(chips=[[0, 0, [2]], [1, 0, [1]]], vres=[[1], [1], [1]], loc=[[1, 1, 0]], same=[[2, 3]], gres=[], lres=[],
              w=2, h=1)
    good = dict(tr, ev=[["placed", "x", [[1, 0], [0, 0], [0, 0]]]])
    cases = [
        (good, None),
        (dict(tr, ev=[["placed", "x", [[0, 0], [0, 0], [1, 0]]]]), "LocationsHonoured"),
        (dict(tr, ev=[["placed", "x", [[1, 0], [0, 0], [1, 0]]]]), "SameChipHonoured"),
        (dict(tr, same=[], ev=[["placed", "x", [[1, 0], [1, 0], [0, 0]]]]), "WithinResources"),
        (dict(tr, ev=[["placed", "x", [[1, 0], [0, 0]]]]), "EveryVertexOnAWorkingChip"),
        (dict(tr, ev=[["placed", "x", [[1, 0], [0, 0], [3, 3]]]]), "EveryVertexOnAWorkingChip"),
        (dict(tr, ev=[["raise", "x", "TypeError"]]), "OnlyDocumentedErrors"),
        (dict(tr, same=[], ev=[["raise", "x", "InsufficientResourceError"]]), "MustSucceed"),
        (dict(tr, ev=[["raise", "x", "InsufficientResourceError"]]), None),     # same-chip group: not 'easy'
        (dict(tr, ev=[["swap", "x", [[1, 0], [1, 0], [1, 0]]]]), "SwapKeepsFeasible"),
    ]
    rej = chk.validate("PlacementTrace", "PlacementTrace.cfg", [c[0] for c in cases])
    got = {id(t): cl for t, _, cl in rej}
    msgs = []
    for t, want in cases:
        cl = got.get(id(t))
        if (want is None) != (cl is None) or (want and want not in cl):
            msgs.append("expected %s, got %s" % (want, cl))
    return not msgs, "; ".join(msgs) or "%d corrupted traces rejected with the expected clauses" % (len(cases) - 2)
