"""C08, job R - definition histories chosen by TLC's simulator, replayed on real rig.bitfield.BitField objects.

S: BitFieldSim.tla (the design machine of BitFieldDesign.tla with a history variable) is run by TLC's simulator
   at 8 bits, up to 6 fields and depth 3: fields added in scopes opened by values of other fields, explicit and
   automatic lengths and positions, definitions the design refuses (name clash, definitely bad explicit
   position), values that widen automatic fields, values that do and do not fit explicit lengths, then the layout
   decision.  Every finished history is printed as JSON together with the design's state after every step.
R: each history is made, call by call, on a real BitField through c08.Session (the property's own driver), so
   the property's events (add / call / assign / scope / endtable) are recorded as always; after every call a
   "predict" event carries what the design answered, the design's state and what the real object shows, and after
   assign_fields a "layout" event carries where rig put every field of the design and the design's layout
   decision.
T: BitFieldReplayTrace.tla (EXTENDS BitFieldTrace) judges the traces: the property's clauses as they are, plus
   MustSucceedAsPredicted / RefusedAsPredicted / StateAsPredicted / ViewAsPredicted / LayoutInValidLayouts.
D: BitFieldSim_agree.cfg - exhaustively, at 3 bits and 2 fields (thorough: also 4 bits and 3 fields): the
   predicates used above (a layout is allowed, some layout exists, a definition must be refused, the scopes) say
   what BitFieldDesign's ValidLayouts, AddField and ScopeChoices say; BitFieldSim_agree_wrong.cfg ("what fits has
   a layout") is expected to fail.

This module contains no oracle: it translates a history into calls, and writes down what happened.
"""
import base64
import json
import random
import shutil
import zlib
from concurrent.futures import ThreadPoolExecutor

from .. import tlc as tlcmod
from ..core import Check, MachineryError, NCPU
from . import c08

MODULE, CFG = "BitFieldReplayTrace", "BitFieldReplayTrace.cfg"


# ---------------------------------------------------------------------------- projections
def scope_of(pairs):
    return {str(n): int(v) for n, v in pairs}


def enc_pfields(after):
    """the design's fields, values written the way the trace events write them"""
    return [[f["id"], c08.enc_scope(scope_of(f["cond"])), int(f["flen"]), int(f["fstart"]), int(f["need"])]
            for f in after]


def views(s):
    """what every bit field derived so far shows: its fields and what get_location_and_length says of each"""
    out = []
    for k, h in list(s.handles.items()):
        rows = []
        for n in s._shown(h):
            try:
                loc, ln = h.get_location_and_length(n)
                rows.append([n, "ok", int(loc), int(ln)])
            except Exception as ex:
                rows.append([n, "raise", type(ex).__name__])
        out.append([c08.enc_scope(dict(k)), rows])
    return out


def handle_for(s, scope):
    """derive the bit field holding `scope` (a recorded call event); None, or why it could not be derived"""
    if c08.skey(scope) in s.handles:
        return None
    if s.call({}, scope) is not None:
        return None
    return "call:" + str(s.ev[-1][3])


def value_of_width(rng, w):
    """a value that needs exactly w bits: the smallest, the largest or any"""
    r = rng.random()
    if w <= 1:
        return 1
    if r < 0.3:
        return 1 << (w - 1)
    if r < 0.6:
        return (1 << w) - 1
    return (1 << (w - 1)) | rng.getrandbits(w - 1)


# ---------------------------------------------------------------------------- one history
def replay_history(b, vseed, label="tlc-simulated"):
    """b: a history printed by BitFieldSim (blen, mode, hist).  Returns the c08.Session that made the calls; its
    events are the property's events plus the predict / layout events."""
    rng = random.Random(vseed)
    s = c08.Session(int(b["blen"]), max_handles=14)
    for step in b["hist"]:
        op = step["op"]
        pf = enc_pfields(step["after"])
        if op == "add":
            scope = scope_of(step["scope"])
            real = handle_for(s, scope)
            if real is None:
                real = s.add(scope, step["id"], step["fl"] or None, step["fs"] if step["fs"] >= 0 else None) \
                    or "nohandle"
            if real == "RecursionError":
                # (as in c08: every later operation on this tree is slow and fails the same way; it is not even
                # looked at any more)
                s.ev.append(["predict", "add", step["pred"], real, pf, []])
                break
            s.ev.append(["predict", "add", step["pred"], real, pf, views(s)])
        elif op == "set":
            scope = scope_of(step["scope"])
            real = handle_for(s, scope)
            if real is None:
                m = s.call(scope, {step["id"]: value_of_width(rng, int(step["fl"]))})
                real = "ok" if m is not None else str(s.ev[-1][3])
            s.ev.append(["predict", "set", step["pred"], real, pf, views(s)])
        elif op == "assign":
            real = s.assign()
            rows = []
            for f in step["after"]:
                cond = scope_of(f["cond"])
                h = s.handles.get(c08.skey(cond))
                try:
                    if h is None:
                        raise LookupError("nohandle")
                    loc, ln = h.get_location_and_length(f["id"])
                    rows.append([f["id"], c08.enc_scope(cond), "ok", int(loc), int(ln)])
                except Exception as ex:
                    rows.append([f["id"], c08.enc_scope(cond), "raise", type(ex).__name__])
            s.ev.append(["layout", real, rows, pf, bool(step["feasible"])])
    return s


def pack(b):
    """the history as TLC printed it, kept with the trace for re-execution (compressed: TLC never reads it)"""
    return base64.b64encode(zlib.compress(json.dumps(b, sort_keys=True).encode(), 9)).decode()


def unpack(text):
    return json.loads(zlib.decompress(base64.b64decode(text)).decode())


def trace_of(s, b, vseed, label):
    t = s.trace(label)
    t["hist"] = pack(b)
    t["vseed"] = vseed
    return t


def parse(line):
    return json.loads(line.replace('\\"', '"'))


# ---------------------------------------------------------------------------- run
def simulate(chk, total, parts):
    """`parts` simulator processes side by side (one worker each, so that the behaviours depend on the seed
    only); returns the distinct histories in a fixed order"""
    per = -(-total // parts)

    def one(j):
        return tlcmod.run_tlc("BitFieldSim", "BitFieldSim.cfg", workers=1, timeout=3000, heap="1g",
                              simulate="num=%d" % per, depth=64, seed=chk.seed + 1 + 7919 * j)

    def agree(cfg):
        return tlcmod.run_tlc("BitFieldSim", cfg, workers=2, timeout=1800, heap="1g")

    agree_cfgs = [("BitFieldSim_agree.cfg", "the replay's predicates agree with BitFieldDesign: layouts, feasibility, "
                   "refusals, scopes (3 bits, 2 fields, exhaustive)")]
    if not chk.quick:
        agree_cfgs.append(("BitFieldSim_agree_thorough.cfg", "feasibility, refusals and scopes agree with BitFieldDesign "
                           "(4 bits, 3 fields, exhaustive)"))
    with ThreadPoolExecutor(max_workers=parts + 3) as ex:
        fas = [ex.submit(agree, cfg) for cfg, _ in agree_cfgs]
        fw = ex.submit(agree, "BitFieldSim_agree_wrong.cfg")
        sims = list(ex.map(one, range(parts)))
        ras, rw = [f.result() for f in fas], fw.result()
    for (cfg, label), ra in zip(agree_cfgs, ras):
        chk.jobs.append(dict(job="D", module="BitFieldSim", cfg=cfg, label=label, **ra.summary()))
        if not ra.ok:
            raise MachineryError("%s failed: %s" % (cfg, ra.error))
        chk.states += ra.distinct
        chk.transitions += max(ra.generated - 1, 0)
    chk.jobs.append(dict(job="D", module="BitFieldSim", cfg="BitFieldSim_agree_wrong.cfg",
                         label="'what fits has a layout': expected to violate FeasibleAgrees", **rw.summary()))
    if rw.ok or "FeasibleAgrees is violated" not in (rw.error or ""):
        raise MachineryError("BitFieldSim_agree_wrong: expected a violation of FeasibleAgrees, got %s"
                             % (rw.error or "no error"))
    lines = []
    for j, r in enumerate(sims):
        chk.jobs.append(dict(job="S", module="BitFieldSim", cfg="BitFieldSim.cfg", part=j, **r.summary()))
        if not r.ok or not r.infos:
            raise MachineryError("simulation of BitFieldSim failed: %s" % (r.error or "no behaviour printed"))
        lines += r.infos
    return sorted(set(lines))[:total]


def validate_split(chk, traces, parts, label):
    """the traces are judged by `parts` TLC jobs side by side (each with a Check of its own, merged afterwards);
    a rejection is a violation of the property, as in chk.validate"""
    size = -(-len(traces) // parts)
    chunks = [traces[i:i + size] for i in range(0, len(traces), size)]
    shadows = [Check(chk.pid, chk.tier, chk.seed) for _ in chunks]
    try:
        with ThreadPoolExecutor(max_workers=len(chunks) or 1) as ex:
            futs = [ex.submit(sh.validate, MODULE, CFG, ch, key_of=c08.key_of, label=label, batch=1500,
                              workers=max(2, NCPU // len(chunks)), heap="3g") for sh, ch in zip(shadows, chunks)]
            rej = [x for f in futs for x in f.result()]
    finally:
        for sh in shadows:
            shutil.rmtree(sh.tmp, ignore_errors=True)
    for sh in shadows:
        chk.violations += sh.violations
        chk.jobs += sh.jobs
        chk.states += sh.states
        chk.transitions += sh.transitions
        chk.traces_ok += sh.traces_ok
    return rej


def run_replay(chk):
    lines = simulate(chk, chk.pick(300, 5000), chk.pick(6, 10))
    traces = []
    info = {}

    def n(k, v=1):
        info[k] = info.get(k, 0) + v

    for line in lines:
        b = parse(line)
        vseed = (zlib.crc32(line.encode()) + chk.seed) & 0x7FFFFFFF
        s = replay_history(b, vseed)
        mode = b.get("mode", {})
        t = trace_of(s, b, vseed, "tlc-simulated (%s positions, %s scopes)"
                     % (mode.get("pos"), "any" if mode.get("wild") == 0 else "peeling"))
        traces.append(t)
        chk.replayed += 1
        chk.note_case(t["hist"], nontrivial=len(s.accepted) >= 2)
        for step in b["hist"]:
            if step["op"] == "assign":
                n("design: %s layout exists%s" % ("some" if step["feasible"] else "no",
                                                  ", success guaranteed" if step["guaranteed"] else ""))
                n("design: fields at the layout decision", len(step["after"]))
            else:
                n("design: %s %s%s" % (step["op"], step["pred"], (" (%s)" % step["why"]) if step["why"] else ""))
        for k, v in s.counts.items():
            n("rig: " + k, v)
    for k, v in sorted(info.items()):
        chk.count("replay " + k, v)
    chk.extra["tlc_simulated_behaviours_replayed_into_impl"] = chk.replayed
    chk.extra["replay_domain"] = ("BitFieldSim.cfg: 8 bits, <= 6 fields, scopes of <= 3 values (0/1), explicit lengths "
                                  "1-2 or automatic, explicit positions 0-7 or automatic, values of up to 3 bits, "
                                  "<= 12 operations then assign_fields; half the histories without explicit positions")
    if traces:
        chk.sample([e for e in traces[len(traces) // 2]["ev"] if e[0] in ("predict", "layout")][:3])
    validate_split(chk, traces, chk.pick(2, 4), "tlc-simulated histories replayed on rig")
    return traces


def replay_file(chk, rp):
    """re-run the history recorded in a VIOLATION file of this job"""
    tr = rp["replay"]["trace"]
    b = unpack(tr["hist"])
    t = trace_of(replay_history(b, tr["vseed"]), b, tr["vseed"], "replay")
    chk.note_case(t["hist"])
    chk.validate(MODULE, CFG, [t], key_of=c08.key_of)
    return [t]


# ---------------------------------------------------------------------------- selftest
def F(id, cond, flen, fstart, need=1):
    return dict(id=id, cond=[list(p) for p in cond], flen=flen, fstart=fstart, tags=[], need=need)


def hand_history():
    """a history in the format BitFieldSim prints (written by hand: the selftest does not depend on the simulator)"""
    a, c = F("a", [], 0, -1), F("c", [], 2, 6)
    b0, b1 = F("b", [("a", 0)], 0, -1), F("b", [("a", 1)], 1, 2)
    b0w = dict(b0, need=3)

    def st(op, scope, id, fl, fs, pred, why, after):
        return dict(op=op, scope=[list(p) for p in scope], id=id, fl=fl, fs=fs, pred=pred, why=why, after=after)
    return dict(blen=8, mode=dict(pos="mixed", wild=1), hist=[
        st("add", [], "a", 0, -1, "ok", "", [a]),
        st("add", [], "c", 2, 6, "ok", "", [a, c]),
        st("add", [("a", 0)], "b", 0, -1, "ok", "", [a, c, b0]),
        st("add", [("a", 0)], "a", 0, -1, "refused", "clash", [a, c, b0]),
        st("add", [("a", 1)], "b", 1, 2, "ok", "", [a, c, b0, b1]),
        st("add", [("a", 1)], "d", 2, 5, "refused", "bad", [a, c, b0, b1]),
        st("set", [("a", 0)], "b", 3, -1, "ok", "", [a, c, b0w, b1]),
        st("set", [("a", 1)], "b", 2, -1, "refused", "wide", [a, c, b0w, b1]),
        dict(op="assign", feasible=True, guaranteed=False, tree=True, load=6, after=[a, c, b0w, b1])])


def selftest(chk):
    b = hand_history()
    good = trace_of(replay_history(b, 1), b, 1, "selftest")
    ev = good["ev"]
    pred = [i for i, e in enumerate(ev) if e[0] == "predict"]
    lay = next(i for i, e in enumerate(ev) if e[0] == "layout")

    def mut(f):
        t = dict(good)
        t["ev"] = json.loads(json.dumps(good["ev"]))
        f(t["ev"])
        return t

    def lrow(evs, name, cond_len):
        return next(r for r in evs[lay][2] if r[0] == name and len(r[1]) == cond_len)

    def onto(evs):                 # b (under a=0) reported on top of a, both can be present together
        lrow(evs, "b", 1)[3] = lrow(evs, "a", 0)[3]

    def widen(evs):                # the automatic field a reported one bit wider, into free space: allowed
        used = set()
        for r in evs[lay][2]:
            used |= set(range(r[3], r[3] + r[4]))
        r = lrow(evs, "a", 0)
        if r[3] + r[4] in used or r[3] + r[4] >= 8:
            raise MachineryError("selftest: no free bit above field a (%s)" % (evs[lay][2],))
        r[4] += 1

    def view_row(evs, i, scope_len, name):
        vw = next(v for v in evs[i][5] if len(v[0]) == scope_len)
        return next(r for r in vw[1] if r[0] == name)

    rec = dict(blen=8, mode=dict(pos="auto", wild=0), hist=b["hist"][:1])
    rec_t = trace_of(replay_history(rec, 1), rec, 1, "selftest")
    rec_t["ev"] = rec_t["ev"][:-1] + [["add", [], "z", [], [], [], "RecursionError"],
                                       ["predict", "add", "ok", "RecursionError", rec_t["ev"][1][4], rec_t["ev"][1][5]],
                                       ["end"]]
    cases = [
        (good, None),
        (mut(lambda evs: evs[pred[0]].__setitem__(2, "refused")), "RefusedAsPredicted"),
        (mut(lambda evs: evs[pred[3]].__setitem__(2, "ok")), "MustSucceedAsPredicted"),
        (mut(lambda evs: evs[pred[5]].__setitem__(3, "ok")), "RefusedAsPredicted"),
        (mut(lambda evs: evs[pred[7]].__setitem__(3, "ok")), "RefusedAsPredicted"),
        (mut(lambda evs: evs[pred[6]][4][2].__setitem__(4, 2)), "StateAsPredicted"),          # need 3 predicted as 2
        (mut(lambda evs: evs[pred[2]][4].pop()), "StateAsPredicted"),                         # a field missing
        (mut(lambda evs: evs[pred[4]][5][0][1].pop()), "ViewAsPredicted"),                    # a field not shown
        (mut(lambda evs: view_row(evs, pred[4], 0, "c").__setitem__(2, 5)), "ViewAsPredicted"),   # c not where defined
        (mut(lambda evs: view_row(evs, pred[4], 0, "a").__setitem__(2, "KeyError")), "ViewAsPredicted"),
        (mut(onto), "LayoutInValidLayouts"),
        (mut(lambda evs: lrow(evs, "b", 1).__setitem__(4, 2)), "LayoutInValidLayouts"),       # narrower than its values
        (mut(lambda evs: lrow(evs, "c", 0).__setitem__(3, 5)), "LayoutInValidLayouts"),       # explicit position moved
        (mut(lambda evs: lrow(evs, "c", 0).__setitem__(4, 3)), "LayoutInValidLayouts"),       # explicit length changed
        (mut(lambda evs: evs[lay][2].pop()), "LayoutInValidLayouts"),                         # a field without position
        (mut(lambda evs: evs[lay][2].append(["e", [], "ok", 5, 1])), "LayoutInValidLayouts"),  # a field never defined
        (mut(lambda evs: evs[lay].__setitem__(4, False)), "RefusedAsPredicted"),              # "no layout exists"
        (mut(widen), None),
        (mut(lambda evs: evs.__delitem__(pred[2] - 1)), "StateAsPredicted"),                  # the add event dropped
        (rec_t, "MustSucceedAsPredicted"),
    ]
    before = len(chk.violations)
    rej = chk.validate(MODULE, CFG, [c[0] for c in cases], key_of=c08.key_of)
    got = {id(t): cl for t, _, cl in rej}
    msgs = []
    for k, (tr, want) in enumerate(cases):
        cl = got.get(id(tr))
        if (want is None) != (cl is None) or (want and want not in cl):
            msgs.append("case %d: expected %s, got %s" % (k, want, cl))
    keys = [v["key"] for v in chk.violations[before:]]
    if c08.RECURSION_KEY not in keys:
        msgs.append("a RecursionError of add_field is not filed under the known finding")
    # the projection: the design's fields keep their meaning on the way into the trace
    if enc_pfields([F("b", [("a", 1)], 0, 2, 3)]) != [["b", [["a", [0]]], 0, 2, 3]]:
        msgs.append("enc_pfields changed a field")
    if unpack(good["hist"]) != b:
        msgs.append("the packed history does not unpack to itself")
    for w in (1, 2, 3, 7):
        if any(value_of_width(random.Random(k), w).bit_length() != w for k in range(20)):
            msgs.append("value_of_width(%d) has another width" % w)
    return not msgs, "; ".join(msgs) or "%d corrupted replay traces rejected with the expected clauses" % (len(cases) - 2)
