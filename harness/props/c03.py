"""C03 - routing trees are loop-free, connected, use only live hardware.

D: NerRepairDesign.tla - the dead-link repair as a state machine (every small tree x fault set).
T: every tree returned by rig's route() (and by ner_net alone on fault-free machines) is one event judged by
   RoutingTreeTrace.tla; a failure of route() is judged against the spec's own connectivity of the machine.
"""
import collections
import itertools
import random

from rig.links import Links
from rig.netlist import Net
from rig.place_and_route import Machine, Cores, SDRAM
from rig.place_and_route.constraints import (RouteEndpointConstraint, LocationConstraint, SameChipConstraint,
                                             ReserveResourceConstraint, AlignResourceConstraint)
from rig.place_and_route.route.ner import route, ner_net
from rig.place_and_route.route import utils as route_utils
from rig import geometry
from rig.routing_table import Routes

from .. import gen, proj


def sink_records(net, vidx, placements, allocations, endpoints, core=Cores):
    out = []
    for s in net.sinks:
        x, y = placements[s]
        if s in endpoints:
            out.append([vidx[s], x, y, "endpoint", int(endpoints[s]), 0])
        elif core in allocations.get(s, {}):
            sl = allocations[s][core]
            out.append([vidx[s], x, y, "cores", sl.start, sl.stop])
        else:
            out.append([vidx[s], x, y, "none", 0, 0])
    return out


def route_trace(machine, nets, placements, allocations, endpoints, radius, seed, vertices, core=Cores,
                extra_cons=(), how=None):
    """One call of route().  how (optional) chooses the caller's way of making the same call:
       alloc  "given" | "omitted" (the default {} of route() is used: no vertex owns cores)
       radius "given" | "omitted" (the documented default of 20)
       cons / nets  "list" | "tuple" | "iter" | "deque": the container the constraints / nets arrive in
    extra_cons: constraints of other kinds (they say nothing about routing) mixed into the constraint list."""
    how = how or {}
    vidx = {v: i for i, v in enumerate(vertices)}
    cons = [RouteEndpointConstraint(v, r) for v, r in endpoints.items()] + list(extra_cons)
    if extra_cons:
        random.Random(seed).shuffle(cons)
    nets = list(nets)
    box = dict(list=list, tuple=tuple, iter=iter, deque=collections.deque)
    cons_arg = box[how.get("cons", "list")](cons)
    nets_arg = box[how.get("nets", "list")](nets)
    if how.get("alloc") == "omitted":
        allocations = {}
    if how.get("radius") == "omitted":
        radius = 20
    tr = proj.machine_json(machine)
    tr["radius"] = radius
    tr["seed"] = seed
    evs = []
    random.seed(seed)
    vr = {v: {} for v in vertices}
    try:
        if how:
            kw = {}
            if how.get("alloc") != "omitted":
                kw["allocations"] = allocations
            if core is not Cores:
                kw["core_resource"] = core
            if how.get("radius") != "omitted":
                kw["radius"] = radius
            routes = route(vr, nets_arg, machine, cons_arg, placements, **kw)
        elif core is Cores and seed % 2:
            routes = route(vr, nets_arg, machine, cons_arg, placements, allocations, radius=radius)
        else:
            routes = route(vr, nets_arg, machine, cons_arg, placements, allocations, core, radius)
    except Exception as ex:
        evs.append(["raise", type(ex).__name__])
        tr["nets"] = [[list(placements[n.source]), [list(placements[s]) for s in n.sinks]] for n in nets]
    else:
        for n in nets:
            try:
                tree = routes[n]
            except Exception as ex:                       # "for every net the router returns a tree"
                evs.append(["notree", type(ex).__name__])
                continue
            try:
                nodes, edges, leaves = proj.flatten_tree(tree, vidx)
            except Exception as ex:                       # not a tree of chips, links and the call's vertices
                evs.append(["malformed", type(ex).__name__])
                continue
            evs.append(["tree", dict(src=list(placements[n.source]),
                                     sinks=sink_records(n, vidx, placements, allocations, endpoints, core),
                                     nodes=nodes, edges=edges, leaves=leaves)])
        evs.append(["ok"])
    tr["ev"] = evs
    return tr


def ner_trace(w, h, wrap, src, dests, radius, seed, how=None):
    """ner_net alone on a fault-free machine (the tree has no leaves yet).
    how (optional): dests "set" | "list" | "tuple" | "iter" (the destinations are documented as an iterable; a list keeps
    the caller's duplicates), radius / wrap "omitted" (documented defaults: 10, no wrap-around links)"""
    how = how or {}
    if how.get("wrap") == "omitted":
        wrap = False
    if how.get("radius") == "omitted":
        radius = 10
    m = Machine(w, h, dead_links=set() if wrap else gen.mesh_dead_links(w, h))
    tr = proj.machine_json(m)
    tr["radius"] = radius
    tr["seed"] = seed
    random.seed(seed)
    evs = []
    try:
        if not how:
            root, lookup = ner_net(src, set(dests), w, h, wrap, radius)
        else:
            arg = dict(set=set, list=list, tuple=tuple, iter=iter)[how.get("dests", "set")](dests)
            kw = {}
            if how.get("wrap") != "omitted":
                kw["wrap_around"] = wrap
            if how.get("radius") != "omitted":
                kw["radius"] = radius
            root, lookup = ner_net(src, arg, w, h, **kw)
    except Exception as ex:
        evs.append(["raise", type(ex).__name__])
    else:
        try:
            nodes, edges, leaves = proj.flatten_tree(root, {})
        except Exception as ex:
            evs.append(["malformed", type(ex).__name__])
        else:
            # sinks that get no leaf (kind "cores" with an empty range): only their chip must be in the tree
            sinks = [[i, d[0], d[1], "cores", 0, 0] for i, d in enumerate(sorted(set(dests)))]
            evs.append(["tree", dict(src=list(src), sinks=sinks, nodes=nodes, edges=edges, leaves=leaves)])
            evs.append(["ok"])
    tr["ev"] = evs
    return tr


def ner_shapes(chk, rng):
    """ner_net alone, called the other ways its signature allows: destinations as a list with repeats / tuple /
    iterator, none at all, the source among them; wrap_around and radius left to their defaults"""
    for i in range(chk.pick(120, 3000)):
        w, h = rng.choice(((1, 1), (1, 4), (2, 2), (2, 7), (3, 3), (5, 4), (8, 8), (12, 3), (9, 9), (14, 11)))
        chips = [(x, y) for x in range(w) for y in range(h)]
        src = rng.choice(chips)
        dests = [rng.choice(chips) for _ in range(rng.choice((0, 1, 2, 4, 9, 30)))]
        if dests and rng.random() < 0.3:
            dests.append(src)
        how = dict(dests=rng.choice(("set", "set", "list")), wrap=rng.choice(("given", "omitted")),
                   radius=rng.choice(("given", "omitted")))
        yield ner_trace(w, h, rng.random() < 0.6, src, dests, rng.choice((0, 1, 2, 4, 6, 10, 15, 20, 30)),
                        chk.seed * 100000 + 95000 + i, how)


def random_problem(rng, machine, nnets, p_endpoint=0.08, fanouts=(1, 1, 2, 3, 5, 8), core_endpoints=False):
    chips = list(machine)
    nv = rng.randint(1, min(24, 3 * len(chips)))
    vertices = ["v%d" % i for i in range(nv)]
    placements = {v: rng.choice(chips) for v in vertices}
    allocations, endpoints = {}, {}
    nxt = {}
    for v in vertices:
        r = rng.random()
        if r < p_endpoint:
            # device vertex: route to a link (or, with core_endpoints, to a core: any Routes value may be named)
            endpoints[v] = Routes(rng.randrange(24 if core_endpoints else 6))
            # it may or may not own cores as well (e.g. {Cores: 0} gives an empty range); the endpoint wins
            k = rng.choice((None, None, 0, 1))
            allocations[v] = {} if k is None else {Cores: slice(17 - k, 17)}
        elif r < p_endpoint + 0.06:
            allocations[v] = {SDRAM: slice(0, 4)}              # no core resource at all
        else:
            c = placements[v]
            n = rng.choice((0, 1, 1, 1, 2, 3))
            a = nxt.get(c, 0)
            if a + n > 18:
                a, n = 0, 1
            allocations[v] = {Cores: slice(a, a + n)}
            nxt[c] = a + n
    nets = []
    for _ in range(nnets):
        src = rng.choice(vertices)
        k = rng.choice(fanouts)
        sinks = [rng.choice(vertices) for _ in range(k)]       # repeated sinks and self-loops allowed
        nets.append(Net(src, sinks, rng.choice((1, 0, 2.5))))
    return vertices, placements, allocations, endpoints, nets


def small_scope(chk, rng):
    """tiny machines x dead directed link sets x source x sink sets x radius"""
    shapes = [(1, 1), (1, 2), (2, 1), (1, 3), (2, 2), (2, 3), (3, 2), (3, 3), (1, 5), (5, 1), (2, 5)]
    nfault = chk.pick(2, 3)
    budget = chk.pick(2500, 120000)
    combos = []
    for (w, h) in shapes:
        links = gen.all_links(w, h)
        chips = [(x, y) for x in range(w) for y in range(h)]
        for mesh in (False, True):
            base = gen.mesh_dead_links(w, h) if mesh else set()
            cand = [l for l in links if l not in base]
            for k in range(0, nfault + 1):
                for dl in itertools.combinations(cand, k):
                    combos.append((w, h, frozenset(base | set(dl)), chips))
    rng.shuffle(combos)
    chk.extra["small_scope_machines_available"] = len(combos)
    per = max(1, budget // max(1, min(len(combos), budget)))
    n = 0
    for (w, h, dead, chips) in combos:
        if n >= budget:
            break
        m = Machine(w, h, dead_links=set(dead))
        for _ in range(per):
            src = rng.choice(chips)
            sinks = [rng.choice(chips) for _ in range(rng.randint(1, 3))]
            vertices = ["s"] + ["t%d" % i for i in range(len(sinks))]
            placements = {"s": src}
            allocations = {"s": {Cores: slice(0, 1)}}
            for i, c in enumerate(sinks):
                placements["t%d" % i] = c
                allocations["t%d" % i] = {Cores: slice(1 + i, 2 + i)}
            net = Net("s", ["t%d" % i for i in range(len(sinks))])
            for radius in (0, 1, 20):
                n += 1
                yield route_trace(m, [net], placements, allocations, {}, radius, n, vertices)


def seam_problems(chk, rng):
    """non-square tori with a dead chip (and no dead link listed) next to a wrap-around seam, and nets whose straight
    path runs through that chip over the seam: the repair has to work with coordinates taken modulo the right side"""
    n = 0
    for (w, h) in chk.pick(((5, 6), (3, 7), (1, 6), (6, 1), (3, 4), (7, 3)), ((5, 6), (3, 7), (1, 6), (6, 1), (3, 4), (7, 3),
                                                                              (2, 3), (4, 5), (6, 7), (4, 9), (9, 4), (2, 9))):
        spots = [("y", x, h - 1) for x in range(w)] + [("x", w - 1, y) for y in range(h)]
        for axis, dx, dy in (spots if not chk.quick else rng.sample(spots, min(len(spots), 5))):
            if w * h < 3:
                continue
            m = Machine(w, h, dead_chips={(dx, dy)})
            if axis == "y" and h >= 3:
                src, sinks = (dx, h - 2), [(dx, 0), (dx, 1 % h)]
            elif axis == "x" and w >= 3:
                src, sinks = (w - 2, dy), [(0, dy), (1 % w, dy)]
            else:
                continue
            sinks = [c for c in sinks if c != (dx, dy) and c != src] or [src]
            for a, b in ((src, sinks), (sinks[0], [src])):
                vertices = ["s"] + ["t%d" % i for i in range(len(b))]
                placements = {"s": a}
                allocations = {"s": {Cores: slice(0, 1)}}
                for i, c in enumerate(b):
                    placements["t%d" % i] = c
                    allocations["t%d" % i] = {Cores: slice(1 + i, 2 + i)}
                net = Net("s", ["t%d" % i for i in range(len(b))])
                for radius in (0, 20):
                    n += 1
                    yield route_trace(m, [net], placements, allocations, {}, radius, 7000 + n, vertices)


class _Vertex(object):
    """a caller's own vertex class: hashable by identity, not orderable, no useful repr"""
    __slots__ = ("tag",)

    def __init__(self, tag):
        self.tag = tag


def rename_vertices(rng, kind, vertices, placements, allocations, endpoints, nets):
    """the same problem with the caller's vertices being objects of another kind (rig documents a vertex as any
    hashable object): ints (0 included), tuples, instances of a user class, or a mixture that cannot be ordered"""
    def make(i, v):
        k = kind if kind != "mixed" else ("int", "tuple", "object", "str", "frozenset")[i % 5]
        if k == "int":
            return i
        if k == "tuple":
            return ("vertex", i)
        if k == "object":
            return _Vertex(i)
        if k == "frozenset":
            return frozenset([i, "f"])
        return v
    ren = {v: make(i, v) for i, v in enumerate(vertices)}
    return ([ren[v] for v in vertices], {ren[v]: c for v, c in placements.items()},
            {ren[v]: a for v, a in allocations.items()}, {ren[v]: r for v, r in endpoints.items()},
            [Net(ren[n.source], [ren[x] for x in n.sinks], n.weight) for n in nets])


def strongly_connected(machine):
    """every working chip reaches every other over working directed links (forwards and backwards from one chip).
    Used only to keep the large generated machines inside the connected part of the domain, where route() must
    succeed; the verdict on a failure is always TLC's (Hex!Connected)."""
    chips = set(machine)
    if not chips:
        return True
    fwd, bwd = {}, {}
    for (x, y) in chips:
        for l in Links:
            if (x, y, l) in machine:
                dx, dy = l.to_vector()
                n = ((x + dx) % machine.width, (y + dy) % machine.height)
                if n in chips:
                    fwd.setdefault((x, y), []).append(n)
                    bwd.setdefault(n, []).append((x, y))
    c0 = next(iter(chips))
    for g in (fwd, bwd):
        seen, todo = {c0}, [c0]
        while todo:
            for n in g.get(todo.pop(), ()):
                if n not in seen:
                    seen.add(n)
                    todo.append(n)
        if seen != chips:
            return False
    return True


def faulty_machine(rng, w, h, mesh, fault_rate, p_dead_chip=0.0, blocks=0, spinn5=False, connected=False, tries=12):
    """a machine of a given size: mesh or torus, one- and two-directional dead links, scattered dead chips and
    *clusters* of dead chips (rectangular blocks, or the missing corners of a SpiNN-5 board on an 8x8 grid)"""
    for _ in range(tries):
        dead_links = set(gen.mesh_dead_links(w, h)) if mesh else set()
        dead_chips = set()
        if spinn5:
            for x in range(w):
                for y in range(h):
                    bx, by = x % 8, y % 8
                    if by - bx > 3 or bx - by > 4:
                        dead_chips.add((x, y))
        for _b in range(blocks):
            bw, bh = rng.randint(1, 3), rng.randint(1, 3)
            bx, by = rng.randrange(w), rng.randrange(h)
            for i in range(bw):
                for j in range(bh):
                    dead_chips.add(((bx + i) % w, (by + j) % h))
        for x in range(w):
            for y in range(h):
                if rng.random() < p_dead_chip:
                    dead_chips.add((x, y))
        if len(dead_chips) >= w * h:
            dead_chips = set(list(sorted(dead_chips))[1:])
        for (x, y, l) in gen.all_links(w, h):
            if rng.random() < fault_rate:
                dead_links.add((x, y, l))
                if rng.random() < 0.5:
                    dx, dy = l.to_vector()
                    dead_links.add(((x + dx) % w, (y + dy) % h, l.opposite))
        m = Machine(w, h, dead_chips=dead_chips, dead_links=dead_links)
        if not connected or strongly_connected(m):
            return m
        fault_rate /= 2.0
    return Machine(w, h, dead_links=set(gen.mesh_dead_links(w, h)) if mesh else set())


def one_core_each(chips_src, chips_sinks, name="b"):
    """a net from one vertex to one single-core vertex per sink chip"""
    vertices = [name + "s"] + ["%s%d" % (name, i) for i in range(len(chips_sinks))]
    placements = {vertices[0]: chips_src}
    allocations = {vertices[0]: {Cores: slice(0, 1)}}
    for i, c in enumerate(chips_sinks):
        placements[vertices[1 + i]] = c
        allocations[vertices[1 + i]] = {Cores: slice(1 + i % 16, 2 + i % 16)}
    return vertices, placements, allocations, Net(vertices[0], vertices[1:])


def broadcast_on_faults(chk, rng):
    """nets reaching a large share of the chips of a *faulty* machine through route(): the tree to repair is large, has
    many orphaned subtrees at once, and a detour runs through other orphans and through earlier detours"""
    for i in range(chk.pick(36, 1500)):
        w, h = rng.choice(((4, 4), (5, 5), (6, 6), (8, 8), (7, 10), (12, 5), (10, 10), (12, 12), (3, 14), (16, 4), (2, 12)))
        m = faulty_machine(rng, w, h, rng.random() < 0.3, rng.choice((0.02, 0.05, 0.1, 0.2, 0.3)),
                           p_dead_chip=rng.choice((0, 0, 0.05)), blocks=rng.choice((0, 0, 1, 2)),
                           connected=(w * h > 64))
        chips = sorted(m)
        src = rng.choice(chips)
        sinks = rng.sample(chips, max(1, int(len(chips) * rng.choice((0.3, 0.6, 1.0)))))
        vertices, placements, allocations, net = one_core_each(src, sinks)
        nets = [net]
        if rng.random() < 0.4:                              # and a small net of the same vertices in the same call
            nets.append(Net(rng.choice(vertices), [rng.choice(vertices) for _ in range(3)]))
        yield route_trace(m, nets, placements, allocations, {}, rng.choice((0, 1, 2, 3, 5, 20)),
                          chk.seed * 100000 + 60000 + i, vertices)


def big_machines(chk, rng):
    """machines of the sizes that are built (one SpiNN-5 board, three boards, a frame and more) with clustered dead
    chips, a few nets with near and far sinks (further apart than the default radius)"""
    shapes = [(8, 8, True, True), (12, 12, False, False), (24, 12, False, False), (12, 24, True, False),
              (20, 20, True, False), (16, 16, False, True), (36, 24, False, False), (1, 40, False, False),
              (40, 2, False, False)]
    for i in range(chk.pick(14, 300)):
        w, h, mesh, s5 = shapes[i % len(shapes)] if chk.quick else rng.choice(shapes + [(48, 24, False, False)])
        m = faulty_machine(rng, w, h, mesh, rng.choice((0.0, 0.01, 0.03)), blocks=rng.choice((0, 1, 3)),
                           spinn5=s5, connected=True)
        vertices, placements, allocations, endpoints, nets = random_problem(rng, m, rng.randint(1, 3))
        how = dict(radius="omitted") if i % 3 == 0 else None
        yield route_trace(m, nets, placements, allocations, endpoints, rng.choice((0, 5, 10, 20, 40)),
                          chk.seed * 100000 + 70000 + i, vertices, how=how)


def long_detours(chk, rng):
    """faults that force the repair far away from the straight line: a ring (1xN, Nx1, 2xN torus) cut in one place, so
    that the only way is round the other side; a wall of dead chips (or of dead links) across a large mesh with the
    source on one side and the sinks on the other"""
    for i in range(chk.pick(16, 400)):
        seed = chk.seed * 100000 + 98000 + i
        if i % 2 == 0:
            n = rng.choice((12, 20, 33, 48))
            w, h = rng.choice(((1, n), (n, 1), (2, n), (n, 2)))
            a = rng.randrange(n)
            along = (lambda k: (0, k % n)) if h == n else (lambda k: (k % n, 0))
            src, dst = along(a), along(a + rng.randint(1, 3))
            # every link leaving the source's column/row towards the sink is dead in that direction only
            fwd = (Links.north, Links.north_east) if h == n else (Links.east, Links.north_east)
            dead = set()
            for c in ([along(a)] if min(w, h) == 1 else [along(a), ((1, along(a)[1]) if h == n else (along(a)[0], 1))]):
                for l in Links:
                    dx, dy = l.to_vector()
                    if (dy if h == n else dx) == 1:
                        dead.add((c[0], c[1], l))
            m = Machine(w, h, dead_links=dead)
            sinks = [dst, along(a + n // 2)]
        else:
            w, h = rng.choice(((12, 12), (16, 10), (20, 20), (9, 24)))
            wall_x = rng.randrange(2, w - 2)
            gap = rng.randrange(h)
            dead_links = set(gen.mesh_dead_links(w, h))
            dead_chips = set()
            for y in range(h):
                if y == gap:
                    continue
                if i % 4 == 1:
                    dead_chips.add((wall_x, y))
                else:                                   # a wall of links dead from west to east only
                    for l in (Links.east, Links.north_east):
                        dead_links.add((wall_x, y, l))
            m = Machine(w, h, dead_chips=dead_chips, dead_links=dead_links)
            far = (gap + h // 2) % h
            src = (rng.randrange(0, wall_x), far)
            sinks = [(rng.randrange(wall_x + 1, w), far), (w - 1, rng.randrange(h))]
        vertices, placements, allocations, net = one_core_each(src, sinks, "d")
        yield route_trace(m, [net], placements, allocations, {}, rng.choice((0, 20)), seed, vertices)


def caller_shapes(chk, rng):
    """the same kind of call made the ways a caller may make it: allocations / radius left to their defaults,
    allocations that do not mention every vertex, constraints of other kinds mixed in, constraints and nets in a tuple /
    iterator / deque, vertices that are ints, tuples or instances of a class (not orderable), nets without sinks,
    endpoint constraints naming a core"""
    for i in range(chk.pick(220, 6000)):
        m = gen.random_machine(rng, maxw=6, maxh=6, p_dead_chip=rng.choice((0, 0.1)))
        vertices, placements, allocations, endpoints, nets = random_problem(
            rng, m, rng.randint(1, 3), p_endpoint=rng.choice((0.08, 0.3)), fanouts=(0, 1, 1, 2, 3, 5),
            core_endpoints=rng.random() < 0.5)
        kind = rng.choice(("str", "int", "tuple", "object", "mixed"))
        if kind != "str":
            vertices, placements, allocations, endpoints, nets = rename_vertices(
                rng, kind, vertices, placements, allocations, endpoints, nets)
        extra = []
        r = rng.random()
        if r < 0.6:
            for v in vertices:
                if rng.random() < 0.4:
                    extra.append(LocationConstraint(v, placements[v]))
            if rng.random() < 0.5:
                extra.append(ReserveResourceConstraint(Cores, slice(0, 1)))
            if rng.random() < 0.3:
                extra.append(AlignResourceConstraint(SDRAM, 4))
            by_chip = {}
            for v in vertices:
                by_chip.setdefault(placements[v], []).append(v)
            same = [vs for vs in by_chip.values() if len(vs) > 1]
            if same and rng.random() < 0.5:
                extra.append(SameChipConstraint(list(rng.choice(same))))
        how = dict(cons=rng.choice(("list", "list", "tuple")), nets=rng.choice(("list", "list", "tuple")),
                   alloc=rng.choice(("given", "given", "omitted")), radius=rng.choice(("given", "omitted")))
        if how["alloc"] == "given" and rng.random() < 0.3:
            allocations = {v: a for v, a in allocations.items() if rng.random() < 0.5}    # silent about some vertices
        yield route_trace(m, nets, placements, allocations, endpoints, rng.choice((0, 1, 2, 3, 4, 7, 10, 20, 33)),
                          chk.seed * 100000 + 80000 + i, vertices, extra_cons=extra, how=how)


def machine_histories(chk, rng):
    """one Machine object used for several calls and changed in place in between, the way a caller that learns of
    faults does: links that the previous trees used are marked dead, a chip the previous trees only passed through is
    marked dead, dead links are revived; the nets, placements and allocations are the same objects throughout"""
    for i in range(chk.pick(40, 1200)):
        m = gen.random_machine(rng, maxw=6, maxh=6, p_dead_chip=rng.choice((0, 0.05)), fault_rate=rng.choice((0, 0.02, 0.1)))
        vertices, placements, allocations, endpoints, nets = random_problem(rng, m, rng.randint(1, 3))
        radius = rng.choice((0, 1, 20))
        used_chips = set(placements[v] for v in vertices)
        for step in range(3):
            tr = route_trace(m, nets, placements, allocations, endpoints, radius,
                             chk.seed * 100000 + 90000 + 3 * i + step, vertices)
            yield tr
            hops, passed = [], set()
            for e in tr["ev"]:
                if e[0] == "tree":
                    nodes = e[1]["nodes"]
                    for a, d, b in e[1]["edges"]:
                        if 0 <= d < 6:
                            hops.append((nodes[a - 1][0], nodes[a - 1][1], Links(d)))
                    passed.update(tuple(c) for c in nodes)
            if not hops:
                hops = [(x, y, l) for (x, y) in m for l in Links]
            what = rng.choice(("links", "links", "chip", "revive"))
            if what == "links" or (what == "revive" and not m.dead_links):
                for hop in rng.sample(hops, min(len(hops), rng.randint(1, 3))):
                    m.dead_links.add(hop)
            elif what == "chip":
                through = sorted(passed - used_chips)
                if through:
                    m.dead_chips.add(rng.choice(through))
                else:
                    m.dead_links.add(rng.choice(hops))
            else:
                for l in rng.sample(sorted(m.dead_links), min(len(m.dead_links), 4)):
                    m.dead_links.discard(l)


def run(chk):
    rng = random.Random(chk.seed)
    chk.design("NerRepairDesign", "NerRepairDesign_%s.cfg" % chk.tier,
               expect_actions=("ReconnectAny", "Disconnect", "Grow", "Break", "Finish"))
    # the rule the pinned tree implemented ("search the orphan's current subtree") must be refuted by TLC:
    # this is what makes the invariant non-vacuous and documents why the order of enumeration matters
    r = chk.design("NerRepairDesign", "NerRepairDesign_pinned.cfg", allow_error=True, label="expected to fail")
    if r.ok or "AtMostOneParent" not in (r.error or ""):
        from ..core import MachineryError
        raise MachineryError("NerRepairDesign with Rule=search-current should violate AtMostOneParent: %s" % r.error)
    chk.count("design variants refuted as expected (pinned repair rule)")
    traces = []
    for t in small_scope(chk, rng):
        traces.append(t)
    for t in seam_problems(chk, rng):
        traces.append(t)
    nsmall = len(traces)
    # ner_net alone, fault free: all sizes incl. 1xN / 2xN, torus and mesh
    for i in range(chk.pick(600, 15000)):
        w, h = rng.choice(((1, 1), (1, 4), (4, 1), (2, 2), (2, 7), (7, 2), (3, 3), (5, 4), (8, 8), (12, 3), (9, 9)))
        wrap = rng.random() < 0.6
        chips = [(x, y) for x in range(w) for y in range(h)]
        src = rng.choice(chips)
        dests = [rng.choice(chips) for _ in range(rng.choice((1, 2, 4, 9)))]
        traces.append(ner_trace(w, h, wrap, src, dests, rng.choice((0, 1, 2, 20)), chk.seed * 100000 + i))
    # broadcast-sized nets: the tree already holds more chips than a neighbourhood search of small radius looks at,
    # so the search scans the tree instead (a different code path), on tori where the nearest tree chip is across a seam
    for i in range(chk.pick(80, 2000)):
        w, h = rng.choice(((6, 6), (8, 8), (9, 9), (7, 10), (12, 5), (10, 10), (3, 14), (16, 4)))
        wrap = rng.random() < 0.8
        chips = [(x, y) for x in range(w) for y in range(h)]
        src = rng.choice(chips)
        dests = rng.sample(chips, max(1, int(len(chips) * rng.choice((0.3, 0.5, 0.8, 1.0)))))
        traces.append(ner_trace(w, h, wrap, src, dests, rng.choice((1, 1, 2, 3)), chk.seed * 100000 + 50000 + i))
    # random machines with faults, several nets per call
    for i in range(chk.pick(900, 30000)):
        m = gen.random_machine(rng, maxw=chk.pick(8, 16), maxh=chk.pick(8, 16), p_dead_chip=rng.choice((0, 0.05, 0.15)))
        vertices, placements, allocations, endpoints, nets = random_problem(rng, m, rng.randint(1, 4))
        core = Cores
        if rng.random() < 0.25:
            # the caller's own name for the core resource (allocations of the default name are then no cores)
            core = "processor"
            allocations = {v: {(core if r is Cores else r): sl for r, sl in a.items()} for v, a in allocations.items()}
            if rng.random() < 0.3 and vertices:
                allocations[vertices[0]] = dict(allocations[vertices[0]])
                allocations[vertices[0]][Cores] = slice(0, 2)
        traces.append(route_trace(m, nets, placements, allocations, endpoints, rng.choice((0, 1, 2, 20)),
                                  chk.seed * 100000 + i, vertices, core))
    # ---- families added by the coverage audit (see the docstrings)
    nold = len(traces)
    for fam in (broadcast_on_faults, big_machines, caller_shapes, machine_histories, ner_shapes, long_detours):
        k = len(traces)
        for t in fam(chk, rng):
            traces.append(t)
        chk.count("calls: " + fam.__name__, len(traces) - k)
    ntree = 0
    for t in traces:
        raised = t["ev"][-1][0] == "raise"
        k = sum(1 for e in t["ev"] if e[0] == "tree")
        ntree += k
        chk.count("calls that raised" if raised else "calls that returned")
        chk.note_case((t["w"], t["h"], t["dead"], t["deadlinks"], t["radius"], t["seed"], str(t["ev"])[:2000]),
                      nontrivial=bool(t["deadlinks"] or t["dead"]))
    chk.count("trees judged", ntree)
    chk.rule = ("small scope: %d calls on machines up to 3x3 / 1x5 / 2x5 (torus and mesh) with every set of <= %d dead "
                "directed links drawn from %s machines, random source, 1-3 sinks, radius 0/1/20; ner_net alone (incl. broadcast-sized nets on tori, radius 1-3) on "
                "fault-free tori/meshes incl. 1xN, 2xN; random machines up to %dx%d with dead chips and 0-40%% dead links "
                "(one- and two-directional), 1-4 nets per call with repeated sinks, sinks on the source chip, zero-core "
                "and endpoint vertices; non-trivial = machine has a fault; distinct = distinct (machine, radius, "
                "seed, result); audit families (%d calls): nets reaching 30-100%% of the chips of faulty machines up "
                "to 12x12 through route(); machines up to 36x24 (48x24 thorough) with SpiNN-5 shaped and block-shaped "
                "clusters of dead chips, 1x40 / 40x2 rings; cut rings and walls across large meshes (detours of 10-25 "
                "hops); route() with allocations / radius defaulted, partial allocations, constraints of other kinds "
                "mixed in, constraints and nets as tuple / iterator / deque, vertices that are ints / tuples / "
                "instances / unorderable mixtures, nets without sinks, endpoint constraints naming cores, radii "
                "0-40; one Machine object changed in place between three calls (used links / passed chips die, dead "
                "links revive); ner_net with list / tuple / iterator destinations, no destinations, defaults"
                % (nsmall, chk.pick(2, 3), chk.extra.get("small_scope_machines_available"),
                   chk.pick(8, 16), chk.pick(8, 16), len(traces) - nold))
    chk.exhaustive = False
    chk.sample(traces[0]); chk.sample(traces[nsmall + 1]); chk.sample(traces[nold - 1])

    # ---- beyond C03: the Machine model's own utilities against the fabric of Hex.tla
    extras = []
    for i in range(chk.pick(300, 4000)):
        m = gen.random_machine(rng, maxw=6, maxh=6, p_dead_chip=rng.choice((0, 0.1, 0.3)))
        tr = proj.machine_json(m)
        evs = []
        try:
            evs.append(["chips", [[x, y] for (x, y) in m]])
            evs.append(["links", [[x, y, int(l)] for (x, y, l) in m.iter_links()]])
            evs.append(["wrap", 1 if m.has_wrap_around_links() else 0])
            o = Machine(m.width, m.height, chip_resources=dict(m.chip_resources), dead_chips=set(m.dead_chips),
                        dead_links=set(m.dead_links))
            r = rng.random()
            if r < 0.4 and o.dead_links:
                o.dead_links.discard(rng.choice(sorted(o.dead_links)))       # other has more
            elif r < 0.7:
                o.dead_links.add((rng.randrange(m.width), rng.randrange(m.height), Links(rng.randrange(6))))
            elif r < 0.85 and o.dead_chips:
                o.dead_chips.discard(rng.choice(sorted(o.dead_chips)))
            evs.append(["subset", proj.machine_json(o), 1 if m.issubset(o) else 0])
        except Exception as ex:
            evs.append(["raise", type(ex).__name__])
        tr["ev"] = evs
        extras.append(tr)
    chk.validate_beyond("MachineModelTrace", "MachineModelTrace.cfg", extras,
                        "Machine.__iter__ / iter_links / has_wrap_around_links / issubset against the fabric", batch=4000)

    def key_of(tr, i, clauses):
        e = tr["ev"][i - 1]
        base = "machine=%dx%d dead=%s deadlinks=%s radius=%s seed=%s" % (
            tr["w"], tr["h"], tr["dead"], tr["deadlinks"], tr["radius"], tr["seed"])
        if e[0] == "tree":
            return "tree %s src=%s sinks=%s %s" % (",".join(clauses), e[1]["src"],
                                                 [s[1:3] for s in e[1]["sinks"]], base)
        return "%s %s %s nets=%s" % (e[0], ",".join(clauses), base, tr.get("nets"))

    chk.validate("RoutingTreeTrace", "RoutingTreeTrace.cfg", traces, key_of=key_of, batch=2500)


def selftest(chk):
    m = Machine(3, 3, dead_links={(0, 0, Links.east)})
    placements = {"s": (0, 0), "a": (2, 0), "b": (1, 1)}
    allocations = {"s": {Cores: slice(0, 1)}, "a": {Cores: slice(1, 3)}, "b": {Cores: slice(0, 1)}}
    good = route_trace(m, [Net("s", ["a", "b"])], placements, allocations, {}, 20, 1, ["s", "a", "b"])
    import copy

    def mut(f):
        t = copy.deepcopy(good); f(t["ev"][0][1]); return t
    cases = [
        (good, None),
        (mut(lambda t: t["leaves"].pop()), "LeavesExact"),
        (mut(lambda t: t["leaves"][0].__setitem__(1, 23)), "LeavesExact"),
        (mut(lambda t: t["edges"][0].__setitem__(2, t["edges"][-1][2])), "IsTree"),
        (mut(lambda t: t["nodes"].append(list(t["nodes"][0]))), "ChipOnce"),
        (mut(lambda t: t["edges"][0].__setitem__(1, (t["edges"][0][1] + 1) % 6)), "HopsLive"),
        (mut(lambda t: t.__setitem__("src", [1, 2])), "RootAtSource"),
        (dict(good, ev=[["raise", "MachineHasDisconnectedSubregion"]]), "FailsOnlyIfDisconnected"),
        (dict(good, ev=[["raise", "AssertionError"]]), "OnlyDisconnectedError"),
        (dict(good, ev=[["notree", "KeyError"], ["ok"]]), "EveryNetHasATree"),
        (dict(good, ev=[["malformed", "KeyError"], ["ok"]]), "TreeIsWellFormed"),
    ]
    # a tree that steps over the dead link must be rejected
    bad = copy.deepcopy(good)
    bad["ev"][0][1].update(nodes=[[0, 0], [1, 0], [2, 0], [1, 1]], edges=[[1, 0, 2], [2, 0, 3], [2, 2, 4]],
                           leaves=[[3, 7, 1], [3, 8, 1], [4, 6, 2]])
    cases.append((bad, "HopsLive"))
    rej = chk.validate("RoutingTreeTrace", "RoutingTreeTrace.cfg", [c[0] for c in cases])
    got = {id(t): cl for t, _, cl in rej}
    msgs = []
    for tr, want in cases:
        cl = got.get(id(tr))
        if (want is None) != (cl is None) or (want and want not in cl):
            msgs.append("expected %s, got %s" % (want, cl))
    return not msgs, "; ".join(msgs) or "%d corrupted traces rejected with the expected clauses" % (len(cases) - 1)
