"""C03 - routing trees are loop-free, connected, use only live hardware.

D: NerRepairDesign.tla - the dead-link repair as a state machine (every small tree x fault set).
T: every tree returned by rig's route() (and by ner_net alone on fault-free machines) is one event judged by
   RoutingTreeTrace.tla; a failure of route() is judged against the spec's own connectivity of the machine.
"""
import itertools
import random

from rig.links import Links
from rig.netlist import Net
from rig.place_and_route import Machine, Cores, SDRAM
from rig.place_and_route.constraints import RouteEndpointConstraint
from rig.place_and_route.route.ner import route, ner_net
from rig.place_and_route.route import utils as route_utils
from rig import geometry
from rig.routing_table import Routes

from .. import gen, proj


def sink_records(net, vidx, placements, allocations, endpoints, core=Cores):
    out = []
    for s in net.sinks:
        x, y = placements[s]
        if s in endpoints:
            out.append([vidx[s], x, y, "endpoint", int(endpoints[s]), 0])
        elif core in allocations.get(s, {}):
            sl = allocations[s][core]
            out.append([vidx[s], x, y, "cores", sl.start, sl.stop])
        else:
            out.append([vidx[s], x, y, "none", 0, 0])
    return out


def route_trace(machine, nets, placements, allocations, endpoints, radius, seed, vertices, core=Cores):
    vidx = {v: i for i, v in enumerate(vertices)}
    cons = [RouteEndpointConstraint(v, r) for v, r in endpoints.items()]
    tr = proj.machine_json(machine)
    tr["radius"] = radius
    tr["seed"] = seed
    evs = []
    random.seed(seed)
    try:
        if core is Cores and seed % 2:
            routes = route({v: {} for v in vertices}, nets, machine, cons, placements, allocations, radius=radius)
        else:
            routes = route({v: {} for v in vertices}, nets, machine, cons, placements, allocations, core, radius)
    except Exception as ex:
        evs.append(["raise", type(ex).__name__])
        tr["nets"] = [[list(placements[n.source]), [list(placements[s]) for s in n.sinks]] for n in nets]
    else:
        for n in nets:
            nodes, edges, leaves = proj.flatten_tree(routes[n], vidx)
            evs.append(["tree", dict(src=list(placements[n.source]),
                                     sinks=sink_records(n, vidx, placements, allocations, endpoints, core),
                                     nodes=nodes, edges=edges, leaves=leaves)])
        evs.append(["ok"])
    tr["ev"] = evs
    return tr


def ner_trace(w, h, wrap, src, dests, radius, seed):
    """ner_net alone on a fault-free machine (the tree has no leaves yet)"""
    m = Machine(w, h, dead_links=set() if wrap else gen.mesh_dead_links(w, h))
    tr = proj.machine_json(m)
    tr["radius"] = radius
    tr["seed"] = seed
    random.seed(seed)
    evs = []
    try:
        root, lookup = ner_net(src, set(dests), w, h, wrap, radius)
    except Exception as ex:
        evs.append(["raise", type(ex).__name__])
    else:
        nodes, edges, leaves = proj.flatten_tree(root, {})
        # sinks that get no leaf (kind "cores" with an empty range): only their chip must be in the tree
        sinks = [[i, d[0], d[1], "cores", 0, 0] for i, d in enumerate(sorted(set(dests)))]
        evs.append(["tree", dict(src=list(src), sinks=sinks, nodes=nodes, edges=edges, leaves=leaves)])
        evs.append(["ok"])
    tr["ev"] = evs
    return tr


def random_problem(rng, machine, nnets):
    chips = list(machine)
    nv = rng.randint(1, min(24, 3 * len(chips)))
    vertices = ["v%d" % i for i in range(nv)]
    placements = {v: rng.choice(chips) for v in vertices}
    allocations, endpoints = {}, {}
    nxt = {}
    for v in vertices:
        r = rng.random()
        if r < 0.08:
            endpoints[v] = Routes(rng.randrange(6))           # device vertex: route to a link
            # it may or may not own cores as well (e.g. {Cores: 0} gives an empty range); the endpoint wins
            k = rng.choice((None, None, 0, 1))
            allocations[v] = {} if k is None else {Cores: slice(17 - k, 17)}
        elif r < 0.14:
            allocations[v] = {SDRAM: slice(0, 4)}              # no core resource at all
        else:
            c = placements[v]
            n = rng.choice((0, 1, 1, 1, 2, 3))
            a = nxt.get(c, 0)
            if a + n > 18:
                a, n = 0, 1
            allocations[v] = {Cores: slice(a, a + n)}
            nxt[c] = a + n
    nets = []
    for _ in range(nnets):
        src = rng.choice(vertices)
        k = rng.choice((1, 1, 2, 3, 5, 8))
        sinks = [rng.choice(vertices) for _ in range(k)]       # repeated sinks and self-loops allowed
        nets.append(Net(src, sinks, rng.choice((1, 0, 2.5))))
    return vertices, placements, allocations, endpoints, nets


def small_scope(chk, rng):
    """tiny machines x dead directed link sets x source x sink sets x radius"""
    shapes = [(1, 1), (1, 2), (2, 1), (1, 3), (2, 2), (2, 3), (3, 2), (3, 3), (1, 5), (5, 1), (2, 5)]
    nfault = chk.pick(2, 3)
    budget = chk.pick(2500, 120000)
    combos = []
    for (w, h) in shapes:
        links = gen.all_links(w, h)
        chips = [(x, y) for x in range(w) for y in range(h)]
        for mesh in (False, True):
            base = gen.mesh_dead_links(w, h) if mesh else set()
            cand = [l for l in links if l not in base]
            for k in range(0, nfault + 1):
                for dl in itertools.combinations(cand, k):
                    combos.append((w, h, frozenset(base | set(dl)), chips))
    rng.shuffle(combos)
    chk.extra["small_scope_machines_available"] = len(combos)
    per = max(1, budget // max(1, min(len(combos), budget)))
    n = 0
    for (w, h, dead, chips) in combos:
        if n >= budget:
            break
        m = Machine(w, h, dead_links=set(dead))
        for _ in range(per):
            src = rng.choice(chips)
            sinks = [rng.choice(chips) for _ in range(rng.randint(1, 3))]
            vertices = ["s"] + ["t%d" % i for i in range(len(sinks))]
            placements = {"s": src}
            allocations = {"s": {Cores: slice(0, 1)}}
            for i, c in enumerate(sinks):
                placements["t%d" % i] = c
                allocations["t%d" % i] = {Cores: slice(1 + i, 2 + i)}
            net = Net("s", ["t%d" % i for i in range(len(sinks))])
            for radius in (0, 1, 20):
                n += 1
                yield route_trace(m, [net], placements, allocations, {}, radius, n, vertices)


def seam_problems(chk, rng):
    """non-square tori with a dead chip (and no dead link listed) next to a wrap-around seam, and nets whose straight
    path runs through that chip over the seam: the repair has to work with coordinates taken modulo the right side"""
    n = 0
    for (w, h) in chk.pick(((5, 6), (3, 7), (1, 6), (6, 1), (3, 4), (7, 3)), ((5, 6), (3, 7), (1, 6), (6, 1), (3, 4), (7, 3),
                                                                              (2, 3), (4, 5), (6, 7), (4, 9), (9, 4), (2, 9))):
        spots = [("y", x, h - 1) for x in range(w)] + [("x", w - 1, y) for y in range(h)]
        for axis, dx, dy in (spots if not chk.quick else rng.sample(spots, min(len(spots), 5))):
            if w * h < 3:
                continue
            m = Machine(w, h, dead_chips={(dx, dy)})
            if axis == "y" and h >= 3:
                src, sinks = (dx, h - 2), [(dx, 0), (dx, 1 % h)]
            elif axis == "x" and w >= 3:
                src, sinks = (w - 2, dy), [(0, dy), (1 % w, dy)]
            else:
                continue
            sinks = [c for c in sinks if c != (dx, dy) and c != src] or [src]
            for a, b in ((src, sinks), (sinks[0], [src])):
                vertices = ["s"] + ["t%d" % i for i in range(len(b))]
                placements = {"s": a}
                allocations = {"s": {Cores: slice(0, 1)}}
                for i, c in enumerate(b):
                    placements["t%d" % i] = c
                    allocations["t%d" % i] = {Cores: slice(1 + i, 2 + i)}
                net = Net("s", ["t%d" % i for i in range(len(b))])
                for radius in (0, 20):
                    n += 1
                    yield route_trace(m, [net], placements, allocations, {}, radius, 7000 + n, vertices)


def run(chk):
    rng = random.Random(chk.seed)
    chk.design("NerRepairDesign", "NerRepairDesign_%s.cfg" % chk.tier,
               expect_actions=("ReconnectAny", "Disconnect", "Grow", "Break", "Finish"))
    # the rule the pinned tree implemented ("search the orphan's current subtree") must be refuted by TLC:
    # this is what makes the invariant non-vacuous and documents why the order of enumeration matters
    r = chk.design("NerRepairDesign", "NerRepairDesign_pinned.cfg", allow_error=True, label="expected to fail")
    if r.ok or "AtMostOneParent" not in (r.error or ""):
        from ..core import MachineryError
        raise MachineryError("NerRepairDesign with Rule=search-current should violate AtMostOneParent: %s" % r.error)
    chk.count("design variants refuted as expected (pinned repair rule)")
    traces = []
    for t in small_scope(chk, rng):
        traces.append(t)
    for t in seam_problems(chk, rng):
        traces.append(t)
    nsmall = len(traces)
    # ner_net alone, fault free: all sizes incl. 1xN / 2xN, torus and mesh
    for i in range(chk.pick(600, 15000)):
        w, h = rng.choice(((1, 1), (1, 4), (4, 1), (2, 2), (2, 7), (7, 2), (3, 3), (5, 4), (8, 8), (12, 3), (9, 9)))
        wrap = rng.random() < 0.6
        chips = [(x, y) for x in range(w) for y in range(h)]
        src = rng.choice(chips)
        dests = [rng.choice(chips) for _ in range(rng.choice((1, 2, 4, 9)))]
        traces.append(ner_trace(w, h, wrap, src, dests, rng.choice((0, 1, 2, 20)), chk.seed * 100000 + i))
    # broadcast-sized nets: the tree already holds more chips than a neighbourhood search of small radius looks at,
    # so the search scans the tree instead (a different code path), on tori where the nearest tree chip is across a seam
    for i in range(chk.pick(80, 2000)):
        w, h = rng.choice(((6, 6), (8, 8), (9, 9), (7, 10), (12, 5), (10, 10), (3, 14), (16, 4)))
        wrap = rng.random() < 0.8
        chips = [(x, y) for x in range(w) for y in range(h)]
        src = rng.choice(chips)
        dests = rng.sample(chips, max(1, int(len(chips) * rng.choice((0.3, 0.5, 0.8, 1.0)))))
        traces.append(ner_trace(w, h, wrap, src, dests, rng.choice((1, 1, 2, 3)), chk.seed * 100000 + 50000 + i))
    # random machines with faults, several nets per call
    for i in range(chk.pick(900, 30000)):
        m = gen.random_machine(rng, maxw=chk.pick(8, 16), maxh=chk.pick(8, 16), p_dead_chip=rng.choice((0, 0.05, 0.15)))
        vertices, placements, allocations, endpoints, nets = random_problem(rng, m, rng.randint(1, 4))
        core = Cores
        if rng.random() < 0.25:
            # the caller's own name for the core resource (allocations of the default name are then no cores)
            core = "processor"
            allocations = {v: {(core if r is Cores else r): sl for r, sl in a.items()} for v, a in allocations.items()}
            if rng.random() < 0.3 and vertices:
                allocations[vertices[0]] = dict(allocations[vertices[0]])
                allocations[vertices[0]][Cores] = slice(0, 2)
        traces.append(route_trace(m, nets, placements, allocations, endpoints, rng.choice((0, 1, 2, 20)),
                                  chk.seed * 100000 + i, vertices, core))
    ntree = 0
    for t in traces:
        raised = t["ev"][-1][0] == "raise"
        k = sum(1 for e in t["ev"] if e[0] == "tree")
        ntree += k
        chk.count("calls that raised" if raised else "calls that returned")
        chk.note_case((t["w"], t["h"], t["dead"], t["deadlinks"], t["radius"], t["seed"], str(t["ev"])[:2000]),
                      nontrivial=bool(t["deadlinks"] or t["dead"]))
    chk.count("trees judged", ntree)
    chk.rule = ("small scope: %d calls on machines up to 3x3 / 1x5 / 2x5 (torus and mesh) with every set of <= %d dead "
                "directed links drawn from %s machines, random source, 1-3 sinks, radius 0/1/20; ner_net alone (incl. broadcast-sized nets on tori, radius 1-3) on "
                "fault-free tori/meshes incl. 1xN, 2xN; random machines up to %dx%d with dead chips and 0-40%% dead links "
                "(one- and two-directional), 1-4 nets per call with repeated sinks, sinks on the source chip, zero-core "
                "and endpoint vertices; non-trivial = machine has a fault; distinct = distinct (machine, radius, "
                "seed, result)" % (nsmall, chk.pick(2, 3), chk.extra.get("small_scope_machines_available"),
                                   chk.pick(8, 16), chk.pick(8, 16)))
    chk.exhaustive = False
    chk.sample(traces[0]); chk.sample(traces[nsmall + 1]); chk.sample(traces[-1])

    # ---- beyond C03: the Machine model's own utilities against the fabric of Hex.tla
    extras = []
    for i in range(chk.pick(300, 4000)):
        m = gen.random_machine(rng, maxw=6, maxh=6, p_dead_chip=rng.choice((0, 0.1, 0.3)))
        tr = proj.machine_json(m)
        evs = []
        try:
            evs.append(["chips", [[x, y] for (x, y) in m]])
            evs.append(["links", [[x, y, int(l)] for (x, y, l) in m.iter_links()]])
            evs.append(["wrap", 1 if m.has_wrap_around_links() else 0])
            o = Machine(m.width, m.height, chip_resources=dict(m.chip_resources), dead_chips=set(m.dead_chips),
                        dead_links=set(m.dead_links))
            r = rng.random()
            if r < 0.4 and o.dead_links:
                o.dead_links.discard(rng.choice(sorted(o.dead_links)))       # other has more
            elif r < 0.7:
                o.dead_links.add((rng.randrange(m.width), rng.randrange(m.height), Links(rng.randrange(6))))
            elif r < 0.85 and o.dead_chips:
                o.dead_chips.discard(rng.choice(sorted(o.dead_chips)))
            evs.append(["subset", proj.machine_json(o), 1 if m.issubset(o) else 0])
        except Exception as ex:
            evs.append(["raise", type(ex).__name__])
        tr["ev"] = evs
        extras.append(tr)
    chk.validate_beyond("MachineModelTrace", "MachineModelTrace.cfg", extras,
                        "Machine.__iter__ / iter_links / has_wrap_around_links / issubset against the fabric", batch=4000)

    def key_of(tr, i, clauses):
        e = tr["ev"][i - 1]
        base = "machine=%dx%d dead=%s deadlinks=%s radius=%s seed=%s" % (
            tr["w"], tr["h"], tr["dead"], tr["deadlinks"], tr["radius"], tr["seed"])
        if e[0] == "tree":
            return "tree %s src=%s sinks=%s %s" % (",".join(clauses), e[1]["src"],
                                                 [s[1:3] for s in e[1]["sinks"]], base)
        return "%s %s %s nets=%s" % (e[0], ",".join(clauses), base, tr.get("nets"))

    chk.validate("RoutingTreeTrace", "RoutingTreeTrace.cfg", traces, key_of=key_of, batch=2500)


def selftest(chk):
    m = Machine(3, 3, dead_links={(0, 0, Links.east)})
    placements = {"s": (0, 0), "a": (2, 0), "b": (1, 1)}
    allocations = {"s": {Cores: slice(0, 1)}, "a": {Cores: slice(1, 3)}, "b": {Cores: slice(0, 1)}}
    good = route_trace(m, [Net("s", ["a", "b"])], placements, allocations, {}, 20, 1, ["s", "a", "b"])
    import copy

    def mut(f):
        t = copy.deepcopy(good); f(t["ev"][0][1]); return t
    cases = [
        (good, None),
        (mut(lambda t: t["leaves"].pop()), "LeavesExact"),
        (mut(lambda t: t["leaves"][0].__setitem__(1, 23)), "LeavesExact"),
        (mut(lambda t: t["edges"][0].__setitem__(2, t["edges"][-1][2])), "IsTree"),
        (mut(lambda t: t["nodes"].append(list(t["nodes"][0]))), "ChipOnce"),
        (mut(lambda t: t["edges"][0].__setitem__(1, (t["edges"][0][1] + 1) % 6)), "HopsLive"),
        (mut(lambda t: t.__setitem__("src", [1, 2])), "RootAtSource"),
        (dict(good, ev=[["raise", "MachineHasDisconnectedSubregion"]]), "FailsOnlyIfDisconnected"),
        (dict(good, ev=[["raise", "AssertionError"]]), "OnlyDisconnectedError"),
    ]
    # a tree that steps over the dead link must be rejected
    bad = copy.deepcopy(good)
    bad["ev"][0][1].update(nodes=[[0, 0], [1, 0], [2, 0], [1, 1]], edges=[[1, 0, 2], [2, 0, 3], [2, 2, 4]],
                           leaves=[[3, 7, 1], [3, 8, 1], [4, 6, 2]])
    cases.append((bad, "HopsLive"))
    rej = chk.validate("RoutingTreeTrace", "RoutingTreeTrace.cfg", [c[0] for c in cases])
    got = {id(t): cl for t, _, cl in rej}
    msgs = []
    for tr, want in cases:
        cl = got.get(id(tr))
        if (want is None) != (cl is None) or (want and want not in cl):
            msgs.append("expected %s, got %s" % (want, cl))
    return not msgs, "; ".join(msgs) or "%d corrupted traces rejected with the expected clauses" % (len(cases) - 1)
