"""C13 - file-like memory views behave as bounded files and stay in their region.

D: FileViewDesign.tla - every history of <= MaxSteps operations on a root view and <= 2 slices, carried out by the
   rules of FileView.tla: confinement (view, allocation, neighbours' bytes), reads-last-written, position
   bookkeeping, truncation, the slice rule against Python's clip-free definition, dead views.
T: real MemoryIO / SlicedMemoryIO objects over a recording controller (a MachineController subclass whose
   read / write / sdram_free / sdram_alloc are replaced by an in-memory window much larger than the view and a log
   of every access).  One event per operation: arguments, result / exception class, TruncationWarnings, the accesses
   it caused and tell() straight after it; closed by the final content of the whole window.  Judged by
   FileViewTrace.tla.  Root views are built directly (MemoryIO(...), including end < start) and through the real
   rig.machine_control.utils.sdram_alloc_for_vertices -> MachineController.sdram_alloc_as_filelike.
   Controller accesses may FAIL: the recording controller raises (an SCP time-out / a fatal return code / an
   OSError) on the access of a chosen read or write; through the real controller the simulated network loses
   every transmission of one command of the chosen operation (SCP runs out of tries), or delivers the replies of
   the operation's commands late, so that each is retransmitted and answered twice, the last duplicate arriving
   during the next operation.  A failed access is recorded ("rx" / "wx": attempted there, nothing transferred);
   the operations after it (tell, reads, writes, seeks) are judged like all others.

This file contains no oracle: it drives rig, records what happened and encodes it.
"""
import itertools
import json
import random
import warnings

from rig.machine_control.machine_controller import (MachineController, MemoryIO, SlicedMemoryIO,
                                                     TruncationWarning)
from rig.machine_control import utils as mc_utils
from rig.machine_control import scp_connection as scp_mod
from rig.place_and_route import Cores, SDRAM
from rig.utils.contexts import ContextMixin

from .. import tlc as tlcmod

WIN = 32            # bytes of recorded memory
BIGWIN = 320        # ... for the few long views
READ_CAP = 4096     # the recording controller answers at most this many bytes
INT_LIMIT = 2 ** 31 - 1


class RecordingController(MachineController):
    """Stands in for the machine: a window of memory [origin, origin + len(mem)) and a log of every access.
    Only what the views call is replaced; sdram_alloc_as_filelike is rig's own."""

    def __init__(self, origin, mem):
        ContextMixin.__init__(self, {"app_id": 66})
        self.origin = origin
        self.initial = bytes(mem)
        self.mems = {}                      # every chip has its own copy of the window
        self.log = []
        self.next_alloc = None
        self.plan = None                    # {(x, y): address the allocator hands out on that chip}
        self.fault = None                   # armed by History.perform for one operation: ("fail", class index)

    def mem_at(self, x, y):
        return self.mems.setdefault((x, y), bytearray(self.initial))

    def arm(self, fault):
        self.fault = fault if fault and fault[0] == "fail" else None

    def disarm(self):
        self.fault = None

    def failing(self, kind, address, n, x, y):
        """the armed access fails: recorded as attempted, nothing is transferred, the machine's error is raised"""
        if self.fault is None:
            return
        which, self.fault = self.fault[1], None
        self.log.append([kind, address - self.origin, n, [], x, y])
        if which % 3 == 0:
            raise scp_mod.TimeoutError("No response after 5 attempts.")
        if which % 3 == 1:
            raise scp_mod.FatalReturnCodeError(0x88)
        raise OSError(101, "Network is unreachable")

    def read(self, address, length_bytes, x, y, p=0):
        self.failing("rx", address, length_bytes, x, y)
        mem = self.mem_at(x, y)
        # (an absurdly long read - only a view that failed to clip asks for one - is answered with its first
        # READ_CAP bytes, so that the driver survives; the recorded length is the one asked for)
        n = max(0, min(length_bytes, READ_CAP))
        lo = address - self.origin
        data = bytes(bytearray(mem[lo + i] if 0 <= lo + i < len(mem) else 0 for i in range(n)))
        self.log.append(["r", address - self.origin, length_bytes, list(bytearray(data)), x, y])
        return data

    def write(self, address, data, x, y, p=0):
        data = bytes(data)
        self.failing("wx", address, len(data), x, y)
        mem = self.mem_at(x, y)
        self.log.append(["w", address - self.origin, len(data), list(bytearray(data)), x, y])
        for i, b in enumerate(bytearray(data)):
            j = address + i - self.origin
            if 0 <= j < len(mem):
                mem[j] = b

    def sdram_free(self, ptr, x, y):
        self.log.append(["f", ptr - self.origin, 0, [], x, y])

    def sdram_alloc(self, size, tag=0, x=None, y=None, app_id=None, clear=False):
        if self.plan is not None:
            return self.plan[(x, y)]
        return self.next_alloc

    def close(self):
        pass


class StackController(MachineController):
    """The same window of memory, but on the simulated machine, reached through rig's own read / write, the real
    SCPConnection and the simulated network (a 4- or 5-byte data buffer, so that an 8-byte view already spans
    several commands).  read and write only add the log entry."""

    def __init__(self, origin, mem, x, y, bufsize):
        import pkg_resources
        from rig.machine_control import scp_connection, machine_controller
        from ..env.spinnaker_sim import SimMachine
        from ..env.simnet import SimNet
        self.sim = SimMachine(4, 4, pkg_resources.resource_string("rig", "boot/sark.struct").decode(),
                              buffer_size=bufsize, legacy_version=True, name="SCMP")
        self.net = SimNet(self.sim)
        self.net.install(scp_connection, machine_controller)
        MachineController.__init__(self, "sim", initial_context={"app_id": 66})
        self.origin, self.n, self.bufsize = origin, len(mem), bufsize
        for c in self.sim.chips.values():
            c.write(origin, bytes(mem))
        self.log = []
        self.next_alloc = None
        self.plan = None
        self.installed = True
        self.fault = None                   # armed by History.perform for one operation
        self.seen = []                      # the distinct datagrams sent since the fault was armed
        self.sent = {}                      # ... and how often each was transmitted
        self.lost = False                   # a "fail" fault has lost a transmission
        self.net.fate = self.fate

    def mem_at(self, x, y):
        return bytearray(self.sim.chips[(x, y)].read(self.origin, self.n))

    # datagram faults.  ("fail", k, how): every transmission of the k-th command sent during the operation is lost
    # (how = 0: the request; 1: the reply, reads only) - SCP runs out of tries; ("late", ): the replies to the first
    # two transmissions of every command of the operation are delivered late (the first after the time-out, i.e.
    # after the retransmission; the second after the next datagram has been sent - for the operation's last
    # command that is the first command of the next operation)
    def arm(self, fault):
        self.fault, self.seen, self.sent, self.lost = fault, [], {}, False

    def disarm(self):
        self.fault = None

    def fate(self, n, data=b""):
        if self.fault is None:
            return "ok"
        if data not in self.seen:
            self.seen.append(data)
        self.sent[data] = self.sent.get(data, 0) + 1
        if self.fault[0] == "fail":
            if self.seen.index(data) == self.fault[1]:
                self.lost = True
                return "lose_reply" if self.fault[2] else "lose_request"
            return "ok"
        return "hold_reply" if self.sent[data] <= 2 else "ok"

    def read(self, address, length_bytes, x, y, p=0):
        try:
            data = MachineController.read(self, address, length_bytes, x, y, p)
        except Exception:
            if self.lost:                   # (only a failure the network caused is recorded as one)
                self.log.append(["rx", address - self.origin, length_bytes, [], x, y])
            raise
        self.log.append(["r", address - self.origin, length_bytes, list(bytearray(data)), x, y])
        return data

    def write(self, address, data, x, y, p=0):
        data = bytes(data)
        try:
            MachineController.write(self, address, data, x, y, p)
        except Exception:
            if not self.lost:
                self.log.append(["w", address - self.origin, len(data), list(bytearray(data)), x, y])
            else:                           # (the lost command was the write's first: nothing was stored)
                self.log.append(["wx", address - self.origin, len(data), [], x, y])
            raise
        self.log.append(["w", address - self.origin, len(data), list(bytearray(data)), x, y])

    def sdram_free(self, ptr, x, y):
        self.log.append(["f", ptr - self.origin, 0, [], x, y])

    def sdram_alloc(self, size, tag=0, x=None, y=None, app_id=None, clear=False):
        if self.plan is not None:
            return self.plan[(x, y)]
        return self.next_alloc

    def close(self):
        if self.installed:
            self.net.uninstall()
            self.installed = False


def opt(f):
    """[value] or [] if the observation raised / is not an integer"""
    try:
        v = f()
    except Exception:
        return []
    return [v] if isinstance(v, int) and not isinstance(v, bool) else []


def fault_text(fault):
    if fault[0] == "late":
        return "the replies to its commands arrive late (each command is sent again and answered twice)"
    if len(fault) == 2:
        return "its controller access raises %s" % ("TimeoutError", "FatalReturnCodeError", "OSError")[fault[1] % 3]
    return "every transmission of the %s of its command number %d is lost" % (("request", "reply")[fault[2]], fault[1])


def describe(op):
    """the operation as Python text (for people and for hashing; the specification never reads it)"""
    name, vid, args = op[:3]
    if len(op) > 3 and op[3]:
        return "%s  # %s" % (describe(op[:3]), fault_text(op[3]))
    v = "v%d" % vid
    if name == "slice":
        return "v_new = %s[%s]" % (v, ":".join("" if a is None else str(a) for a in args))
    if name == "seek":
        return "%s.seek(%s)" % (v, args[0] if args[1] is None else "%d, %d" % args)
    if name in ("address",):
        return "%s.address" % v
    if name == "len":
        return "len(%s)" % v
    if name == "close" and args:
        return "with %s: pass" % v
    return "%s.%s(%s)" % (v, name, ", ".join(repr(a) for a in args))


def make_ghost(ctrl, ghost, x, y):
    """an earlier allocation of ghost[0] bytes on chip (x, y) through the controller's public call, used as
    ghost[1] says and freed; whatever it does is not judged (it is the past of the history that is)"""
    try:
        with warnings.catch_warnings():
            warnings.simplefilter("ignore")
            g = ctrl.sdram_alloc_as_filelike(ghost[0], x=x, y=y)
            part = g[1:]
            for step in ghost[1]:
                if step == "read":
                    g.read(2)
                elif step == "seek":
                    g.seek(3)
                    part.seek(1)
                elif step == "close":
                    part.close()
                    g.close()
            g.free()
    except Exception:
        pass
    ctrl.log = []


class History(object):
    """One root view over a fresh recording controller; perform() runs one operation and records its event."""

    def __init__(self, origin, mem, start, end, x=1, y=2, via="direct", stack=0, ctrl=None, root=None, extra=None,
                 ghost=None):
        self.shared = ctrl is not None
        if ctrl is None:
            ctrl = StackController(origin, mem, x, y, stack) if stack else RecordingController(origin, mem)
        self.ctrl = ctrl
        self.origin = origin
        self.chip = (x, y)
        # (the origin travels as text: window origins above 2^31 do not fit TLC's integers, and the
        # specification never reads it)
        self.setup = dict(mem=list(bytearray(mem)), start=start, end=end, x=x, y=y, origin=hex(origin), via=via)
        if stack:
            self.setup["stack"] = stack      # (not read by the specification: to run the history again)
        self.fault_rate = 0.0                # share of the random reads / writes whose controller access is disturbed
        if extra:
            self.setup.update(extra)
        self.ev = []
        self.ops = []
        if ghost is not None:
            # the caller's history: an earlier allocation at the same address of the same chip (the allocator
            # hands a released block out again), used, sliced and freed before this one is made
            self.setup["ghost"] = json.dumps(ghost)
            self.ctrl.next_alloc = origin + start
            make_ghost(self.ctrl, ghost, x, y)
        if via == "group":
            pass                             # the root was made by make_group
        elif via == "direct":
            root = MemoryIO(self.ctrl, x, y, origin + start, origin + end)
        else:
            # the real utils.sdram_alloc_for_vertices and MachineController.sdram_alloc_as_filelike
            self.ctrl.next_alloc = origin + start
            got = mc_utils.sdram_alloc_for_vertices(
                self.ctrl, {"v": (x, y)}, {"v": {Cores: slice(3, 4), SDRAM: slice(200, 200 + (end - start))}})
            root = got["v"]
        self.ctrl.log = []
        if isinstance(root, SlicedMemoryIO):
            self.views = [root]
        else:
            # the allocation call did not give this vertex a view: an event no rule of the specification explains
            self.views = []
            self.ev.append(["setup_failed", 0, [str(root)], ["raise", "setup"], [], 0, []])
            self.ops.append("# no view: %s" % (root,))

    def rel(self, lst):
        return [a - self.origin for a in lst]

    def perform(self, op):
        name, vid, args = op[:3]
        fault = tuple(op[3]) if len(op) > 3 and op[3] and name in ("read", "write") else None
        self.ops.append(describe(op))
        v = self.views[vid - 1]
        self.ctrl.log = []
        new_view = None
        self.ctrl.arm(fault)
        with warnings.catch_warnings(record=True) as caught:
            warnings.simplefilter("always")
            try:
                if name == "seek":
                    jargs = [args[0], 0 if args[1] is None else args[1]]
                    v.seek(args[0], args[1]) if args[1] is not None else v.seek(args[0])
                    val = []
                elif name == "tell":
                    jargs = []
                    r = v.tell()
                    val = [r] if isinstance(r, int) else []
                elif name == "read":
                    jargs = list(args)
                    r = v.read(*args)
                    val = list(bytearray(r)) if isinstance(r, (bytes, bytearray)) else [-1]
                elif name == "write":
                    jargs = [list(bytearray(args[0]))]
                    r = v.write(args[0])
                    val = [r] if isinstance(r, int) else []
                elif name == "slice":
                    jargs = [[] if a is None else [a] for a in args]
                    new_view = v[slice(*args)]               # (start, stop) or (start, stop, 1)
                    val = None
                elif name == "close":
                    jargs = list(args)
                    if args and args[0] == "with":
                        with v:
                            pass
                    else:
                        v.close()
                    val = []
                elif name == "free":
                    jargs = []
                    v.free()
                    val = []
                elif name == "flush":
                    jargs = []
                    v.flush()
                    val = []
                elif name == "address":
                    jargs = []
                    r = v.address
                    val = self.rel([r]) if isinstance(r, int) else []
                elif name == "len":
                    jargs = []
                    r = len(v)
                    val = [r]
                else:
                    raise AssertionError(name)
                if new_view is not None:
                    self.views.append(new_view)
                    nlen = opt(lambda: len(new_view))          # -1: len() of the new view raised
                    val = [len(self.views), nlen[0] if nlen else -1, self.rel(opt(lambda: new_view.address)),
                           opt(new_view.tell)]
                out = ["ok", val]
            except AssertionError:
                raise
            except Exception as ex:        # judged by the specification
                out = ["raise", type(ex).__name__]
            self.ctrl.disarm()
            after = opt(v.tell)
        nwarn = sum(1 for w in caught if issubclass(w.category, TruncationWarning))
        acc = self.ctrl.log
        self.ctrl.log = []
        e = [name, vid, jargs, out, acc, nwarn, after]
        if name == "seek":
            # not read by the specification: the view's own len(), so that a rejection of a seek from the end
            # can be keyed by what exactly went wrong (see key_of)
            e.append(opt(lambda: len(v)))
        elif fault:
            # not read by the specification (which sees the failed access among the accesses): the fault that
            # was arranged for this operation, so that the history can be run again
            e.append(list(fault))
        self.ev.append(e)
        return e

    def trace(self, label):
        ev = self.ev + [["end", list(self.ctrl.mem_at(*self.chip))]]
        if isinstance(self.ctrl, StackController):
            if not self.shared:
                self.ctrl.close()
            label += " (through the real controller, connection and simulated machine)"
        return dict(self.setup, ev=ev, label=label, ops=self.ops)


def fits(tr):
    def ok(o):
        if isinstance(o, bool):
            return True
        if isinstance(o, int):
            return abs(o) < INT_LIMIT
        if isinstance(o, (list, tuple)):
            return all(ok(i) for i in o)
        if isinstance(o, dict):
            return all(ok(i) for i in o.values())
        return True
    return ok(tr)


def run_ops(ops, origin, mem, start, end, label, via="direct", x=1, y=2, cut=False, ghost=None, stack=0):
    h = History(origin, mem, start, end, x=x, y=y, via=via, ghost=ghost, stack=stack)
    for op in ops:
        if op[1] > len(h.views):
            if cut:
                break                        # (a slicing failed earlier: the rest cannot be run)
            return None                      # names a view that does not exist in this history
        h.perform(op)
    return h.trace(label)


# ------------------------------------------------------------------------------------------ small scope
def data_for(k, n):
    return bytes(bytearray((0xA0 + 16 * k + i) & 0xFF for i in range(n)))


def alphabet(vid, root):
    ops = []
    for off, wh in ((0, 0), (2, 0), (5, 0), (-1, 0), (1, 1), (-1, 1), (0, 2), (-1, 2), (1, 2)):
        ops.append(("seek", vid, (off, wh)))
    for a in ((), (0,), (2,), (9,)):
        ops.append(("read", vid, a))
    for n in (0, 2, 6):
        ops.append(("write", vid, n))          # data filled in per position in the sequence
    for a in ((1, 3), (None, None), (-1, None), (3, 1), (2, 9), (-9, 2)):
        ops.append(("slice", vid, a))
    for nm in ("tell", "address", "len", "flush", "close"):
        ops.append((nm, vid, ()))
    if root:
        ops.append(("free", vid, ()))
    return ops


def concretise(seq):
    out = []
    for k, op in enumerate(seq):
        nm, vid, a = op[:3]
        if nm == "write":
            out.append((nm, vid, (data_for(k, a),)) + tuple(op[3:]))
        else:
            out.append((nm, vid, a) + tuple(op[3:]))
    return out


def small_scope(chk, rng):
    """(a) every sequence of <= 3 operations of the root alphabet on a 4-byte view; (b) a first slice, then every
    sequence of <= 2 (thorough: <= 3) operations over the slice's alphabet plus a few root operations."""
    mem = bytes(bytearray((7 * i + 1) & 0xFF for i in range(WIN)))
    start, end = 12, 16
    rootal = alphabet(1, True)
    n = 0
    maxlen = 3
    for ln in range(0, maxlen + 1):
        for seq in itertools.product(rootal, repeat=ln):
            t = run_ops(concretise(seq), 88, mem, start, end, "small-root")
            n += 1
            yield t
    slal = alphabet(2, False) + [("write", 1, 6), ("read", 1, ()), ("seek", 1, (1, 0)), ("close", 1, ()),
                                 ("free", 1, ()), ("len", 1, ()), ("slice", 2, (1, None)), ("read", 3, ()),
                                 ("write", 3, 2)]
    depth = chk.pick(2, 3)
    for first in ((1, 3), (-3, None), (0, 9), (2, 2)):
        for ln in range(0, (depth if first == (1, 3) else 2) + 1):
            for seq in itertools.product(slal, repeat=ln):
                t = run_ops(concretise([("slice", 1, first)] + list(seq)), 88, mem, start, end, "small-slice")
                if t is not None:
                    n += 1
                    yield t
    chk.extra["small_scope_domain"] = (
        "4-byte root view at relative addresses 12..15 of a %d-byte window: (a) all sequences of <= %d operations over "
        "%d root operations (9 seeks over the three whences incl. negative / beyond-the-end targets, 4 reads incl. the "
        "default, 3 writes, 6 slicings incl. negative / reversed / absent bounds, tell, address, len, flush, close, "
        "free); (b) a first slice [1:3] (then all sequences of <= %d) / [-3:] / [0:9] / [2:2] (<= 2) operations over %d "
        "operations on the slice, the root and a slice of the slice" % (WIN, maxlen, len(rootal), depth, len(slal)))
    chk.extra["small_scope_traces"] = n


# ------------------------------------------------------------------------------------------ random histories
def peek(v):
    """position and length as the view itself reports them (None if it refuses); used only to shape inputs"""
    try:
        n = len(v)
    except Exception:
        n = 4
    try:
        return v.tell(), n
    except Exception:
        return None, n


FAR = (0x10000 - 8, 0x10000, 2 ** 20 + 3, 2 ** 30, 2 ** 31 - 2)
WEIGHTS = [("seek", 25), ("read", 20), ("write", 20), ("slice", 12), ("tell", 4), ("address", 3), ("len", 3),
           ("flush", 2), ("close", 3), ("free", 1)]


BUSY = [("seek", 25), ("read", 32), ("write", 25), ("slice", 4), ("tell", 5), ("address", 1)]    # mostly transfers


def random_step(rng, h, clean, weights=WEIGHTS):
    """one random operation on one of the views of history h"""
    names = [w[0] for w in weights]
    cum = [w[1] for w in weights]
    if not h.views:
        return
    vid = len(h.views) - rng.randrange(min(len(h.views), 3)) if rng.random() < 0.7 else rng.randint(1, len(h.views))
    v = h.views[vid - 1]
    name = rng.choices(names, cum)[0]
    pos, n = peek(v)
    if name == "free":
        vid = 1
    if clean and pos is not None and name == "write" and not (0 <= pos <= n):
        name = "seek"
    if name == "seek":
        if clean and pos is not None:
            t = rng.randint(0, n + 3)
            wh = rng.choice((0, 0, 1, 1, 2))
            if wh == 0:
                args = (t, rng.choice((0, None)))
            elif wh == 1:
                args = (t - pos, 1)
            else:
                args = (0, 2)
        else:
            wh = rng.choice((0, 0, 0, 1, 1, 1, 2)) if rng.random() < 0.85 else 2
            r = rng.random()
            if r < 0.93:
                off = rng.randint(-n - 3, n + 4)
            elif r < 0.97:
                off = rng.choice((-1000, 1000, -40, 40))
            else:
                off = rng.choice((-1, 1)) * rng.choice(FAR[:4])       # (a sum of two still fits 32 bits)
            if wh == 2 and rng.random() < 0.5:
                off = 0
            args = (off, wh)
    elif name == "read":
        r = rng.random()
        if r < 0.25:
            args = ()
        elif r < 0.32:
            args = (rng.choice((-1, -7)),)
        elif r < 0.36 and not clean:
            args = (rng.choice(FAR),)                # far counts: only over the recording controller
        else:
            args = (rng.randint(0, n + 3),)
    elif name == "write":
        args = (bytes(bytearray(rng.randrange(256) for _ in range(rng.randint(0, n + 3)))),)
    elif name == "slice":
        def bound():
            return None if rng.random() < 0.2 else rng.randint(-n - 3, n + 3)
        args = (bound(), bound())
        if rng.random() < 0.15:
            args += (1,)                             # v[a:b:1] is the same contiguous slice
    elif name == "close":
        args = ("with",) if rng.random() < 0.3 else ()
    else:
        args = ()
    fault = None
    if name in ("read", "write") and h.fault_rate and rng.random() < h.fault_rate:
        if not isinstance(h.ctrl, StackController):
            fault = ("fail", rng.randrange(3))
        elif rng.random() < 0.5:
            fault = ("late",)
        elif name == "write":
            fault = ("fail", 0, 0)                   # (the write's first command: nothing is stored)
        else:
            fault = ("fail", rng.choice((0, 0, 1, 2)), rng.randrange(2))
    h.perform((name, vid, args, fault))


def random_history(rng, clean, nops, big=False, force_stack=False, faulty=None, busy=False, ctrl=None):
    """(ctrl: a StackController to be used by this history as well - one connection, one run of sequence numbers
    and whatever is still under way in the network are then shared with the histories before it)"""
    origin = rng.choice((0, 88, 0x60000000, 0x7FFF0000, 0xFFFF0000))
    win = BIGWIN if big else WIN
    mem = bytes(bytearray(rng.randrange(256) for _ in range(win)))
    start = rng.randint(8, 16)
    ln = rng.choice((255, 256, 257, 260, 300)) if big else rng.choice((0, 1, 2, 3, 4, 4, 5, 6, 8, 8))
    if busy:
        ln = rng.choice((6, 8, 8, 10))
    via = "direct" if rng.random() < 0.7 else "alloc"
    end = start + ln
    if via == "direct" and rng.random() < 0.08:
        end = start - rng.randint(0, 5)          # "end_address is ignored": a zero-length view
    x, y = rng.randrange(4), rng.randrange(4)
    stack = rng.choice((4, 4, 5)) if clean and (rng.random() < 0.2 or force_stack) else 0
    if big and stack:
        stack = 64                               # (a 4-byte buffer would make hundreds of commands per read)
    ghost = None
    if rng.random() < 0.1:
        ghost = [rng.choice((ln, ln + 4, 1, 8)), rng.sample(["read", "seek", "close"], rng.randint(0, 3))]
    if ctrl is not None:
        origin, stack = ctrl.origin, ctrl.bufsize
        ctrl.sim.chips[(x, y)].write(origin, mem)        # (the environment: this history's initial memory,
        for sock in ctrl.net.sockets:                    # and a network in which nothing is under way any more)
            sock.inbox.clear()
            sock.held.clear()
    h = History(origin, mem, start, end, x=x, y=y, via=via, stack=stack, ghost=ghost, ctrl=ctrl)
    h.fault_rate = faulty if faulty is not None else rng.choice((0, 0, 0.1, 0.3))
    for _ in range(nops):
        random_step(rng, h, clean, BUSY if busy else WEIGHTS)
    return h


ALT_SDRAM, ALT_CORES = "sdram_words", "app_cores"     # resource names other than rig's defaults


def make_group(origin, mem, verts, opts, stack):
    """One call of the real utils.sdram_alloc_for_vertices for several vertices on different chips of one
    controller (verts: name, x, y, start, len, core; a len of -1 = a vertex that asks for no SDRAM).  Returns
    one History per vertex with SDRAM, all sharing the controller; each chip has its own memory."""
    ctrl = StackController(origin, mem, 0, 0, stack) if stack else RecordingController(origin, mem)
    ctrl.plan = dict(((v["x"], v["y"]), origin + v["start"]) for v in verts)
    alt = opts.get("alt")
    sdram_key, cores_key = (ALT_SDRAM, ALT_CORES) if alt else (SDRAM, Cores)
    placements, allocations = {}, {}
    for v in verts:
        placements[v["name"]] = (v["x"], v["y"])
        a = {}
        a[cores_key] = slice(v["core"], v["core"] + 1)
        if v["len"] >= 0:
            a[sdram_key] = slice(v["base"], v["base"] + v["len"])
        if alt:
            a[SDRAM] = slice(0, max(v["len"], 0) + 5)      # a decoy under the default name
            a[Cores] = slice(0, 17)
        allocations[v["name"]] = a
    kw = {}
    if opts.get("core_as_tag") in ("yes", "no"):
        kw["core_as_tag"] = opts["core_as_tag"] == "yes"
    if opts.get("clear"):
        kw["clear"] = True
    if alt:
        kw["sdram_resource"], kw["cores_resource"] = ALT_SDRAM, ALT_CORES
    ghosts = [v for v in verts if v.get("ghost")]
    for v in ghosts:
        make_ghost(ctrl, v["ghost"], v["x"], v["y"])
    try:
        got = mc_utils.sdram_alloc_for_vertices(ctrl, placements, allocations, **kw)
        why = "no view for this vertex"
    except Exception as ex:                          # judged: the histories carry an unexplained event
        got, why = {}, "sdram_alloc_for_vertices raised %s" % type(ex).__name__
    ctrl.log = []
    hs = []
    for i, v in enumerate(verts):
        if v["len"] < 0:
            continue
        root = got.get(v["name"]) if isinstance(got, dict) else None
        hs.append(History(origin, mem, v["start"], v["start"] + v["len"], x=v["x"], y=v["y"], via="group",
                          ctrl=ctrl, root=root if root is not None else why,
                          extra=dict(group=json.dumps(dict(verts=verts, opts=opts, stack=stack, index=i)))))
    return ctrl, hs


def random_group(rng, clean, nops):
    """several allocations of one controller alive at once, their histories interleaved"""
    origin = rng.choice((0, 88, 0x60000000, 0x7FFF0000, 0xFFFF0000))
    mem = bytes(bytearray(rng.randrange(256) for _ in range(WIN)))
    k = rng.choice((2, 2, 3, 4))
    chips = rng.sample([(x, y) for x in range(4) for y in range(4)], k + 1)
    same = rng.random() < 0.6                        # every chip's heap hands out the same first address
    start0 = rng.randint(8, 16)
    verts = []
    for i in range(k):
        ln = rng.choice((0, 1, 2, 3, 4, 5, 6, 7, 8))
        v = dict(name="v%d" % i, x=chips[i][0], y=chips[i][1], start=start0 if same else rng.randint(8, 16),
                 len=ln, core=rng.randint(1, 17), base=rng.choice((0, 200, 4096)), nocores=rng.random() < 0.5)
        if rng.random() < 0.15:
            v["ghost"] = [rng.choice((ln, ln + 4, 8)), rng.sample(["read", "seek", "close"], rng.randint(0, 3))]
        verts.append(v)
    if rng.random() < 0.5:
        verts.insert(rng.randint(0, k), dict(name="idle", x=chips[k][0], y=chips[k][1], start=start0, len=-1,
                                             core=rng.randint(1, 17), base=0))
    opts = dict(core_as_tag=rng.choice(("default", "default", "yes", "no")), clear=rng.random() < 0.3, alt=rng.random() < 0.3)
    stack = rng.choice((4, 5)) if clean and rng.random() < 0.15 else 0
    ctrl, hs = make_group(origin, mem, verts, opts, stack)
    rate = rng.choice((0, 0, 0.1, 0.3))
    for h in hs:
        h.fault_rate = rate
    for _ in range(nops):
        random_step(rng, rng.choice(hs), clean)
    return ctrl, hs


# ------------------------------------------------------------------------------------------ failing accesses
def fault_family(chk, rng):
    """(a) over the recording controller, systematically: a prefix that places a view (root or slice) somewhere, a
    read / write whose controller access raises (three exception classes), then what a caller does next: tell, the
    same call again (with or without a second failure), other reads / writes / relative seeks, on this and on the
    other view; (b) through the real controller and the simulated network: random histories in which half of the
    reads and writes are disturbed (a command losing all its transmissions / replies arriving late and twice)."""
    mem = bytes(bytearray((13 * i + 5) & 0xFF for i in range(WIN)))
    start, end = 12, 18
    prefixes = [(1, []), (1, [("seek", 1, (2, 0))]), (1, [("seek", 1, (5, 0))]), (1, [("write", 1, 3)]),
                (2, [("slice", 1, (1, 5))]), (2, [("slice", 1, (1, 5)), ("seek", 2, (1, 0)), ("read", 1, (1,))])]
    n = 0
    for vid, pre in prefixes:
        other = 1 if vid == 2 else None
        newvid = 2 + sum(1 for o in pre if o[0] == "slice")
        for body in (("read", vid, ()), ("read", vid, (2,)), ("read", vid, (9,)), ("write", vid, 2), ("write", vid, 9)):
            for cls in range(3):
                bad = body + (("fail", cls),)
                tails = [[("tell", vid, ())], [body], [bad, body], [("read", vid, (2,))], [("read", vid, ())],
                         [("write", vid, 2), ("seek", vid, (0, 0)), ("read", vid, ())],
                         [("seek", vid, (1, 1)), ("tell", vid, ())], [("seek", vid, (-1, 1)), body],
                         [("address", vid, ())], [("slice", vid, (None, None)), ("read", newvid, ())]]
                if other:
                    tails += [[("read", other, ())], [("tell", other, ()), body]]
                for tail in tails:
                    t = run_ops(concretise(pre + [bad] + tail), 88, mem, start, end, "failing-access", cut=True)
                    if t is not None:
                        n += 1
                        yield t
    for bufsize in chk.pick((4, 5, 4, 5), (4, 5) * 10):
        ctrl = StackController(rng.choice((0, 88, 0x60000000, 0x7FFF0000, 0xFFFF0000)), bytes(WIN), 0, 0, bufsize)
        for i in range(30):
            h = random_history(rng, True, rng.randint(6, 18), faulty=0.5, busy=True, ctrl=ctrl)
            yield h.trace("failing-access-random")
            n += 1
        ctrl.close()
    chk.extra["failing_access_traces"] = n


# ------------------------------------------------------------------------------------------ behaviours from TLC
def simulated(chk, rng):
    """Behaviours of FileViewDesign generated by TLC's simulator (cfg FileViewDesign_sim: 3-byte allocation, up to
    4 views, 10 operations), translated operation by operation and run on the real views."""
    import json
    import os
    import re
    with open(os.path.join(tlcmod.SPEC_DIR, "cfg", "FileViewDesign_sim.cfg")) as fh:
        m = re.search(r"RootLo = (\d+)\s+RootHi = (\d+)", fh.read())
    vlen = int(m.group(2)) - int(m.group(1))
    r = tlcmod.run_tlc("FileViewDesign", "FileViewDesign_sim.cfg", workers=1, heap="2g", timeout=600,
                       simulate="num=%d" % chk.pick(150, 1500), depth=12, seed=chk.seed + 1)
    chk.jobs.append(dict(job="S", module="FileViewDesign", cfg="FileViewDesign_sim.cfg", **r.summary()))
    if not r.ok:
        from ..core import MachineryError
        raise MachineryError("simulation of FileViewDesign failed: %s" % r.error)
    lines = sorted(set(r.infos))
    rng.shuffle(lines)
    lines = lines[:chk.pick(1500, 15000)]
    mem = bytes(bytearray((11 * i + 3) & 0xFF for i in range(WIN)))
    guarded = ("tell", "read", "write", "seek", "flush", "address")
    out = []
    for ln in lines:
        beh = json.loads(ln.replace('\\"', '"').replace("<<", "[").replace(">>", "]"))
        ops = []
        for k, (kind, v, a) in enumerate(beh):
            if kind in ("seek", "seekrefused"):
                ops.append(("seek", v, (a[0], a[1])))
            elif kind == "read":
                ops.append(("read", v, () if a[0] < 0 else (a[0],)))
            elif kind == "write":
                ops.append(("write", v, (bytes(bytearray([k + 1] * a[0])),)))
            elif kind == "slice":
                ops.append(("slice", v, tuple(b[0] if b else None for b in a)))
            elif kind in ("close", "free"):
                ops.append((kind, v, ()))
            elif kind == "fail":                  # some guarded operation on a dead view
                g = guarded[k % len(guarded)]
                ops.append((g, v, {"read": (), "write": (b"zz",), "seek": (1, 0)}.get(g, ())))
            else:
                raise AssertionError(kind)
        out.append(run_ops(ops, 88, mem, 12, 12 + vlen, "tlc-simulated", cut=True))
    return out


def ops_of(ev):
    """the operations of a recorded trace, to run them again"""
    ops = []
    for e in ev:
        nm = e[0]
        if nm == "end":
            break
        a = e[2]
        if nm == "seek":
            args = (a[0], a[1])
        elif nm == "write":
            args = (bytes(bytearray(a[0])),)
        elif nm == "slice":
            args = tuple(b[0] if b else None for b in a)
        else:
            args = tuple(a)
        if nm in ("read", "write") and len(e) > 7:
            ops.append((nm, e[1], args, tuple(e[7])))
        else:
            ops.append((nm, e[1], args))
    return ops


def key_of(tr, i, clauses):
    op = tr["ev"][i - 1][0]
    if "SeekFromEnd" in clauses and op == "seek":
        e = tr["ev"][i - 1]
        n, after, vlen = e[2][0], e[6], (e[7] if len(e) > 7 else [])
        if after and vlen and after[0] == vlen[0] - n:
            return "SeekFromEnd in seek: seek(n, 2) lands at len - n"
        return "SeekFromEnd in seek: seek(%s, 2) on a view of length %s lands at %s" % (n, vlen, after)
    for c in ("ConfinedAtNegativePosition", "ConfinedBeyondEnd", "SeekFromEnd", "Confined"):
        if c in clauses:
            return "%s in %s" % (c, op)
    return "%s: %s" % (op, ",".join(clauses))


def replay(chk):
    import json
    with open(chk.replay_path) as fh:
        old = json.load(fh)["replay"]["trace"]
    origin = int(old["origin"], 16) if isinstance(old["origin"], str) else old["origin"]
    mem = bytes(bytearray(old["mem"]))
    ops = [o for o in ops_of(old["ev"]) if o[0] != "setup_failed"]
    if old["via"] == "group":
        # the allocation call for the whole group is made again; the other vertices' views stay idle
        g = json.loads(old["group"])
        ctrl, hs = make_group(origin, mem, g["verts"], g["opts"], g["stack"])
        h = [k for k in hs if (k.setup["x"], k.setup["y"]) == (old["x"], old["y"])][0]
        for op in ops:
            if op[1] <= len(h.views):
                h.perform(op)
        t = h.trace("replay")
        ctrl.close()
    else:
        t = run_ops(ops, origin, mem, old["start"], old["end"], "replay",
                    via=old["via"], x=old["x"], y=old["y"], ghost=json.loads(old["ghost"]) if "ghost" in old else None,
                    stack=old.get("stack", 0))
    chk.note_case(t["ops"])
    chk.sample(t)
    chk.rule = "replay of %s: the recorded operations run again on the real views" % chk.replay_path
    chk.validate("FileViewTrace", "FileViewTrace.cfg", [t], key_of=key_of, workers=1)
    chk.replayed += 0


def run(chk):
    if chk.replay_path:
        return replay(chk)
    rng = random.Random(chk.seed)
    acts = ("DoSeek", "DoSeekRefused", "DoRead", "DoWrite", "DoSlice", "DoClose", "DFree", "DoFail")
    chk.design("FileViewDesign", "FileViewDesign_%s.cfg" % chk.tier, expect_actions=acts,
               label="root + 2 slices, histories of <= 4 operations")
    if not chk.quick:
        chk.design("FileViewDesign", "FileViewDesign_deep.cfg", expect_actions=acts,
                   label="root + 1 slice, histories of <= 6 operations")
    rej = []
    pending = []

    def judge(force=False):
        """hand the pending traces to TLC (in chunks, so that a thorough run does not hold them all)"""
        if not pending or (len(pending) < 36000 and not force):
            return
        for t in pending:
            for e in t["ev"][:-1]:                      # informational counters (no verdicts)
                chk.count("op " + e[0])
                if e[3][0] == "raise":
                    chk.count("operations that raised " + e[3][1])
                if e[5]:
                    chk.count("operations with a TruncationWarning")
                if e[0] in ("read", "write"):
                    if any(a[0] in ("rx", "wx") for a in e[4]):
                        chk.count("%ss whose controller access failed" % e[0])
                    if len(e) > 7 and e[7] and e[7][0] == "late":
                        chk.count("%ss whose replies arrived late and twice (real controller)" % e[0])
            chk.count("views created by slicing", sum(1 for e in t["ev"] if e[0] == "slice" and e[3][0] == "ok"))
        rej.extend(chk.validate("FileViewTrace", "FileViewTrace.cfg", pending, key_of=key_of, batch=12000, workers=4))
        del pending[:]

    nsmall = 0
    for t in small_scope(chk, rng):
        pending.append(t)
        nsmall += 1
        if nsmall in (41, 30000):
            chk.sample(t)
        chk.note_case(t["ops"], nontrivial=len(t["ops"]) >= 2)
        judge()
    # controller accesses that fail, and what the views do afterwards
    sampled = False
    for t in fault_family(chk, rng):
        if not fits(t):
            chk.skip("an integer of the trace does not fit TLC's 32 bits")
            continue
        pending.append(t)
        if not sampled and any(a[0] in ("rx", "wx") for e in t["ev"][:-1] for a in e[4]):
            sampled = True
            chk.sample(t)
        chk.note_case((t["mem"], t["start"], t["end"], t["ops"]), nontrivial=True)
    sim = simulated(chk, rng)
    for t in sim:
        pending.append(t)
        chk.note_case(t["ops"])
    chk.sample(sim[0])
    chk.extra["tlc_simulated_behaviours_replayed_into_impl"] = len(sim)
    nrandom = chk.pick(4000, 50000)
    for i in range(nrandom):
        clean = rng.random() < 0.6
        h = random_history(rng, clean, rng.randint(3, 24))
        t = h.trace("random-clean" if clean else "random-wild")
        if not fits(t):
            chk.skip("an integer of the trace does not fit TLC's 32 bits")
            continue
        pending.append(t)
        if i in (0, 1):
            chk.sample(t)
        chk.note_case((t["mem"], t["start"], t["end"], t["ops"]),
                      nontrivial=any(e[0] in ("read", "write") and e[4] for e in t["ev"]))
        judge()
    # several allocations of one controller at once (one call of sdram_alloc_for_vertices), interleaved
    ngroups = chk.pick(300, 3000)
    for i in range(ngroups):
        clean = rng.random() < 0.6
        ctrl, hs = random_group(rng, clean, rng.randint(4, 30))
        for h in hs:
            t = h.trace("random-group-" + ("clean" if clean else "wild"))
            if not fits(t):
                chk.skip("an integer of the trace does not fit TLC's 32 bits")
                continue
            pending.append(t)
            chk.count("histories sharing their controller with other live allocations")
            if i == 0 and h is hs[0]:
                chk.sample(t)
            chk.note_case((t["mem"], t["start"], t["end"], t["x"], t["y"], t["group"], t["ops"]),
                          nontrivial=any(e[0] in ("read", "write") and e[4] for e in t["ev"]))
        ctrl.close()
        judge()
    # views longer than 255 bytes
    nbig = chk.pick(30, 300)
    for i in range(nbig):
        clean = rng.random() < 0.6 or i % 6 == 0
        h = random_history(rng, clean, rng.randint(3, 16), big=True, force_stack=i % 6 == 0)
        t = h.trace("random-long-" + ("clean" if clean else "wild"))
        if not fits(t):
            chk.skip("an integer of the trace does not fit TLC's 32 bits")
            continue
        pending.append(t)
        chk.count("histories on views of 255-300 bytes")
        chk.note_case((t["mem"], t["start"], t["end"], t["ops"]),
                      nontrivial=any(e[0] in ("read", "write") and e[4] for e in t["ev"]))
    judge(force=True)
    chk.rule = ("histories of seek (whence 0/1/2, any offset) / tell / read (any count, default) / write / slice (any "
                "bounds, slices of slices) / close (also through a with block) / free / flush / address / len on a real "
                "MemoryIO and the SlicedMemoryIO objects cut from it, over a recording controller; small scope first "
                "(see small_scope_domain), then behaviours of FileViewDesign produced by TLC's simulator and replayed "
                "operation by operation, then seeded random histories of 3-24 operations on views of length 0-8 at "
                "several window origins (0 .. 0xFFFF0000), created directly (incl. end < start) or through "
                "sdram_alloc_for_vertices (one history in ten after an earlier allocation at the same address was used "
                "and freed; slices also written v[a:b:1]; in the wild histories 3% of the seeks / 4% of the read counts "
                "are far: 65528 .. 2^31-2); then groups of 2-4 allocations made by ONE call of sdram_alloc_for_vertices "
                "(different chips, equal or different addresses, optional vertex without SDRAM, core_as_tag / clear / "
                "other resource names given or defaulted) with their 4-30 operations interleaved, each allocation's "
                "history judged on its own chip's memory; then a few views of 255-300 bytes; controller accesses that "
                "FAIL (a directed family over the recording controller: prefix x read / write whose access raises "
                "TimeoutError / FatalReturnCodeError / OSError x what the caller does next - tell, the same call again, "
                "a second failure, other transfers, relative seeks, the other view; 120 histories through the real "
                "controller on shared connections with half of the transfers disturbed; and 0 / 10% / 30% of the "
                "transfers of every random history and group: over the real controller a command losing all its "
                "transmissions (request or reply), or the replies to all commands of the operation late, so that each "
                "is retransmitted and answered twice, the last duplicate arriving during the next operation); 60% of the random histories keep positions inside 0..len+3, write only "
                "from positions <= len and seek from the end only with offset 0; non-trivial = at least 2 operations "
                "(small scope) / at least one transfer that reached the controller (random); distinct = distinct "
                "(memory, view, operation sequence)")
    chk.exhaustive = False
    chk.extra["exhaustive_subdomain"] = chk.extra.get("small_scope_domain")
    chk.assumptions.append("writes are write-through (rig documents that views do not buffer): the memory after each "
                           "operation is compared with the file model, so a buffering implementation would be rejected")
    chk.assumptions.append("addresses are recorded relative to the window origin so that they fit TLC's 32-bit integers")
    chk.assumptions.append("a controller access that fails transfers nothing: the recording controller raises before it "
                           "stores or returns anything; over the real controller the command of a write that loses all "
                           "its transmissions is the write's first (what a view owes its caller after a write that "
                           "failed half-way is not stated by the property)")
    chk.assumptions.append("a TruncationWarning at a position inside 0..len is taken to assert that the transfer was "
                           "cut short (clause WarningMeansTruncation)")
    # the shortest rejected history per key (mechanical)
    shortest = {}
    for tr, i, clauses in rej:
        k = key_of(tr, i, clauses)
        if k not in shortest or i < len(shortest[k]["ops"]):
            shortest[k] = dict(view=[tr["start"], tr["end"]], ops=tr["ops"][:i], clauses=clauses,
                               rejected_event=tr["ev"][i - 1])
    if shortest:
        chk.extra["minimal_rejected_histories"] = shortest
    chk.count("traces rejected", len(rej))


# ------------------------------------------------------------------------------------------ selftest
def selftest(chk):
    mem = bytes(bytearray(range(1, WIN + 1)))
    ops = [("write", 1, (b"abcdef",)), ("seek", 1, (1, 0)), ("read", 1, (2,)), ("slice", 1, (1, 3)),
           ("write", 2, (b"XYZ",)), ("seek", 1, (0, None)), ("read", 1, ()), ("close", 2, ()), ("tell", 2, ()),
           ("free", 1, ()), ("read", 1, ())]
    good = run_ops(ops, 88, mem, 12, 16, "selftest")

    def mut(f):
        t = dict(good)
        t["ev"] = __import__("json").loads(__import__("json").dumps(good["ev"]))
        f(t["ev"])
        return t

    def swap(ev, i, j):
        ev[i], ev[j] = ev[j], ev[i]

    # a read and a write whose controller access fails, and what follows
    fops = [("seek", 1, (1, 0)), ("read", 1, (2,), ("fail", 0)), ("read", 1, (2,)), ("write", 1, (b"pq",), ("fail", 1)),
            ("tell", 1, ())]
    fgood = run_ops(fops, 88, mem, 12, 16, "selftest-failing-access")

    def fmut(f):
        t = dict(fgood)
        t["ev"] = __import__("json").loads(__import__("json").dumps(fgood["ev"]))
        f(t["ev"])
        return t

    cases = [
        (fgood, None),
        (fmut(lambda ev: ev[1].__setitem__(6, [3])), "PositionAdvances"),                # moved though nothing came
        (fmut(lambda ev: ev[3].__setitem__(6, [5])), "PositionAdvances"),                # ... nothing was stored
        (fmut(lambda ev: ev[1][4][0].__setitem__(1, 11)), "Confined"),                   # attempted below the view
        (fmut(lambda ev: ev[1].__setitem__(4, [])), "NoSpuriousFailure"),                # raised without a failure
        (fmut(lambda ev: ev[3].__setitem__(3, ["ok", [2]])), "WrittenBytesStored"),      # claims the bytes written
    ] + [
        (good, None),
        (mut(lambda ev: ev[2][3][1].__setitem__(0, 0)), "ReadsLastWritten"),            # corrupt a byte read
        (mut(lambda ev: ev[0][4][0].__setitem__(1, 11)), "Confined"),                    # access below the view
        (mut(lambda ev: ev[0][4][0][3].__setitem__(0, 0)), "WrittenBytesStored"),        # another byte was stored
        (mut(lambda ev: ev[0].__setitem__(5, 0)), "TruncationWarning"),                  # warning lost
        (mut(lambda ev: ev[0][3].__setitem__(1, [6])), "TruncatedAtEnd"),                # claims 6 bytes written
        (mut(lambda ev: ev[2].__setitem__(6, [2])), "PositionAdvances"),                 # position not advanced
        (mut(lambda ev: ev[3][3][1].__setitem__(1, 3)), "SliceCoversClippedRange"),      # slice too long
        (mut(lambda ev: ev[8].__setitem__(3, ["ok", [0]])), "ClosedFails"),              # tell works after close
        (mut(lambda ev: ev[10].__setitem__(3, ["ok", []])), "FreedFails"),               # read works after free
        (mut(lambda ev: ev[9][4][0].__setitem__(1, 13)), "FreeNamesAllocation"),         # frees another address
        (mut(lambda ev: ev.__delitem__(4)), "ReadsLastWritten"),                         # drop the slice's write
        (mut(lambda ev: swap(ev, 1, 2)), "PositionAdvances"),                            # swap seek and read
        (mut(lambda ev: ev[-1][1].__setitem__(20, 99)), "FinalMemory"),                  # a neighbour's byte changed
        (mut(lambda ev: ev[1].__setitem__(6, [3])), "SeekFromStart"),
        # a deliberately wrong abstract state: a shorter view / another initial memory than the real one
        (dict(good, end=15), "TruncatedAtEnd"),
        (dict(good, mem=[0] * WIN), "FinalMemory"),
    ]
    rej = chk.validate("FileViewTrace", "FileViewTrace.cfg", [c[0] for c in cases])
    got = {id(t): cl for t, _, cl in rej}
    msgs = []
    for tr, want in cases:
        cl = got.get(id(tr))
        if (want is None) != (cl is None) or (want and want not in cl):
            msgs.append("expected %s, got %s" % (want, cl))
    return not msgs, "; ".join(msgs) or "%d corrupted traces rejected with the expected clauses" % (len(cases) - 1)
