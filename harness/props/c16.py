"""C16 - fixed-point conversion saturates, is monotone and inverts exactly.

D: FixedPointDesign.tla - the bit-sequence rules of FixedPoint.tla (ToFp = clamp(trunc(x * 2^f)), the orders, the
   two's complement word) against plain integer arithmetic on a toy float line and every format of <= 6 bits.
T: every value rig.type_casts returns is an event judged by FixedPointTrace.tla.  Doubles travel exactly as
   sign + integer mantissa (16-bit limbs) + exponent, fixed-point values as sign + limbs; this module only drives
   rig and encodes what it returned.
"""
import math
import random
import struct
import sys
from fractions import Fraction

import numpy as np

from rig.type_casts import (float_to_fp, fp_to_float, float_to_fix, fix_to_float,
                            NumpyFloatToFixConverter, NumpyFixToFloatConverter)

CHUNK = 40
DTYPES = {(0, 8): np.uint8, (1, 8): np.int8, (0, 16): np.uint16, (1, 16): np.int16,
          (0, 32): np.uint32, (1, 32): np.int32, (0, 64): np.uint64, (1, 64): np.int64}


# ------------------------------------------------------------------ mechanical, exact encodings
def limbs(n):
    """natural number -> base-65536 digits, most significant first, no leading zero digit"""
    out = []
    while n:
        out.append(n & 0xFFFF)
        n >>= 16
    return out[::-1]


def enc_int(v):
    v = int(v)
    return [1 if v < 0 else 0, limbs(abs(v))]


def enc_dbl(x):
    """finite double -> [sign, limbs of the odd integer mantissa m, e] with |x| = m * 2^e exactly"""
    x = float(x)
    s = 1 if math.copysign(1.0, x) < 0 else 0
    num, den = abs(x).as_integer_ratio()
    if num == 0:
        return [s, [], 0]
    e = -(den.bit_length() - 1)
    tz = (num & -num).bit_length() - 1
    return [s, limbs(num >> tz), e + tz]


def fin(res):
    """a float result that is not finite cannot be written down exactly: it travels as the exception-like outcome
    'NonFiniteFloat', which the specification rejects (NoException) - never a crash of the driver"""
    if res[0] != "e":
        try:
            if not math.isfinite(float(res[1])):
                return ("e", "NonFiniteFloat")
        except (TypeError, ValueError, OverflowError):
            return ("e", "NotAFloat")
    return res


def dec_dbl(t):
    m = 0
    for d in t[1]:
        m = (m << 16) | d
    return (-1 if t[0] else 1) * Fraction(m) * Fraction(2) ** t[2]


def bits_key(x):
    return struct.pack(">d", x)


def call(fn, *a):
    try:
        return ("v", fn(*a))
    except Exception as ex:         # judged by the spec (NoException)
        return ("e", type(ex).__name__)


# ------------------------------------------------------------------ inputs
def in_domain(x, f):
    return math.isfinite(x) and math.isfinite(x * 2.0 ** f)


def around(x, steps=2):
    out = [x]
    up = dn = x
    for _ in range(steps):
        up = math.nextafter(up, math.inf)
        dn = math.nextafter(dn, -math.inf)
        out += [up, dn]
    return out


def gen_inputs(fmt, rng, nrand, rich=True):
    """floats at and one/two ulps around both ends of the range, around zero and the interior steps, far beyond,
    subnormal, negative, random - only those whose scaled value is still a finite double"""
    s, n, f = fmt
    nb = n - 1 if s else n
    unit = 2.0 ** -f
    cand = [0.0, -0.0]
    tgt = {0, 1, 2, 3, 2 ** nb - 2, 2 ** nb - 1, 2 ** nb, 2 ** nb + 1, 2 ** nb + 2, 2 ** (nb - 1), 2 ** (nb - 1) + 1,
           2 ** n - 1, 2 ** n, 2 ** n + 1, 2 ** (n + 1), 2 ** 53, 2 ** 53 + 2}
    for t in sorted(tgt):
        for sg in (1, -1):
            for frac in ((0.0, 0.5, -0.5, 0.25, 0.999) if rich else (0.0, 0.5, -0.5)):
                cand += around(sg * (float(t) + frac) * unit, 2 if rich else 1)
    big = sys.float_info.max * unit                     # the largest double whose scaled value is finite
    for far in (1e30, 1e300, 3.4e38, 2.0 ** 70, 2.0 ** 100, big, math.nextafter(big, 0.0), math.nextafter(big, math.inf)):
        cand += [far, -far]
    tiny = 5e-324
    for sub in (tiny, 3 * tiny, 2.2250738585072014e-308, math.nextafter(2.2250738585072014e-308, 0.0),
                2.0 ** -1030, 1e-310, 2.0 ** -60, 2.0 ** -f, math.nextafter(2.0 ** -f, 0.0)):
        cand += [sub, -sub]
    lo = -(2 ** nb) if s else 0
    hi = 2 ** nb
    for _ in range(nrand):
        k = rng.random()
        if k < 0.35:        # inside (and a little outside) the range, any fraction
            cand.append(rng.uniform(lo * 1.1 - 2, hi * 1.1 + 2) * unit)
        elif k < 0.55:      # multiples of 1/8 of a step
            cand.append(rng.randrange(lo * 8 - 16, hi * 8 + 16) / 8.0 * unit)
        elif k < 0.7:       # small numbers of steps
            cand.append(rng.uniform(-4, 4) * unit)
        elif k < 0.85:      # any double at all
            cand.append(struct.unpack(">d", struct.pack(">Q", rng.getrandbits(64)))[0])
        else:               # log-uniform magnitude around the range end
            ex = nb - f + rng.randint(-6, 6)
            if ex < 1020:   # (a far negative n_frac puts the range end beyond the doubles)
                cand.append(rng.choice((1, -1)) * math.ldexp(rng.random() + 0.5, ex))
    seen, out = set(), []
    for x in cand:
        if isinstance(x, float) and in_domain(x, f) and bits_key(x) not in seen:
            seen.add(bits_key(x))
            out.append(x)
    return out


def gen_steps(fmt):
    """every multiple of half a step from four steps below the range to four steps above it (8-bit formats)"""
    s, n, f = fmt
    nb = n - 1 if s else n
    lo = -(2 ** nb) if s else 0
    return [k / 2.0 * 2.0 ** -f for k in range(2 * (lo - 4), 2 * (2 ** nb + 4) + 1)]


def gen_values(fmt, rng, nrand):
    s, n, f = fmt
    nb = n - 1 if s else n
    lo = -(2 ** nb) if s else 0
    hi = 2 ** nb - 1
    vs = {lo, lo + 1, lo + 2, hi, hi - 1, hi - 2, 0, 1, 2, 3, 2 ** (nb - 1), 2 ** (nb - 1) - 1, 2 ** (nb - 1) + 1}
    if s:
        vs |= {-1, -2, -3, -(2 ** (nb - 1)), -(2 ** (nb - 1)) + 1}
    for k in (52, 53, 54, 55, 60, 62, 63):
        for d in (-1, 0, 1):
            vs |= {2 ** k + d, -(2 ** k + d), hi - 2 ** (63 - k) + d}
    for _ in range(nrand):
        vs.add(rng.randint(lo, hi))
        b = rng.randint(1, nb)
        vs.add(rng.choice((1, -1)) * rng.getrandbits(b))
        vs.add(rng.choice((1, -1)) * (rng.getrandbits(min(b, 53)) << rng.randint(0, nb - min(b, 53))))
    return sorted(v for v in vs if lo <= v <= hi)


def shape_for(k, rng):
    opts = [(k,), (k, 1), (1, k)]
    for d in (2, 3, 4, 5, 7):
        if k % d == 0 and k > d:
            opts += [(d, k // d), (k // d, d)]
    if k % 4 == 0 and k > 4:
        opts.append((2, 2, k // 4))
    return rng.choice(opts)


# ------------------------------------------------------------------ running rig, recording
def push(evs, api, args, res, enc=enc_int):
    if res[0] == "e":
        evs.append(["raise", api, args[0], res[1]])
    else:
        evs.append([api] + args + [enc(res[1])])


def close(fmt, evs, fixapi, label, **kw):
    n = len(evs)
    return dict(fmt=list(fmt), n=n, fix=1 if fixapi else 0, label=label, ev=evs + [["ok"]], **kw)


def make_fix(fmt, fn):
    try:
        return fn(bool(fmt[0]), fmt[1], fmt[2])
    except ValueError:              # the format is outside what validate_fp_params accepts
        return None


def laid_out(arr, rng):
    """the same array (shape and elements) in another memory layout: Fortran order, a strided view, a view with
    negative strides, the other byte order; one in three is handed over read-only"""
    k = rng.randrange(6)
    if arr.ndim >= 2 and k == 0:
        arr = np.asfortranarray(arr)
    elif arr.ndim >= 2 and k == 1:
        arr = np.ascontiguousarray(arr.swapaxes(0, arr.ndim - 1)).swapaxes(0, arr.ndim - 1)
    elif arr.ndim >= 1 and k == 2 and arr.size:
        arr = np.repeat(arr, 2, axis=arr.ndim - 1)[..., ::2]
    elif arr.ndim >= 1 and k == 3 and arr.size:
        arr = np.ascontiguousarray(arr[..., ::-1])[..., ::-1]
    elif k == 4:
        arr = arr.astype(arr.dtype.newbyteorder())
    if rng.randrange(3) == 0:
        arr = arr.view()
        arr.flags.writeable = False
    return arr


def shape_str(shape):
    return "x".join(str(int(d)) for d in shape) or "scalar"


EMPTY_SHAPES = [(0,), (0, 3), (2, 0), (2, 0, 2)]


def shape_events(conv, kind, dtype, rng):
    """arrays without elements: what comes back must have the shape that went in"""
    evs = []
    for shape in EMPTY_SHAPES:
        arr = np.zeros(shape, dtype=dtype)
        try:
            got = shape_str(np.shape(conv(laid_out(arr, rng))))
        except Exception as ex:
            got = "raised " + type(ex).__name__
        evs.append(["npshape", kind, shape_str(shape), got])
    return evs


def klass(fmt, x):
    """where the scaled value lies: -1 below the range, 1 above it, 0 inside (for choosing sub-arrays)"""
    s, n, f = fmt
    q = Fraction(x) * Fraction(2) ** f
    lo = -(2 ** (n - 1)) if s else 0
    hi = 2 ** (n - 1) - 1 if s else 2 ** n - 1
    return -1 if q <= lo - 1 else 1 if q >= hi + 1 else 0


def safe32(x, f):
    """the scaled value is a finite single-precision number too"""
    return -126 <= f <= 127 and abs(x) * 2.0 ** f < 2.0 ** 127


def array_call(conv, arr):
    try:
        out = conv(arr)
        if getattr(out, "shape", None) != arr.shape:
            return [("e", "ShapeChanged")] * arr.size, None
        return [("v", o) for o in out.reshape(-1).tolist()], out
    except Exception as ex:
        return [("e", type(ex).__name__)] * arr.size, None


LATE = {"np": 0, "inv_np": 0, "scalar": 0}      # events recorded from results read / calls made again later on


def read_again(out):
    """the elements an array returned earlier holds now"""
    try:
        return [("v", o) for o in out.reshape(-1).tolist()]
    except Exception as ex:
        return [("e", type(ex).__name__)] * int(np.size(out))


def scribble(arr):
    """the caller goes on using an array it had given to a converter: every element is set to one"""
    try:
        if isinstance(arr, np.ndarray) and arr.flags.writeable and arr.size:
            arr[...] = 1
    except Exception:
        pass


def few(k, rng, extra=1):
    """both ends and `extra` seeded positions of a sequence of k elements"""
    return sorted(set([0, k - 1] + rng.sample(range(k), min(extra, k))))


def again_at(idx, small, first, rng):
    """the positions of a kept result that are read again: the first large array - both ends and a seeded position,
    the other large ones - both ends, a small one - a seeded position"""
    return [rng.randrange(len(idx))] if small else few(len(idx), rng, 1 if first else 0)


def out_of_order(k, rng):
    """the last position first, a seeded one, the first position last"""
    return [k - 1] + rng.sample(range(k), min(1, k)) + [0]


def conv_traces(fmt, xs, rng, label, isolate=True, apis=("np", "fix"), shapes=False, plain=False):
    """float -> fixed: scalar, array element and deprecated word for every input, inputs ascending"""
    s, n, f = fmt
    nb = n - 1 if s else n
    # one trace in four is made of single-precision inputs: the array converter is given a float32 array, the scalar
    # conversions the same values (every float32 is a double); values beyond float32's range are left out
    # (only where 2^n_frac is itself a single-precision number)
    adt = np.float64
    if (s, n) in DTYPES and "np" in apis and -126 <= f <= 127 and rng.random() < 0.25:
        with np.errstate(over="ignore"):
            xs32 = [float(np.float32(x)) for x in xs]
        xs32 = sorted(set(x for x in xs32 if x == x and abs(x) != float("inf")))
        if xs32:
            xs, adt, label = xs32, np.float32, label + "/float32"
    xs = sorted(xs)
    fp = float_to_fp(bool(s), n, f)
    shape = shape_for(len(xs), rng)
    has_np = (s, n) in DTYPES          # the widths the array converters support; other widths: scalars only
    if not has_np:
        apis = tuple(a for a in apis if a != "np")
    conv = NumpyFloatToFixConverter(bool(s), n, f) if has_np else None
    fx = make_fix(fmt, float_to_fix)
    # other converters made (and used) after these and before these are used: one of the other signedness, another
    # width and another number of fractional bits of each kind
    call(lambda: float_to_fp(not s, 24 - n % 16, f + 1)(-1.5))
    call(lambda: NumpyFloatToFixConverter(not s, 16 if n != 16 else 32, f + 3)(np.array([-1.5, 1e9])))
    call(lambda: float_to_fix(not s, n + 8, 0)(-1.5))
    rfp = [call(fp, x) for x in xs]
    given = laid_out(np.array(xs, dtype=adt).reshape(shape), rng)
    # every array a converter returned is kept, with the inputs it holds position by position and the array given
    kept = []

    def arr_call(cv, arr, idx, every=True):
        res, out = array_call(cv, arr)
        if out is not None:
            kept.append((list(idx), out, arr, every))
        return res

    rnp = arr_call(conv, given, range(len(xs)), every=False) if has_np else None
    rfx = [call(fx, x) for x in xs] if fx else None
    X = [enc_dbl(x) for x in xs]
    extra = {}      # index -> results of further array calls holding that input
    extra_fp = {}   # index -> results of further scalar calls (NumPy scalars as the argument, calls out of order)
    extra_fx = {}   # index -> results of further calls of the deprecated function
    if has_np and not plain:
        # the same array object handed to the converter a second time (a few of its elements are recorded)
        again = arr_call(conv, given, range(len(xs)), every=False)
        for i in sorted(set([0, len(xs) - 1] + rng.sample(range(len(xs)), min(3, len(xs))))):
            extra.setdefault(i, []).append(again[i])

        def elsewhere(cv, order):
            # other inputs at every position (the inputs are distinct) of an array of the large array's shape
            res = arr_call(cv, np.array([xs[i] for i in order], dtype=adt).reshape(shape), order, every=False)
            for j in few(len(order), rng, 0):
                extra.setdefault(order[j], []).append(res[j])

        # ... and at once an array of the same shape holding the inputs in descending order
        elsewhere(conv, list(range(len(xs)))[::-1])
        # 0-d arrays and NumPy scalars for a few elements
        for i in rng.sample(range(len(xs)), min(3, len(xs))):
            r0 = arr_call(conv, np.array(xs[i], dtype=adt), [i])
            try:
                r1 = ("v", int(conv(adt(xs[i]))))
            except Exception as ex:
                r1 = ("e", type(ex).__name__)
            extra.setdefault(i, []).extend([r0[0], r1])
        # small arrays of one kind of element only: all inside the range, all below it, all above it, one element,
        # negative ones only (the large array always holds every kind at once)
        kl = [klass(fmt, x) for x in xs]
        groups = [[i for i in range(len(xs)) if kl[i] == k] for k in (0, -1, 1)]
        groups.append([i for i in range(len(xs)) if kl[i] == 0 and xs[i] < 0])
        groups.append([i for i in range(len(xs)) if kl[i] <= 0 and xs[i] != 0])
        subs = [sorted(rng.sample(g, min(len(g), rng.choice((2, 3, 4))))) for g in groups if g]
        subs += [[rng.choice(g)] for g in groups[:3] if g]
        for idx in subs:
            sub = np.array([xs[i] for i in idx], dtype=adt)
            if len(idx) == 4 and rng.random() < 0.5:
                sub = sub.reshape(2, 2)
            res = arr_call(conv, laid_out(sub, rng), idx)
            for i, r in zip(idx, res):
                extra.setdefault(i, []).append(r)
        # later calls, after arrays of other shapes: the same converter, a second converter of the same format and
        # converters of other formats with the same element type on arrays of the large array's shape holding other
        # inputs at every position
        k = len(xs)
        elsewhere(conv, list(range(1, k)) + [0])
        elsewhere(NumpyFloatToFixConverter(bool(s), n, f), list(range(k - 1, k)) + list(range(k - 1)))
        with np.errstate(all="ignore"):
            for other in ((bool(s), n, f - 1), (bool(s), n, 0)):
                call(lambda: NumpyFloatToFixConverter(*other)(np.array(xs[::-1], dtype=adt).reshape(shape)))
        # the caller changes the arrays it had given; then every result is read again: a result still holds the
        # conversion of ITS input (the large arrays: both ends, the small ones: a seeded position)
        for _, _, arr, _ in kept:
            scribble(arr)
        for idx, out, _, every in kept:
            now = read_again(out)
            for j in again_at(idx, every, out is kept[0][1], rng):
                extra.setdefault(idx[j], []).append(now[j])
                LATE["np"] += 1
    # NumPy scalars as the argument of the scalar converter
    for i in rng.sample(range(len(xs)), 0 if plain else min(3, len(xs))):
        extra_fp.setdefault(i, []).append(call(fp, np.float64(xs[i])))
        if adt is np.float32 and safe32(xs[i], f):
            extra_fp[i].append(call(fp, np.float32(xs[i])))
    if not plain:
        # the scalar closures called again out of order (the last input first, the first one last), in turns with a
        # closure of another format
        turn = float_to_fp(not s, n, f + 1)
        for i in out_of_order(len(xs), rng):
            call(turn, xs[i])
            extra_fp.setdefault(i, []).append(call(fp, xs[i]))
            LATE["scalar"] += 1
            if fx:
                extra_fx.setdefault(i, []).append(call(fx, xs[i]))

    def build(idx, apis, lab, more=()):
        evs = []
        for i in idx:
            push(evs, "fp", [X[i]], rfp[i])
            for r in extra_fp.get(i, ()):
                push(evs, "fp", [X[i]], r)
            if "np" in apis:
                push(evs, "np", [X[i]], rnp[i])
                for r in extra.get(i, ()):
                    push(evs, "np", [X[i]], r)
            if "fix" in apis and fx:
                push(evs, "fix", [X[i]], rfx[i])
                for r in extra_fx.get(i, ()):
                    push(evs, "fix", [X[i]], r)
        return close(fmt, evs + list(more), fx, lab, shape=list(shape))

    # formats wider than a double's mantissa (64-bit: 2^63 signed / 2^64 unsigned): inputs whose scaled value reaches
    # the top of the range are recorded in traces of their own, one per variant, so that a rejection there cannot
    # hide any other event
    far = [i for i, x in enumerate(xs) if isolate and nb >= 54 and x > 0 and x * 2.0 ** f >= 2.0 ** nb]
    main = [i for i in range(len(xs)) if i not in set(far)]
    # pieces of CHUNK inputs (independent chains for TLC's workers); each piece starts with the last input of the
    # one before, so that every pair of neighbouring inputs is compared by the Monotone clauses
    out = [build(main[max(a - 1, 0):a + CHUNK], apis, label) for a in range(0, len(main), CHUNK)]
    if shapes and has_np and "np" in apis:
        out.append(build([], apis, label + "/empty", more=shape_events(conv, "to_fix", adt, rng)))
    for i in far:
        pre = main[-1:] if main else []
        if "np" in apis:
            out.append(build(pre + [i], ("np",), label + "/top/np"))
        if fx and "fix" in apis:
            out.append(build(pre + [i], ("fix",), label + "/top/fix"))
    return out


def wider(s, n, rng):
    """an integer type that holds every value of the format and is not the format's own"""
    opts = [t for (ts, tn), t in DTYPES.items() if tn > n and (ts == s or (ts == 1 and s == 0))]
    return rng.choice(opts) if opts else None


def inv_traces(fmt, vs, label, isolate=True, apis=("np", "fix"), rng=None, shapes=False, plain=False):
    """fixed -> float -> fixed: scalar, arrays, deprecated word functions"""
    s, n, f = fmt
    nb = n - 1 if s else n
    rng = rng or random.Random(len(vs) * 1000 + n + f)
    to_f = fp_to_float(f)
    back = float_to_fp(bool(s), n, f)
    has_np = (s, n) in DTYPES
    if has_np:
        to_f_np = NumpyFixToFloatConverter(f)
        back_np = NumpyFloatToFixConverter(bool(s), n, f)
    kb = make_fix(fmt, fix_to_float)
    bt = make_fix(fmt, float_to_fix)
    # other converters made (and used) after these and before these are used
    call(lambda: fp_to_float(f + 2)(3))
    call(lambda: NumpyFixToFloatConverter(f + 1)(np.array([3, -3], dtype=np.int16)))
    call(lambda: fix_to_float(not s, n + 8, 1)(5))
    sc = []
    for v in vs:
        r = call(to_f, v)
        sc.append((r, call(back, r[1]) if r[0] == "v" else r))
    more = {}       # index -> further (float, back) pairs from other array calls holding that value
    kept = []       # (values held position by position, floats returned, values returned on the way back, arrays given)
    if has_np:
        # the array in a seeded shape of 1-3 dimensions and memory layout
        arr = laid_out(np.array(vs, dtype=DTYPES[(s, n)]).reshape(shape_for(len(vs), rng)), rng)

        def there_and_back(given, idx, cv_f, cv_b):
            fl, fl_out = array_call(cv_f, given)
            if fl_out is None:
                return fl, fl
            # (back through the array converter in another shape and memory layout; the flattened order is the same)
            fl_arr = fl_out.reshape(-1)
            if fl_arr.size >= 4 and fl_arr.size % 2 == 0:
                fl_arr = np.asfortranarray(fl_arr.reshape(2, fl_arr.size // 2))
            elif fl_arr.size:
                fl_arr = np.repeat(fl_arr, 2)[::2]
            bk, bk_out = array_call(cv_b, fl_arr)
            kept.append((list(idx), fl_out, bk_out, [given, fl_arr], False))
            return fl, bk

        fl, bk = there_and_back(arr, range(len(vs)), to_f_np, back_np)

        def elsewhere(cv_f, cv_b, order):
            # other values at every position (the values are distinct) of an array of the large array's shape
            given = np.array([vs[i] for i in order], dtype=DTYPES[(s, n)]).reshape(arr.shape)
            f2, b2 = there_and_back(given, order, cv_f, cv_b)
            for j in few(len(order), rng, 0):
                more.setdefault(order[j], []).append((f2[j], b2[j]))

        if not plain:
            # ... and at once an array of the same shape holding the values in descending order
            elsewhere(to_f_np, back_np, list(range(len(vs)))[::-1])

        def both(idx, arr2):
            f2, f2_arr = array_call(to_f_np, arr2)
            b2, b2_arr = array_call(back_np, f2_arr) if f2_arr is not None else (f2, None)
            if f2_arr is not None:
                kept.append((list(idx), f2_arr, b2_arr, [arr2], True))
            for i, p, q in zip(idx, f2, b2):
                more.setdefault(i, []).append((p, q))

        # the same values in a wider integer type, as a 0-d array, as a NumPy scalar; the same array object again
        wd = wider(s, n, rng)
        if wd is not None:
            idx = sorted(rng.sample(range(len(vs)), min(len(vs), 6)))
            arr2 = np.array([vs[i] for i in idx], dtype=wd)
            both(idx, laid_out(arr2.reshape(2, 3) if len(idx) == 6 else arr2, rng))
        for i in rng.sample(range(len(vs)), min(len(vs), 2)):
            both([i], np.array(vs[i], dtype=DTYPES[(s, n)]))
            p = call(to_f_np, DTYPES[(s, n)](vs[i]))
            p = ("v", float(p[1])) if p[0] == "v" and np.shape(p[1]) == () else p if p[0] == "e" else ("e", "ShapeChanged")
            q = array_call(back_np, np.array(p[1]))[0][0] if p[0] == "v" else p
            more.setdefault(i, []).append((p, q))
        idx = sorted(set([0, len(vs) - 1] + rng.sample(range(len(vs)), min(len(vs), 2))))
        again = array_call(to_f_np, arr)[0]
        for i in idx:
            more.setdefault(i, []).append((again[i], bk[i]))
        if not plain:
            # later calls, after arrays of other shapes and types: the same converters, second converters of the same
            # formats and converters of other formats on arrays of the large array's shape holding other values at
            # every position
            k = len(vs)
            elsewhere(to_f_np, back_np, list(range(1, k)) + [0])
            elsewhere(NumpyFixToFloatConverter(f), NumpyFloatToFixConverter(bool(s), n, f), [k - 1] + list(range(k - 1)))
            with np.errstate(all="ignore"):
                rev = np.array(vs[::-1], dtype=DTYPES[(s, n)]).reshape(arr.shape)
                for other in (f - 1, 0):
                    back_o = NumpyFloatToFixConverter(bool(s), n, other)
                    call(lambda: back_o(NumpyFixToFloatConverter(other)(rev)))
            # the caller changes the arrays it had given; then every result is read again: a result still holds the
            # conversion of ITS input (the large arrays: both ends, the small ones: a seeded position)
            for entry in kept:
                for given in entry[3]:
                    scribble(given)
            for idx, f_out, b_out, _, every in kept:
                fnow = read_again(f_out)
                bnow = read_again(b_out) if b_out is not None else None
                for j in again_at(idx, every, f_out is kept[0][1], rng):
                    if bnow is not None:
                        more.setdefault(idx[j], []).append((fnow[j], bnow[j]))
                        LATE["inv_np"] += 1
    else:
        apis = tuple(a for a in apis if a != "np")
    mask = (1 << n) - 1
    dp = []
    if kb and bt:
        for v in vs:
            r = call(kb, v & mask)
            dp.append((r, call(bt, r[1]) if r[0] == "v" else r))
    # the scalar closures called again out of order (the last value first, the first one last), in turns with closures
    # of another format
    sc_more, dp_more = {}, {}
    if not plain:
        turn_f, turn_b = fp_to_float(f + 1), float_to_fp(not s, n, f + 1)
        for i in out_of_order(len(vs), rng):
            call(lambda: turn_b(turn_f(vs[i])))
            r = call(to_f, vs[i])
            sc_more.setdefault(i, []).append((r, call(back, r[1]) if r[0] == "v" else r))
            LATE["scalar"] += 1
            if dp:
                r = call(kb, vs[i] & mask)
                dp_more.setdefault(i, []).append((r, call(bt, r[1]) if r[0] == "v" else r))

    def build(idx, apis, lab, extra_ev=()):
        evs = []
        for i in idx:
            V = enc_int(vs[i])
            (rx, rb) = sc[i]
            rx = fin(rx)
            if rx[0] == "e" or rb[0] == "e":
                evs.append(["raise", "inv_fp", V, rx[1] if rx[0] == "e" else rb[1]])
                continue
            evs.append(["inv_fp", V, enc_dbl(rx[1]), enc_int(rb[1])])
            for (rx, rb) in sc_more.get(i, ()):
                rx = fin(rx)
                if rx[0] == "e" or rb[0] == "e":
                    evs.append(["raise", "inv_fp", V, rx[1] if rx[0] == "e" else rb[1]])
                else:
                    evs.append(["inv_fp", V, enc_dbl(rx[1]), enc_int(rb[1])])
            if "np" in apis:
                for (p, q) in [(fl[i], bk[i])] + more.get(i, []):
                    p = fin(p)
                    if p[0] == "e" or q[0] == "e":
                        evs.append(["raise", "inv_np", V, p[1] if p[0] == "e" else q[1]])
                    else:
                        evs.append(["inv_np", V, enc_dbl(p[1]), enc_int(q[1])])
            if "fix" in apis and dp:
                for (dx, db) in [dp[i]] + dp_more.get(i, []):
                    dx = fin(dx)
                    if dx[0] == "e" or db[0] == "e":
                        evs.append(["raise", "inv_fix", V, dx[1] if dx[0] == "e" else db[1]])
                    else:
                        evs.append(["inv_fix", V, enc_int(vs[i] & mask), enc_dbl(dx[1]), enc_int(db[1])])
        return close(fmt, evs + list(extra_ev), bool(dp), lab)

    far = [i for i, v in enumerate(vs) if isolate and nb >= 54 and v > 0 and float(v) >= 2.0 ** nb]
    main = [i for i in range(len(vs)) if i not in set(far)]
    out = [build(main[a:a + CHUNK], apis, label) for a in range(0, len(main), CHUNK)]
    if shapes and has_np and "np" in apis:
        out.append(build([], apis, label + "/empty", extra_ev=shape_events(to_f_np, "to_float", DTYPES[(s, n)], rng)))
    for i in far:
        if "np" in apis:
            out.append(build([i], ("np",), label + "/top/np"))
        if dp and "fix" in apis:
            out.append(build([i], ("fix",), label + "/top/fix"))
    return out


def formats(chk, rng):
    out = []
    for n in (8, 16, 32, 64):
        for s in (1, 0):
            fr = list(range(0, n + 1)) + [n + 1, n + 4]
            if n <= 16:
                fr += [25, 30, 40]          # far more fractional bits than bits (array converters accept any)
            if chk.quick and n >= 32:
                # every n_frac of the narrow formats; a seeded half of them (and both ends) of the wide ones
                keep = {0, 1, 2, n // 2, n - 2, n - 1, n, n + 1, n + 4, 25, 30, 40}
                fr = [f for f in fr if f in keep or rng.random() < 0.5]
            out += [(s, n, f) for f in fr]
            # a negative number of fractional bits: the least significant integer bits are dropped (the scalar and
            # array converters take any integer; the deprecated variants refuse)
            if n <= 32:
                out += [(s, n, f) for f in (-1, -2, -5)]
            else:
                out += [(s, n, f) for f in chk.pick((-1, -5), (-1, -2, -5, -11))]
    # "any number of fractional bits", to its far ends: scales beyond single precision (2^128 and more), close to
    # the largest and the smallest double; n_frac + n_bits stays below 1024 so that every value of the format is
    # still a finite double on the way back
    far = [(1, 64, 130), (0, 32, 300), (1, 16, 1000), (0, 8, 128), (0, 64, 200), (1, 32, -100), (0, 64, -900),
           (1, 8, -40), (0, 16, -150)]
    if not chk.quick:
        far += [(s, n, f) for s in (1, 0) for n in (8, 16, 32, 64) for f in (69, 127, 128, 500, 1010, -20, -127, -200)]
    out += sorted(set(far))
    # widths only the scalar functions support (no array events): below, at and beyond a double's 53 bits
    for n in chk.pick((12, 24, 48, 60), (9, 12, 20, 24, 31, 33, 40, 48, 53, 60)):
        for s in (1, 0):
            out += [(s, n, f) for f in sorted({0, 1, n // 2, n - 1, n})]
    return out


def nontrivial(fmt, x):
    """truncation or saturation has something to do: the scaled value is not an integer inside the range"""
    s, n, f = fmt
    q = Fraction(x) * Fraction(2) ** f
    lo = -(2 ** (n - 1)) if s else 0
    hi = 2 ** (n - 1) - 1 if s else 2 ** n - 1
    return q.denominator != 1 or q < lo or q > hi


def key_of(tr, i, clauses):
    """canonical key of a rejection: variant, format class and input class"""
    e = tr["ev"][i - 1]
    s, n, f = tr["fmt"]
    nb = n - 1 if s else n
    if e[0] == "npshape":
        return "npshape %s %s shape=%s got=%s" % (e[1], ",".join(clauses), e[2], e[3])
    api = e[1] if e[0] == "raise" else e[0]
    variant = {"np": "numpy", "inv_np": "numpy", "fix": "float_to_fix", "inv_fix": "float_to_fix"}.get(api)
    fl = {"np": 1, "fix": 1, "inv_np": 2, "inv_fix": 3}.get(e[0])
    if variant and fl is not None and nb >= 54:
        # the conversion to fixed point was given a float whose scaled value is at or above 2^nb
        if dec_dbl(e[fl]) * 2 ** f >= 2 ** nb:
            return "%s n_bits=%d %s value>=2^%d" % (variant, n, "signed" if s else "unsigned", nb)
    arg = e[2] if e[0] == "raise" else e[1]
    shown = float(dec_dbl(arg)).hex() if len(arg) == 3 else str(int(dec_dbl(arg + [0])))
    return ("%s %s signed=%d n_bits=%d n_frac=%d arg=%s%s" % (e[0], ",".join(clauses), s, n, f, shown,
                                                              " " + e[1] + " raised " + e[3] if e[0] == "raise" else ""))


def replay(chk, rng):
    """re-run the inputs of a recorded trace through rig and judge the new trace"""
    import json
    with open(chk.replay_path) as fh:
        tr = json.load(fh)["replay"]["trace"]
    fmt = tuple(tr["fmt"])
    apis = ("np",) if tr["label"].endswith("/np") else ("fix",) if tr["label"].endswith("/fix") else ("np", "fix")
    xs, vs = [], []
    shapes = any(e[0] == "npshape" for e in tr["ev"])
    for e in tr["ev"]:
        if e[0] in ("npshape", "ok"):
            continue
        kind = e[1] if e[0] == "raise" else e[0]
        arg = e[2] if e[0] == "raise" else e[1] if len(e) > 1 else None
        x = math.copysign(float(dec_dbl(arg)), -1 if arg[0] else 1) if kind in ("fp", "np", "fix") else None
        if x is not None and bits_key(x) not in [bits_key(y) for y in xs]:
            xs.append(x)
        elif kind.startswith("inv") and int(dec_dbl(arg + [0])) not in vs:
            vs.append(int(dec_dbl(arg + [0])))
    traces = (conv_traces(fmt, xs, rng, "replay", isolate=False, apis=apis) if xs else []) + \
             (inv_traces(fmt, vs, "replay", isolate=False, apis=apis, rng=rng) if vs else [])
    if shapes:      # a trace of arrays without elements: both converters again
        traces += conv_traces(fmt, [0.0], rng, "replay", apis=("np",), shapes=True, plain=True)[1:]
        traces += inv_traces(fmt, [0], "replay", apis=("np",), rng=rng, shapes=True)[1:]
    chk.rule = "replay of %s" % chk.replay_path
    chk.validate("FixedPointTrace", "FixedPointTrace.cfg", traces, key_of=key_of)


def run(chk):
    rng = random.Random(chk.seed)
    chk.design("FixedPointDesign", "FixedPointDesign_%s.cfg" % chk.tier, expect_actions=("Up", "Turn", "NextValue"))
    if chk.replay_path:
        return replay(chk, rng)
    traces = []
    fmts = formats(chk, rng)
    nrand = chk.pick(40, 600)
    for fmt in fmts:
        xs = gen_inputs(fmt, rng, nrand, rich=not chk.quick)
        for x in xs:
            chk.note_case(("conv", fmt, x.hex()), nontrivial=nontrivial(fmt, x))
        shapes = rng.random() < 0.34
        traces += conv_traces(fmt, xs, rng, "ends+random", shapes=shapes)
        vs = gen_values(fmt, rng, chk.pick(12, 150))
        for v in vs:
            chk.note_case(("inv", fmt, v), nontrivial=v not in (0, 1))
        traces += inv_traces(fmt, vs, "values", rng=rng, shapes=shapes)
    # small scope: 8-bit formats, every half step across the whole range and beyond it
    small = [(s, 8, f) for s in (1, 0) for f in (chk.pick((0, 4, 7, 8), range(0, 13)))]
    for fmt in small:
        xs = gen_steps(fmt)
        for x in xs:
            chk.note_case(("conv", fmt, x.hex()), nontrivial=nontrivial(fmt, x))
        traces += conv_traces(fmt, xs, rng, "half-steps", shapes=True)
        lo, hi = (-128, 127) if fmt[0] else (0, 255)
        vs = list(range(lo, hi + 1))
        for v in vs:
            chk.note_case(("inv", fmt, v), nontrivial=v not in (0, 1))
        traces += inv_traces(fmt, vs, "all-values", rng=rng, shapes=True)
    chk.extra["small_scope_exhaustive"] = True
    chk.extra["small_scope_domain"] = ("8-bit formats %s: every multiple of half a step from four steps below the range "
                                       "to four steps above it, and every value of the format for the round trip"
                                       % [list(t) for t in small])
    chk.count("formats", len(fmts))
    chk.count("traces of inputs at or above the top of a format wider than 53 bits (recorded one per trace and variant)",
              sum(1 for t in traces if "/top/" in t["label"]))
    chk.count("events", sum(t["n"] for t in traces))
    chk.count("arrays without elements (shape events)", sum(1 for t in traces for e in t["ev"] if e[0] == "npshape"))
    chk.count("elements of float->fixed array results read again after later calls", LATE["np"])
    chk.count("elements of fixed->float->fixed array results read again after later calls", LATE["inv_np"])
    chk.count("scalar closures called again out of order", LATE["scalar"])
    chk.count("formats with n_frac beyond n_bits + 4 or below -5", sum(1 for t in fmts if t[2] > t[1] + 4 and t[2] not in (25, 30, 40) or t[2] < -5))
    chk.rule = ("formats: signed/unsigned x n_bits 8/16/32/64 x n_frac 0..n_bits, n_bits+1, n_bits+4 (quick: a seeded half "
                "of the n_frac of the 32/64-bit formats), plus scalar-only widths 9..60 with five n_frac each. Inputs per format: +-0, values at, half/quarter a step and one/two "
                "ulps around 0..3, both ends of the range, 2^n, 2^53; far beyond (1e30, 1e300, the largest double whose scaled "
                "value is finite); subnormals; random in-range, near-range, eighth-step and arbitrary doubles - only doubles "
                "x with x * 2^n_frac finite (the property's domain; also a clause). Each input goes through float_to_fp, "
                "NumpyFloatToFixConverter (one array per format, seeded shape of 1-3 dimensions, plus 0-d arrays and NumPy "
                "scalars) and float_to_fix (where validate_fp_params accepts the format). Values per format for the other "
                "direction: both ends, around 0 and powers of two, values needing more than 53 bits, random - through "
                "fp_to_float/float_to_fp, the two array converters, fix_to_float/float_to_fix. Added by the coverage audit: "
                "n_frac at its far ends (128..1000, -40..-900) and negative n_frac for the 64-bit formats; the same array "
                "object converted twice; read-only, byte-swapped and negatively strided arrays; small arrays holding one "
                "kind of element only (all inside / all below / all above the range, one element); arrays without elements "
                "(shape events); NumPy float64/float32 scalars through float_to_fp; the fixed->float array converter on "
                "arrays of 1-3 dimensions in several layouts, on wider integer types, 0-d arrays and NumPy scalars; other "
                "converters created and used between creating and using the ones under test. Histories of calls on one "
                "converter object: every array a converter returned is kept and read AGAIN (recorded as further np / inv_np "
                "events of its input) after later calls - at once on an array of the same shape holding other values, on "
                "0-d arrays, NumPy scalars and small arrays of other shapes, on same-shaped arrays once more, on a second "
                "converter of the same format and on converters of other formats with the same element type - and after "
                "the caller has overwritten the arrays it had given; both array converters. The scalar closures "
                "(float_to_fp, fp_to_float, the deprecated pair) are called again out of order (last input first, first "
                "one last) in turns with closures of another format. non-trivial conversion = the "
                "scaled value is not an integer inside the range; distinct = distinct (format, input)")
    chk.exhaustive = False
    chk.assumptions += [
        "the round trip is demanded for values whose magnitude spans at most 53 bits (the others have no double equal to "
        "them; for those only agreement of the variants and exactness of the conversion back are checked)",
        "arrays are float64, one trace in four float32 (the scalar converters get the same values as doubles)",
        "-5 <= n_frac <= n_bits + 4 (and 25, 30, 40 for the 8/16-bit formats) for every format, and nine formats with n_frac "
        "between -900 and 1000; n_bits in {8, 16, 32, 64} (the widths the array converter supports) plus scalar-only widths",
        "single-precision inputs (float32 arrays, np.float32 scalars) only where 2^n_frac and the scaled value are finite "
        "single-precision numbers (-126 <= n_frac <= 127): NumPy 2 keeps such products in single precision",
    ]
    chk.sample(dict(traces[0], ev=traces[0]["ev"][:6] + [["..."]]))
    chk.sample(dict(traces[len(traces) // 2], ev=traces[len(traces) // 2]["ev"][:6] + [["..."]]))
    chk.sample(dict(traces[-1], ev=traces[-1]["ev"][:6] + [["..."]]))
    chk.validate("FixedPointTrace", "FixedPointTrace.cfg", traces, key_of=key_of, batch=chk.pick(4000, 2000))


def selftest(chk):
    rng = random.Random(1)
    fmt = (1, 8, 4)
    both = conv_traces(fmt, [-9.0, -0.53, 0.3, 7.99, 8.0], rng, "selftest", shapes=True, plain=True)
    good, empty = both[0], both[1]
    inv = inv_traces(fmt, [-128, -3, 0, 5, 127], "selftest", plain=True)[0]

    def mut(base, f, n=None):
        t = dict(base)
        t["ev"] = [[list(a) if isinstance(a, list) else a for a in e] for e in base["ev"]]
        f(t["ev"])
        if n is not None:
            t["n"] = n
        return t

    def bump(v):
        return enc_int((-1 if v[0] else 1) * sum(d << (16 * i) for i, d in enumerate(v[1][::-1])) + 1)

    ev = good["ev"]
    idx = {name: [i for i, e in enumerate(ev) if e[0] == name] for name in ("fp", "np", "fix")}
    iv = {name: [i for i, e in enumerate(inv["ev"]) if e[0] == name] for name in ("inv_fp", "inv_np", "inv_fix")}
    fp2, np2, fx2 = idx["fp"][2], [i for i in idx["np"] if i > idx["fp"][2]][0], [i for i in idx["fix"] if i > idx["fp"][2]][0]
    fp0, fpl = idx["fp"][0], idx["fp"][-1]

    def swap_groups(e):
        # exchange the blocks of the first and the second input
        a, b, c = idx["fp"][0], idx["fp"][1], idx["fp"][2]
        e[a:c] = e[b:c] + e[a:b]

    cases = [
        (good, None),
        (inv, None),
        (empty, None),
        (mut(empty, lambda e: e[1].__setitem__(3, "3")), "ShapePreserved"),
        (mut(empty, lambda e: e[2].__setitem__(3, "raised ValueError")), "ShapePreserved"),
        (mut(good, lambda e: e[fp2].__setitem__(2, bump(e[fp2][2]))), "TruncTowardZero"),
        (mut(good, lambda e: e[fpl].__setitem__(2, bump(e[fpl][2]))), "Saturates"),
        (mut(good, lambda e: e[fp0].__setitem__(2, enc_int(-129))), "InRange"),
        (mut(good, lambda e: e[np2].__setitem__(2, bump(e[np2][2]))), "ArrayAgreesWithScalar"),
        (mut(good, lambda e: e[fx2].__setitem__(2, bump(e[fx2][2]))), "UnsignedVariantsModulo"),
        (mut(good, lambda e: e.__delitem__(fp2)), "FollowsScalarCall"),
        (mut(good, lambda e: e.__delitem__(len(e) - 2)), "Complete"),
        (mut(good, swap_groups), "InputsAscending"),
        (mut(good, lambda e: (e.__setitem__(fp2, e[np2]), e.__setitem__(np2, ev[fp2]))), "FollowsScalarCall"),
        (mut(good, lambda e: e.__setitem__(fp2, ["raise", "fp", e[fp2][1], "OverflowError"])), "NoException"),
        (mut(inv, lambda e: e[iv["inv_fp"][1]].__setitem__(3, bump(e[iv["inv_fp"][1]][3]))), "RoundTrip"),
        (mut(inv, lambda e: e[iv["inv_fp"][1]][2].__setitem__(2, e[iv["inv_fp"][1]][2][2] + 1)), "FloatDenotesValue"),
        (mut(inv, lambda e: e[iv["inv_np"][3]].__setitem__(3, bump(e[iv["inv_np"][3]][3]))), "ArrayRoundTrip"),
        (mut(inv, lambda e: e[iv["inv_fix"][1]].__setitem__(4, bump(e[iv["inv_fix"][1]][4]))), "UnsignedVariantsModulo"),
        (mut(inv, lambda e: e.__delitem__(iv["inv_fp"][2])), "FollowsScalarCall"),
    ]
    rej = chk.validate("FixedPointTrace", "FixedPointTrace.cfg", [c[0] for c in cases])
    got = {id(t): cl for t, _, cl in rej}
    msgs = []
    for tr, want in cases:
        cl = got.get(id(tr))
        if (want is None) != (cl is None) or (want and want not in cl):
            msgs.append("expected %s, got %s" % (want, cl))
    # the encodings round-trip on hand-written examples
    for x, want in ((0.5, [0, [1], -1]), (-3.0, [1, [3], 0]), (65536.0, [0, [1], 16]), (-0.0, [1, [], 0]),
                    (2.0 ** 52 + 1, [0, [16, 0, 0, 1], 0]), (5e-324, [0, [1], -1074])):
        if enc_dbl(x) != want or dec_dbl(want) != Fraction(x):
            msgs.append("enc_dbl(%r) = %r" % (x, enc_dbl(x)))
    for v, want in ((0, [0, []]), (-1, [1, [1]]), (65536, [0, [1, 0]]), (2 ** 64 - 1, [0, [65535] * 4])):
        if enc_int(v) != want:
            msgs.append("enc_int(%r) = %r" % (v, enc_int(v)))
    return not msgs, "; ".join(msgs) or "%d corrupted traces rejected with the expected clauses" % (len(cases) - 3)
