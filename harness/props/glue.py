"""rig's glue utilities (beyond the listed properties): Glue.tla / GlueDesign.tla / GlueTrace.tla, hosted by the
C05 check (allocation: what becomes of the allocator's output).

  rig.machine_control.utils.sdram_alloc_for_vertices   against the real MachineController and the simulated machine
  rig.place_and_route.utils.build_application_map
  rig.place_and_route.utils.build_routing_tables        (deprecated; with and without omit_default_routes)

(build_machine / build_core_constraints / build_routing_table_target_lengths, also with resource names of the
caller's own, are already judged by ProbeTrace.tla in the C14 check: MachineMatches / ReservationsExact /
TargetLengthsTrue - nothing is added for them here.)

D: GlueDesign.tla - sdram_alloc_for_vertices as a sequence of allocation commands against the heap model of
   Session.tla, vertices in any order, failure at any point, then the stop signal; three wrong designs refuted.
T: (i) exhaustive small scope: every problem of <= 2 (thorough: 3) vertices on one chip through the real call;
   every application map of <= 2 (3) vertices; every pair of two-hop nets through one chip with overlapping keys;
   (ii) random problems placed and allocated by rig's own placers and allocator (resource names of the caller's
   own next to decoys under the default names, 0..3 resources per vertex, several vertices per chip, heaps too
   small so that the call fails mid-way, tags taken beforehand, clear, core_as_tag both ways, second calls,
   the stop signal), routed by rig's router for the table part.

No oracle here: the driver builds inputs, calls rig, and copies what came back and what the simulated machine logged;
GlueTrace.tla judges.
"""
import itertools
import random
import warnings

import pkg_resources

from rig.machine_control import scp_connection, machine_controller
from rig.machine_control.machine_controller import MachineController
from rig.machine_control.utils import sdram_alloc_for_vertices
from rig.netlist import Net
from rig.place_and_route import Machine, Cores, SDRAM, SRAM, allocate, route
from rig.place_and_route.constraints import ReserveResourceConstraint
from rig.place_and_route.place import sequential, breadth_first, hilbert, rcm, rand, sa
from rig.place_and_route.routing_tree import RoutingTree
from rig.place_and_route.utils import build_application_map, build_routing_tables
from rig.routing_table import Routes

from ..env.spinnaker_sim import SimMachine, SDRAM_BASE
from ..env.simnet import SimNet
from ..proj import flatten_tree
from . import session
from .c01 import enc_entry

STRUCT_TEXT = pkg_resources.resource_string("rig", "boot/sark.struct").decode()
VEC = [(1, 0), (1, 1), (0, 1), (-1, 0), (-1, -1), (0, -1)]
KEY_W = 4                                   # low key bits that differ between the nets of a problem
KEY_HI, MASK_HI = 0xbeef0030, 0xfffffff0
OWN = ("my-cores", "my-sdram", "my-sram")   # a caller's own resource identifiers


class _VIdx(dict):
    def __missing__(self, k):
        self[k] = len(self) + 1
        return self[k]


def _slice_pair(allocs, res):
    if res not in allocs:
        return []
    sl = allocs[res]
    return [int(sl.start), int(sl.stop)]


# ====================================================================== sdram_alloc_for_vertices
class Rig(object):
    """a simulated machine with one heap size on every chip and a real controller talking to it"""

    def __init__(self, w, h, heap, ncores=None):
        self.sim = SimMachine(w, h, STRUCT_TEXT, ncores=ncores)
        for c in self.sim.chips.values():
            c.sdram_next, c.sdram_limit = SDRAM_BASE, SDRAM_BASE + heap
        self.heap = heap
        self.net = SimNet(self.sim)
        self.net.install(scp_connection, machine_controller)
        self.ev = []
        self.blocks = []
        try:
            self.mc = MachineController("sim")
        except Exception:
            self.net.uninstall()
            raise

    def close(self):
        self.net.uninstall()

    def api(self, name, a):
        """one call of a controller method, as an "api" event of SessionTrace.tla"""
        logpos = len(self.sim.log)
        try:
            outcome = session.perform(self.mc, None, name, a, self.blocks)
        except Exception as ex:              # judged by the specification
            outcome = ["raise", type(ex).__name__]
        if outcome is not None:
            self.ev.append(["api", name, dict(a), outcome, session.cmd_records(self.sim.log[logpos:]),
                            session.project(self.sim)])

    def vsdram(self, placements, allocations, app, how, core_as_tag, clear, sres=SDRAM, cres=Cores, explicit=True,
               vidx=None):
        """one call of sdram_alloc_for_vertices.  how: "default" (the controller's own application id),
        "context" (inside `with mc(app_id=app)`), "inblock" (inside an application block entered earlier)."""
        vidx = _VIdx() if vidx is None else vidx
        kw = {}
        if explicit or core_as_tag is not True:
            kw["core_as_tag"] = core_as_tag
        if explicit or clear:
            kw["clear"] = clear
        if explicit or sres is not SDRAM:
            kw["sdram_resource"] = sres
        if explicit or cres is not Cores:
            kw["cores_resource"] = cres
        rows = []
        for v, allocs in allocations.items():
            x, y = placements[v]
            rows.append([vidx[v], int(x), int(y), _slice_pair(allocs, sres), _slice_pair(allocs, cres)])
        logpos = len(self.sim.log)
        try:
            if how == "context":
                with self.mc(app_id=app):
                    got = sdram_alloc_for_vertices(self.mc, placements, allocations, **kw)
            else:
                got = sdram_alloc_for_vertices(self.mc, placements, allocations, **kw)
            outcome = ["ok", [[vidx[v], int(f.address) - SDRAM_BASE, len(f)] for v, f in got.items()]]
        except Exception as ex:              # judged by the specification
            outcome = ["raise", type(ex).__name__]
        a = dict(app=app, core_as_tag=int(bool(core_as_tag)), clear=int(bool(clear)), verts=rows)
        self.ev.append(["vsdram", a, outcome, session.cmd_records(self.sim.log[logpos:]), session.project(self.sim)])
        return outcome

    def trace(self, label):
        return dict(chips=[[x, y, self.sim.chips[(x, y)].ncores] for (x, y) in sorted(self.sim.chips)],
                    heap=self.heap, strict_tag=0, ev=self.ev, label=label)


SD_SMALL = (None, slice(8, 8), slice(8, 14), slice(0, 20))
CR_SMALL = (None, slice(1, 2), slice(2, 3), slice(2, 2))


def small_vsdram(chk, rng):
    """one chip, heap 32: every problem of <= 2 (3) vertices x core_as_tag, all inside the documented domain"""
    nmax = chk.pick(2, 3)
    opts = list(itertools.product(SD_SMALL, CR_SMALL))
    out = []
    for n in range(0, nmax + 1):
        for combo in itertools.product(opts, repeat=n):
            for tagged in (True, False):
                if tagged and any(sd is not None and cr is None for sd, cr in combo):
                    continue                       # the first core of a vertex without cores is not defined
                allocations, placements = {}, {}
                for i, (sd, cr) in enumerate(combo):
                    al = {}
                    if cr is not None:
                        al[Cores] = cr
                    if sd is not None:
                        al[SDRAM] = sd
                    allocations["v%d" % i] = al
                    placements["v%d" % i] = (0, 0)
                # the rarer options travel with a sample of the problems (all of them in the thorough tier)
                for clear, pre in ((False, False), (True, False), (False, True), (True, True)):
                    if (clear or pre) and chk.quick and rng.random() > 0.12:
                        continue
                    g = Rig(1, 1, 32)
                    try:
                        if pre:
                            g.api("sdram_alloc", dict(size=6, tag=2, x=0, y=0, app=66, clear=0, filelike=0))
                        g.vsdram(placements, allocations, 66, "default", tagged, clear, explicit=bool(n % 2))
                        g.api("send_signal", dict(sig="stop", app=66, as_enum=0))
                    finally:
                        g.close()
                    out.append(g.trace("small"))
                    chk.note_case(("vsdram-small", [(str(sd), str(cr)) for sd, cr in combo], tagged, clear, pre),
                                  nontrivial=any(sd is not None for sd, _ in combo))
    chk.extra["glue_small_scope"] = ("sdram_alloc_for_vertices: one chip, heap 32, <= %d vertices each without SDRAM or "
                                     "with 0 / 6 / 20 bytes and without cores or with cores 1 / 2 / the empty range at 2, "
                                     "core_as_tag both ways (%d problems; clear and a tag taken beforehand: %s)"
                                     % (nmax, len(out), "a sample" if chk.quick else "all"))
    return out


PLACERS = (("hilbert", hilbert.place), ("sequential", sequential.place), ("breadth_first", breadth_first.place),
           ("rcm", rcm.place), ("rand", rand.place), ("sa", sa.place))


def placed_problem(rng, shapes=((1, 1), (2, 1), (1, 2), (2, 2), (3, 2)), nets_wanted=True):
    """vertices with 0..3 resources placed and allocated by rig's own placer and allocator on a small machine.
    Returns None when the placer found the problem too large."""
    w, h = rng.choice(shapes)
    own = rng.random() < 0.5
    cres, sres, third = OWN if own else (Cores, SDRAM, SRAM)
    ncores = rng.choice((4, 6, 18))
    sd_cap = rng.choice((40, 100, 200, 400))
    chip = {cres: ncores, sres: sd_cap, third: 64}
    decoys = []
    if own:                                      # the default names mean something else to this caller
        decoys = [Cores, SDRAM]
        chip[Cores], chip[SDRAM] = 30, 500
    m = Machine(w, h, chip_resources=chip)
    cons = []
    if rng.random() < 0.7:                       # the monitor's core
        cons.append(ReserveResourceConstraint(cres, slice(0, 1)))
    vr = {}
    for i in range(rng.randint(1, 3 * w * h + 1)):
        res = {}
        kind = rng.random()
        if kind < 0.8:
            res[cres] = rng.choice((0, 1, 1, 1, 1, 2, 3))
        if rng.random() < 0.7:
            res[sres] = rng.choice((0, 1, 3, 4, 8, 8, 21, 30, 64))
        if rng.random() < 0.3:
            res[third] = rng.randint(0, 8)
        for d in decoys:
            if rng.random() < 0.4:
                res[d] = rng.randint(0, 9)
        vr["v%d" % i] = res
    items = list(vr.items())
    rng.shuffle(items)
    vr = dict(items)
    names = list(vr)
    nets = []
    if nets_wanted and len(names) > 1:
        for _ in range(rng.randint(0, min(6, len(names)))):
            src = rng.choice(names)
            nets.append(Net(src, rng.sample(names, rng.randint(1, min(3, len(names))))))
    pname, placer = rng.choice(PLACERS)
    kw = dict(random=random.Random(rng.getrandbits(30))) if pname in ("rand", "sa") else {}
    try:
        placements = placer(vr, nets, m, cons, **kw)
        allocations = allocate(vr, nets, m, cons, placements)
    except Exception:                            # (the placers and the allocator are judged by C02 / C05)
        return None
    return dict(w=w, h=h, machine=m, cons=cons, vr=vr, nets=nets, placements=placements, allocations=allocations,
                cres=cres, sres=sres, third=third, own=own, ncores=ncores, placer=pname)


def random_vsdram(rng, P):
    """a session around sdram_alloc_for_vertices for the placed problem P"""
    heap = rng.choice((32, 64, 128, 256, 1024))
    app = rng.choice((16, 30, 66))
    how = "default" if app == 66 and rng.random() < 0.5 else rng.choice(("context", "inblock"))
    g = Rig(P["w"], P["h"], heap, ncores={c: max(2, P["ncores"]) for c in P["machine"]})
    try:
        chips = sorted(g.sim.chips)
        for _ in range(rng.choice((0, 0, 1, 2, 3))):      # blocks and tags in the way, of this and other applications
            x, y = rng.choice(chips)
            g.api("sdram_alloc", dict(size=rng.choice((1, 4, 9, 24)), tag=rng.choice((0, 1, 1, 2, 3)), x=x, y=y,
                                      app=rng.choice((app, app, 17)), clear=0, filelike=rng.randint(0, 1)))
        if how == "inblock":
            session.perform(g.mc, None, "app_enter", dict(app=app), g.blocks)
        tag_ok = all(P["cres"] in al for al in P["allocations"].values() if P["sres"] in al)
        vidx = _VIdx()
        for k in range(rng.choice((1, 1, 1, 2))):
            tagged = tag_ok and rng.random() < 0.7
            g.vsdram(P["placements"], P["allocations"], app, how, tagged, rng.random() < 0.35, P["sres"], P["cres"],
                     explicit=P["own"] or rng.random() < 0.5, vidx=vidx)
            if rng.random() < 0.3:
                blocks = [(c, ptr) for c in chips for ptr in sorted(g.sim.chips[c].sdram_allocs)]
                if blocks:
                    c, ptr = rng.choice(blocks)
                    g.api("sdram_free", dict(off=ptr - SDRAM_BASE, x=c[0], y=c[1]))
        if how == "inblock":
            g.api("app_exit", dict(app=app))
        elif rng.random() < 0.7:
            g.api("send_signal", dict(sig="stop", app=app, as_enum=0))
            if rng.random() < 0.3:                   # after the stop signal the tags are free again
                g.vsdram(P["placements"], P["allocations"], app, "context", tag_ok, False, P["sres"], P["cres"], vidx=vidx)
    finally:
        g.close()
    return g.trace("placed by %s on %dx%d, %s resource names, %s" % (P["placer"], P["w"], P["h"],
                                                                      "own" if P["own"] else "default", how))


# ====================================================================== build_application_map
def appmap_event(vapps, placements, allocations, cres, explicit, vidx):
    rows = [[vidx[v], a, int(placements[v][0]), int(placements[v][1]), _slice_pair(allocations[v], cres)]
            for v, a in vapps.items()]
    try:
        if explicit or cres is not Cores:
            got = build_application_map(vapps, placements, allocations, core_resource=cres)
        else:
            got = build_application_map(vapps, placements, allocations)
        outcome = ["ok", [[a, int(xy[0]), int(xy[1]), [int(c) for c in cores]]
                          for a, chips in got.items() for xy, cores in chips.items()]]
    except Exception as ex:
        outcome = ["raise", type(ex).__name__]
    return ["appmap", rows, outcome]


def pure_trace(evs, label):
    return dict(chips=[], heap=0, strict_tag=0, ev=evs, label=label)


def small_appmaps(chk):
    nmax = chk.pick(2, 3)
    opts = list(itertools.product(("a.aplx", "b.aplx"), ((0, 0), (1, 0)), (None, slice(0, 0), slice(1, 2), slice(1, 3))))
    out = []
    for n in range(0, nmax + 1):
        for combo in itertools.product(opts, repeat=n):
            vapps = {"v%d" % i: c[0] for i, c in enumerate(combo)}
            placements = {"v%d" % i: c[1] for i, c in enumerate(combo)}
            allocations = {"v%d" % i: ({} if c[2] is None else {Cores: c[2]}) for i, c in enumerate(combo)}
            out.append(pure_trace([appmap_event(vapps, placements, allocations, Cores, False, _VIdx())], "small map"))
            chk.note_case(("appmap-small", [(c[0], c[1], str(c[2])) for c in combo]), nontrivial=n > 0)
    return out


def random_appmap(rng, P):
    apps = ["app-%d.aplx" % i for i in range(rng.randint(1, 3))]
    vapps = {v: rng.choice(apps) for v in P["vr"]}
    items = list(vapps.items())
    rng.shuffle(items)
    return appmap_event(dict(items), P["placements"], P["allocations"], P["cres"], P["own"] or rng.random() < 0.5, _VIdx())


# ====================================================================== build_routing_tables
def halves_lh(v):
    return [v & 0xffff, (v >> 16) & 0xffff]


def enc_tables(call):
    with warnings.catch_warnings(record=True) as caught:
        warnings.simplefilter("always")
        try:
            tables = call()
        except Exception as ex:
            return ["raise", type(ex).__name__], caught
    return ["ok", [[int(x), int(y), [enc_entry(e) for e in t]] for (x, y), t in tables.items()]], caught


def tables_event(chk, routes, net_keys):
    """routes: ordered {net: RoutingTree}; build_routing_tables without and with omission"""
    vidx = _VIdx()
    trees, keys = [], []
    for net, tree in routes.items():
        nodes, edges, leaves = flatten_tree(tree, vidx)
        trees.append(dict(nodes=nodes, edges=edges, leaves=leaves))
        k, m = net_keys[net]
        keys.append(halves_lh(k) + halves_lh(m))
    full, w1 = enc_tables(lambda: build_routing_tables(routes, net_keys, omit_default_routes=False))
    if len(routes) % 2:
        red, w2 = enc_tables(lambda: build_routing_tables(routes, net_keys))          # omission is the default
    else:
        red, w2 = enc_tables(lambda: build_routing_tables(routes, net_keys, omit_default_routes=True))
    chk.count("build_routing_tables calls that announced the deprecation",
              sum(1 for w in (w1, w2) if any(issubclass(c.category, DeprecationWarning) for c in w)))
    chk.count("build_routing_tables calls", 2)
    return ["tables", trees, keys, KEY_W, full, red]


def km(pattern):
    """"01X0" -> (key, mask) over the low KEY_W bits, the high bits fixed for the whole problem"""
    k = m = 0
    for ch in pattern:
        k, m = (k << 1) | (ch == "1"), (m << 1) | (ch != "X")
    return KEY_HI | k, MASK_HI | m


def rand_km(rng, overlapping):
    if overlapping:
        return km("".join(rng.choice("01X") for _ in range(KEY_W)))
    return km("".join(rng.choice("01") for _ in range(KEY_W)))


def two_hop(start, d1, d2, mid_core, w=4, h=4):
    """start -d1-> mid -d2-> end with a core leaf at the end (and at the middle chip if asked)"""
    mid = ((start[0] + VEC[d1][0]) % w, (start[1] + VEC[d1][1]) % h)
    end = ((mid[0] + VEC[d2][0]) % w, (mid[1] + VEC[d2][1]) % h)
    last = RoutingTree(end, [(Routes.core(1), "sink")])
    kids = [(Routes(d2), last)] + ([(Routes.core(2), "mid")] if mid_core else [])
    return RoutingTree(start, [(Routes(d1), RoutingTree(mid, kids))])


def small_tables(chk, rng):
    """two nets of two hops meeting on the middle chip (1, 1) of a 4x4 torus: every pair of shapes from a family
    (straight through / turning, with and without a core at the middle chip), keys that coincide, nest or differ"""
    shapes = []
    for d1 in range(6):
        start = ((1 - VEC[d1][0]) % 4, (1 - VEC[d1][1]) % 4)
        for d2 in range(6):
            if d2 == (d1 + 3) % 6:
                continue
            for mid_core in (False, True):
                shapes.append((start, d1, d2, mid_core))
    firsts = [s for s in shapes if s[1] == 0 and s[2] in (0, 1)]             # from the west: straight on, or turning
    keypairs = [("0000", "0001"), ("0000", "000X"), ("000X", "0000"), ("0000", "0000"), ("00XX", "000X"), ("0X00", "XXXX")]
    combos = [(a, b, kp) for a in firsts for b in shapes for kp in keypairs]
    limit = chk.pick(700, 10 ** 9)
    chk.extra["glue_small_tables"] = "%d pairs of two-hop nets through one chip%s" % (
        len(combos), "" if len(combos) <= limit else ", a sample of %d" % limit)
    if len(combos) > limit:
        combos = rng.sample(combos, limit)
    out = []
    for a, b, kp in combos:
        na, nb = Net("s1", ["sink"]), Net("s2", ["sink"])
        routes = {na: two_hop(*a), nb: two_hop(*b)}
        if rng.random() < 0.5:
            routes = dict(reversed(list(routes.items())))
        out.append(pure_trace([tables_event(chk, routes, {na: km(kp[0]), nb: km(kp[1])})], "small tables"))
        chk.note_case(("tables-small", a, b, kp))
    return out


def straight_line(rng, w, h):
    """a tree that runs straight across the torus for a few hops, dropping cores here and there"""
    d = rng.randrange(6)
    chipxy = (rng.randrange(w), rng.randrange(h))
    n = rng.randint(2, max(2, min(w, h) - 1))
    chain = []
    for _ in range(n + 1):
        chain.append(chipxy)
        chipxy = ((chipxy[0] + VEC[d][0]) % w, (chipxy[1] + VEC[d][1]) % h)
    if len(set(chain)) < len(chain):
        return None
    node = RoutingTree(chain[-1], [(Routes.core(rng.randrange(1, 18)), "end")])
    for c in reversed(chain[:-1]):
        kids = [(Routes(d), node)]
        if rng.random() < 0.25:
            kids.append((Routes.core(rng.randrange(1, 18)), "tap"))
        node = RoutingTree(c, kids)
    return node


def random_tables(chk, rng):
    """nets routed by rig's own router on a placed problem, plus straight lines and hand-grown trees"""
    from .c10 import grow_tree
    P = None
    while P is None:
        P = placed_problem(rng, shapes=((3, 3), (4, 3), (4, 4), (5, 4)))
    routes = {}
    if P["nets"]:
        try:
            routes = dict(route(P["vr"], P["nets"], P["machine"], P["cons"], P["placements"], P["allocations"],
                                core_resource=P["cres"]))
        except Exception:                        # (the router is judged by C03)
            routes = {}
    w, h = P["w"], P["h"]
    for _ in range(rng.randint(1, 4)):
        t = straight_line(rng, w, h) if rng.random() < 0.6 else grow_tree(rng, w, h, (rng.randrange(w), rng.randrange(h)),
                                                                       rng.randint(1, 6))
        if t is not None:
            routes[Net("extra%d" % len(routes), [])] = t
    items = list(routes.items())
    rng.shuffle(items)
    items = items[:7]
    overlapping = rng.random() < 0.4
    pool = []
    net_keys = {}
    for net, _ in items:
        if pool and rng.random() < 0.12:
            net_keys[net] = rng.choice(pool)      # two nets under one key: they merge, or clash
        else:
            net_keys[net] = rand_km(rng, overlapping)
            pool.append(net_keys[net])
    return tables_event(chk, dict(items), net_keys)


# ====================================================================== the job
def run_beyond(chk):
    from concurrent.futures import ThreadPoolExecutor
    from ..core import MachineryError
    rng = random.Random(chk.seed + 505)
    label = "beyond the property: glue utilities"
    pool = ThreadPoolExecutor(4)
    acts = ("GAllocOk", "GAllocFail", "GReturn", "GStop")
    jobs = [pool.submit(chk.design, "GlueDesign", "GlueDesign_%s.cfg" % chk.tier, workers=chk.pick(6, 16),
                        expect_actions=acts, label=label, timeout=3600)]
    wrong = (("GlueDesign_defaultapp.cfg", "ReleasedByStop"), ("GlueDesign_stopassize.cfg", "OnePerVertex"),
             ("GlueDesign_coretagalways.cfg", "OnePerVertex"))
    wjobs = [pool.submit(chk.design, "GlueDesign", cfg, workers=2, allow_error=True,
                         label=label + ": wrong design (must fail)") for cfg, _ in wrong]
    traces = small_vsdram(chk, rng) + small_appmaps(chk) + small_tables(chk, rng)
    nsmall = len(traces)
    n = chk.pick(130, 2500)
    made = 0
    while made < n:
        P = placed_problem(rng)
        if P is None:
            chk.count("glue: problems the placer or allocator refused")
            continue
        made += 1
        t = random_vsdram(rng, P)
        t["ev"].append(random_appmap(rng, P))
        traces.append(t)
        chk.note_case(("glue-random", t["heap"], [e[:3] for e in t["ev"] if e[0] != "api"]))
    for _ in range(chk.pick(100, 2000)):
        traces.append(pure_trace([random_tables(chk, rng)], "random tables"))
    for t in traces:
        for e in t["ev"]:
            if e[0] == "vsdram":
                chk.count("sdram_alloc_for_vertices calls that " + ("returned" if e[2][0] == "ok" else "raised " + e[2][1]))
            elif e[0] == "tables":
                chk.count("build_routing_tables calls that " + ("returned" if e[5][0] == "ok" else "raised " + e[5][1]))
    chk.extra["glue_traces"] = dict(small_scope=nsmall, random=len(traces) - nsmall)
    rej = chk.validate_beyond("GlueTrace", "GlueTrace.cfg", traces,
                              "glue utilities (sdram_alloc_for_vertices, build_application_map, build_routing_tables) "
                              "against Glue.tla", batch=chk.pick(400, 800))
    for j in jobs:
        j.result()
    for (cfg, what), j in zip(wrong, wjobs):
        r = j.result()
        if r.ok or what not in (r.error or ""):
            raise MachineryError("%s should violate %s: %s" % (cfg, what, r.error))
    return rej


def selftest(chk):
    """Binding demonstration: corrupted outcomes, dropped commands and altered inputs must be rejected."""
    import copy
    allocations = {"a": {Cores: slice(1, 2), SDRAM: slice(0, 6)}, "b": {Cores: slice(2, 4), SDRAM: slice(6, 26)},
                   "c": {Cores: slice(4, 5)}}
    placements = {"a": (0, 0), "b": (0, 0), "c": (0, 0)}
    g = Rig(1, 1, 64)
    try:
        g.vsdram(placements, allocations, 30, "context", True, True)
    finally:
        g.close()
    good = g.trace("selftest")
    good["ev"].append(appmap_event({"a": "x.aplx", "b": "y.aplx", "c": "x.aplx"}, placements, allocations, Cores, True, _VIdx()))
    na, nb = Net("s1", ["sink"]), Net("s2", ["sink"])
    quiet = type("Q", (), dict(count=lambda self, *a: None))()
    good["ev"].append(tables_event(quiet, {na: two_hop((0, 1), 0, 0, False), nb: two_hop((0, 1), 0, 1, True)},
                                   {na: km("0000"), nb: km("0001")}))

    def mut(f):
        t = copy.deepcopy(good)
        f(t["ev"])
        return t

    def drop_last_alloc(ev):
        cmds = ev[0][3]
        k = max(i for i, c in enumerate(cmds) if c[0] == 28)
        del cmds[k]

    def put_back(ev):
        for fullt in ev[2][4][1]:
            redt = next(r for r in ev[2][5][1] if r[:2] == fullt[:2])
            for q in fullt[2]:
                if q not in redt[2]:
                    redt[2].insert(0, copy.deepcopy(q))

    def first_write(ev):
        return next(c for c in ev[0][3] if c[0] in (3, 5))
    cases = [
        (good, None),
        (mut(lambda ev: ev[0][2][1][0].__setitem__(2, ev[0][2][1][0][2] + 2)), "ViewsCoverBlocks"),      # a view too long
        (mut(lambda ev: ev[0][2][1].pop()), "ViewsCoverBlocks"),                                       # a vertex unserved
        (mut(lambda ev: ev[0][1]["verts"][0][4].__setitem__(0, 3)), "VertexAllocCommands"),           # tag is not the core
        (mut(lambda ev: ev[0][1].__setitem__("app", 31)), "VertexAllocCommands"),                     # another application
        (mut(lambda ev: ev[0][1].__setitem__("clear", 0)), "ClearedExactlyTheBlocks"),
        (mut(lambda ev: first_write(ev)[10].__setitem__(0, 0)), "ClearedExactlyTheBlocks"),           # not zeros
        (mut(drop_last_alloc), "SimulatorFollowsMachine"),
        (mut(lambda ev: ev[0][1]["verts"][2].__setitem__(3, [30, 34])), "VertexAllocCommands"),       # a vertex left out
        (mut(lambda ev: ev[1][2][1][0][3].append(9)), "AppMapExact"),
        (mut(lambda ev: ev[1][1][2].__setitem__(1, "y.aplx")), "AppMapExact"),
        (mut(put_back), "OmitsUnaliasedStraightRoutes"),                                              # nothing omitted
        (mut(lambda ev: next(t for t in ev[2][5][1] if len(t[2]) > 1)[2].pop()), "OmissionPreservesRouting"),
        (mut(lambda ev: ev[2][4][1][0][2][0].__setitem__(4, 1 << 7)), "FullTablesExact"),
        (mut(lambda ev: ev[2].__setitem__(5, ["raise", "KeyError"])), "TablesNoOtherError"),
    ]
    rej = chk.validate("GlueTrace", "GlueTrace.cfg", [c[0] for c in cases])
    got = {id(t): cl for t, _, cl in rej}
    msgs = []
    for k, (t, want) in enumerate(cases):
        cl = got.get(id(t))
        if (want is None) != (cl is None) or (want and want not in cl):
            msgs.append("case %d: expected %s, got %s" % (k, want, cl))
    return not msgs, "; ".join(msgs) or "%d corrupted glue traces rejected with the expected clauses" % (len(cases) - 1)
