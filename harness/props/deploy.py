"""End to end (beyond the listed properties): probe a simulated machine, place and route on what the probe reported,
load the tables and the applications through the real MachineController, then let TLC EXECUTE THE ROUTERS OF THE
SIMULATED MACHINE (Multicast!Propagate over the entries actually installed, on the fabric the machine actually has)
and check that every net's packet reaches exactly the cores that actually run the sink vertices' binaries.

One trace therefore crosses get_system_info -> build_machine / build_core_constraints -> place -> allocate -> route ->
routing_tree_to_tables -> minimise_tables -> build_application_map (all inside place_and_route_wrapper) ->
load_routing_tables -> load_application, with the invariants of C01 (delivery), C14 (busy cores and dead hardware are
never used), C10 (tables installed as given, in order) and C09 (requested cores, and only those, run their binary)
live at once.  Judged by MulticastTrace.tla; hosted by the C01 check through Check.validate_beyond.

No oracle here: the expectations handed to TLC are the wrapper's own placements / allocations (which cores each sink
vertex was given) and the simulator's state (which entries are installed, what each core runs).
"""
import os
import random

import pkg_resources

from rig.place_and_route import Machine, Cores, place_and_route_wrapper
from rig.place_and_route.constraints import ReserveResourceConstraint
from rig.routing_table import RoutingTableEntry, Routes
from rig.links import Links
from rig.machine_control import scp_connection, machine_controller
from rig.machine_control.machine_controller import MachineController

from ..env.spinnaker_sim import SimMachine, STATE_IDLE, STATE_RUN
from ..env.simnet import SimNet
from . import c01

STRUCT_TEXT = pkg_resources.resource_string("rig", "boot/sark.struct").decode()
APP_ID = 66


def snapshot(sim):
    return {(x, y, p): (c.core_state[p], c.core_app[p], c.core_image[p])
            for (x, y), c in sim.chips.items() for p in range(1, c.ncores)}


def deploy_one(chk, rng, workdir, i):
    p = c01.gen_problem(rng, chk)
    if p is None:
        return None, "no orthogonal keys"
    vr, nets, net_keys, m, cons = p
    if (0, 0) not in m or m.width * m.height > 49:
        return None, "machine without chip (0, 0) or too large for the simulated probe"
    ncores = {xy: max(1, min(18, m[xy][Cores])) for xy in m}
    sim = SimMachine(m.width, m.height, STRUCT_TEXT, dead_chips=set(m.dead_chips),
                     dead_links={(x, y, int(l)) for (x, y, l) in m.dead_links}, ncores=ncores)
    # chips differ in what they have left: memory, and router positions held by somebody else's application
    for xy in sorted(sim.chips):
        c = sim.chips[xy]
        if rng.random() < 0.4:
            c.sdram_next += 4 * rng.randint(1, 5000)
        if rng.random() < 0.3:
            c.sram_free -= 4 * rng.randint(1, 100)
        if rng.random() < 0.3:
            k = rng.choice((1, 3, 1000, 1015))
            for pos in range(1, 1 + k):
                c.rtr_owner[pos] = 20
    # some cores are busy with somebody else's application
    for xy in rng.sample(sorted(sim.chips), min(3, len(sim.chips))) if rng.random() < 0.6 else ():
        c = sim.chips[xy]
        for core in rng.sample(range(1, c.ncores), min(2, c.ncores - 1)):
            c.core_state[core], c.core_app[core] = STATE_RUN, 20
            sim._sync_core(c, core)
    before = snapshot(sim)
    # two or three binaries, dealt to the vertices
    binaries = []
    for k in range(rng.randint(1, 3)):
        path = os.path.join(workdir, "deploy-%d-%d.aplx" % (i, k))
        nwords = rng.choice((1, 2, 3, 63, 64, 65, 127, 128))          # around multiples of the 256-byte data buffer
        data = bytes(bytearray([k + 1] * 4 + [rng.randrange(256) for _ in range(4 * (nwords - 1))]))
        with open(path, "wb") as f:
            f.write(data)
        binaries.append((path, data))
    apps = {}
    for v in vr:
        if rng.random() < 0.9:
            apps[v] = rng.choice(binaries)[0]
    wcons = [c for c in cons if not isinstance(c, ReserveResourceConstraint)]
    pname, pk = c01.PLACERS[i % len(c01.PLACERS)]
    radius = rng.choice((0, 1, 2, 20))
    net = SimNet(sim)
    net.install(scp_connection, machine_controller)
    try:
        mc = MachineController("sim")
        si = mc.get_system_info()
        try:
            random.seed(chk.seed * 7919 + i)
            pl, al, amap, tabs = place_and_route_wrapper(vr, apps, nets, net_keys, si, wcons,
                                                         route_kwargs=dict(radius=radius), **pk(chk.seed * 7919 + i))
        except c01.GUARDS as ex:
            return None, "pipeline ended by %s (the documented way to fail)" % type(ex).__name__
        failed = None
        try:
            mc.load_routing_tables(tabs, app_id=APP_ID)
            mc.load_application(amap, app_id=APP_ID)
        except Exception as ex:                # judged by the specification (DeploymentCompletes)
            failed = type(ex).__name__
    finally:
        net.uninstall()
    # the fabric and the routers as the simulated machine has them
    dead_chips = {(x, y) for x in range(sim.width) for y in range(sim.height) if (x, y) not in sim.chips}
    dead_links = {(x, y, Links(l)) for (x, y), c in sim.chips.items() for l in range(6) if l not in c.links}
    fabric = Machine(sim.width, sim.height, dead_chips=dead_chips, dead_links=dead_links)
    installed = {}
    for (x, y), c in sim.chips.items():
        ents = [RoutingTableEntry({r for r in Routes if (route >> int(r)) & 1}, key, mask)
                for e in c.rtr if e is not None for (key, mask, route, app) in [e]]
        if ents:
            installed[(x, y)] = ents
    tr = c01.make_trace(chk, rng, fabric, nets, net_keys, pl, al, wcons, installed,
                        "deployed on the simulated machine: %s r=%d" % (pname, radius))
    after = snapshot(sim)
    want = {}
    data_of = dict(binaries)
    for v, path in apps.items():
        sl = al.get(v, {}).get(Cores)
        if sl is not None:
            x, y = pl[v]
            for core in range(sl.start, sl.stop):
                want[(x, y, core)] = list(bytearray(data_of[path]))
    evs = tr["ev"][:-1]
    if failed:
        evs.insert(0, ["failed", failed])
    for key in sorted(after):
        st, app, img = after[key]
        if key in want:
            evs.append(["core", key[0], key[1], key[2], want[key], st, app, [] if img is None else list(bytearray(img)),
                        before.get(key, (STATE_IDLE, 0, None))[0]])
        else:
            b = before[key]
            evs.append(["spare", key[0], key[1], key[2], b[0], b[1], st, app])
    # a vertex given a core the machine does not have is a violation too: it has no "after"
    for key in sorted(set(want) - set(after)):
        evs.append(["core", key[0], key[1], key[2], want[key], -1, -1, [], -1])
    evs.append(["done"])
    tr["ev"] = evs
    tr["app"] = APP_ID
    return tr, None


def run_beyond(chk):
    rng = random.Random(chk.seed + 99)
    workdir = os.path.join(chk.tmp, "deploy")
    os.makedirs(workdir, exist_ok=True)
    traces = []
    for i in range(chk.pick(60, 600)):
        tr, why = deploy_one(chk, rng, workdir, i)
        if tr is None:
            chk.skip("deploy: " + why)
        else:
            traces.append(tr)
    return chk.validate_beyond("MulticastTrace", "MulticastTrace.cfg", traces,
                               "probe -> place and route -> load tables and applications on the simulated machine; "
                               "TLC executes the installed routers", batch=400)
