"""Whole controller sessions (beyond the listed properties): SessionDesign.tla / SessionTrace.tla.

D: SessionDesign.tla - every interleaving of loads, signals, the applications' own progress, SDRAM allocation and
   freeing, router-entry loading and clearing and IP-tag calls about two applications on a small machine; machine
   invariants, Isolation, NoLeak, Releases, BlocksStable; two wrong designs must be refuted.
T: a real MachineController driven through random sessions against the simulated machine.  Every call is one event:
   its arguments, its outcome, the commands the machine executed during it and the machine's state afterwards, judged
   by SessionTrace.tla against the machine model of Session.tla (which also validates the simulator).

No oracle here: the generator looks at the simulator only to CHOOSE arguments (a pointer to free, a core that runs);
whether anything is right is decided by TLC.  Hosted by the C07 check through Check.validate_beyond.
"""
import os
import random
import struct

import pkg_resources

from rig.machine_control import scp_connection, machine_controller, consts
from rig.machine_control.machine_controller import MachineController
from rig.routing_table import RoutingTableEntry, Routes

from ..env.spinnaker_sim import SimMachine, SDRAM_BASE, STATE_IDLE, STATE_RUN
from ..env.simnet import SimNet

STRUCT_TEXT = pkg_resources.resource_string("rig", "boot/sark.struct").decode()
NN_FFE = 15


def halves(a):
    a &= 0xffffffff
    return [(a >> 16) & 0xffff, a & 0xffff]


# ---------------------------------------------------------------------------------------------- projection
def project(sim):
    """the machine's state as the tuples of Session.tla (mechanical copy of the simulator's fields)"""
    core, alloc, brk, own, ent, iptag = [], [], [], [], [], []
    for (x, y) in sorted(sim.chips):
        c = sim.chips[(x, y)]
        for p in range(1, 18):
            if c.core_state[p] != STATE_IDLE or c.core_app[p] != 0:
                core.append([x, y, p, c.core_state[p], c.core_app[p]])
        for ptr, (size, tag, app) in sorted(c.sdram_allocs.items()):
            alloc.append([x, y, ptr - SDRAM_BASE, size, tag, app])
        if c.sdram_next != SDRAM_BASE:
            brk.append([x, y, c.sdram_next - SDRAM_BASE])
        for pos, app in sorted(c.rtr_owner.items()):
            own.append([x, y, pos, app])
        for pos, e in enumerate(c.rtr):
            if e is not None:
                key, mask, route, app = e
                ent.append([x, y, pos, app] + halves(key) + halves(mask) + halves(route))
        for tag, (port, addr) in sorted(c.iptags.items()):
            iptag.append([x, y, tag] + halves(addr) + [port & 0xffff])
    return dict(core=core, alloc=alloc, brk=brk, own=own, ent=ent, iptag=iptag)


def cmd_records(records):
    """the simulator's command log as the command tuples of Session.tla"""
    out = []
    for r in records:
        aux = []
        if r["cmd"] == 29:
            aux = [[pos] + halves(k) + halves(m) + halves(rt) for (pos, k, m, rt) in r.get("installed_entries", [])]
        elif r["cmd"] == 20 and (r["arg1"] >> 24) == NN_FFE:
            aux = [list(c) for c in r.get("loaded", [])]
        elif r["cmd"] == 3:
            aux = [0 if any(bytearray(r["data"])) else 1]
        elif r["cmd"] == 5:
            aux = [0 if r["arg2"] else 1]
        ra = r.get("reply_args") or []
        out.append([r["cmd"], r["x"], r["y"], r["p"], halves(r["arg1"]), halves(r["arg2"]), halves(r["arg3"]),
                    len(r["data"]), r.get("rc") or 0, halves(ra[0]) if ra else [0, 0], aux, list(r["raw_dest"])])
    return out


# ---------------------------------------------------------------------------------------------- calls
def route_word(routes):
    w = 0
    for r in routes:
        w |= 1 << int(r)
    return w


def make_entries(raw):
    return [RoutingTableEntry({r for r in Routes if (u32(e[4:6]) >> int(r)) & 1}, u32(e[0:2]), u32(e[2:4])) for e in raw]


def u32(hv):
    return (hv[0] << 16) | hv[1]


def perform(mc, wd, name, a, blocks):
    """call the method `name` of the real controller with the arguments `a`; the outcome, mechanically encoded"""
    if name == "send_signal":
        sig = getattr(consts.AppSignal, a["sig"]) if a.get("as_enum") else a["sig"]
        mc.send_signal(sig, a["app"])
        return ["ok"]
    if name == "count":
        states = a["states"]
        arg = states[0] if a.get("single") else ([getattr(consts.AppState, s) for s in states] if a.get("as_enum")
                                                  else list(states))
        return ["ok", int(mc.count_cores_in_state(arg, a["app"]))]
    if name == "wait":
        return ["ok", int(mc.wait_for_cores_to_reach_state(a["state"], a["count"], a["app"],
                                                           poll_interval=a["poll"] / 1000.0,
                                                           timeout=a["timeout"] / 1000.0))]
    if name == "sdram_alloc":
        try:
            if a["filelike"]:
                f = mc.sdram_alloc_as_filelike(a["size"], a["tag"], a["x"], a["y"], a["app"], bool(a["clear"]))
                return ["ok", f.address - SDRAM_BASE, len(f)]
            return ["ok", mc.sdram_alloc(a["size"], a["tag"], a["x"], a["y"], a["app"], bool(a["clear"])) - SDRAM_BASE]
        except machine_controller.SpiNNakerMemoryError as ex:
            return ["raise", type(ex).__name__, int(bool(ex.tag_in_use))]
    if name == "sdram_free":
        mc.sdram_free(SDRAM_BASE + a["off"], a["x"], a["y"])
        return ["ok"]
    if name == "iptag_set":
        mc.iptag_set(a["tag"], ".".join(str(b) for b in a["ip"]), a["port"], a["x"], a["y"])
        return ["ok"]
    if name == "iptag_clear":
        mc.iptag_clear(a["tag"], a["x"], a["y"])
        return ["ok"]
    if name == "iptag_get":
        t = mc.iptag_get(a["tag"], a["x"], a["y"])
        return ["ok", [int(b) for b in t.addr.split(".")], int(t.port), int(t.flags)]
    if name == "set_led":
        action = {0: False, 1: True, 2: None}[a["action"]]
        mc.set_led(a["leds"][0] if a.get("single") else list(a["leds"]), action, a["x"], a["y"])
        return ["ok"]
    if name == "load_entries":
        mc.load_routing_table_entries(make_entries(a["entries"]), a["x"], a["y"], a["app"])
        return ["ok"]
    if name == "load_tables":
        mc.load_routing_tables({(t[0], t[1]): make_entries(t[2]) for t in a["tables"]}, a["app"])
        return ["ok"]
    if name == "clear_entries":
        mc.clear_routing_table_entries(a["x"], a["y"], a["app"])
        return ["ok"]
    if name == "get_entries":
        got = mc.get_routing_table_entries(a["x"], a["y"])
        return ["ok", [[pos, int(app), int(core)] + halves(e.key) + halves(e.mask) + halves(route_word(e.route))
                       for pos, item in enumerate(got) if item is not None for (e, app, core) in [item]]]
    if name == "load_app":
        path = wd.write(bytes(bytearray(a["binary"])), "session")
        mc.load_application(path, {(t[0], t[1]): set(t[2]) for t in a["targets"]}, app_id=a["app"], wait=bool(a["wait"]))
        return ["ok"]
    if name == "app_enter":
        ctx = mc.application(a["app"])
        ctx.__enter__()
        blocks.append((ctx, a["app"]))
        return None                               # entering sends nothing and changes nothing: no event
    if name == "app_exit":
        blocks.pop()[0].__exit__(None, None, None)
        return ["ok"]
    if name == "status":
        s = mc.get_processor_status(a["p"], a["x"], a["y"])
        return ["ok", int(s.cpu_state), int(s.app_id)]
    if name == "chip_info":
        i = mc.get_chip_info(a["x"], a["y"])
        return ["ok", int(i.num_cores), [int(s) for s in i.core_states], int(i.largest_free_rtr_mc_block)]
    raise AssertionError(name)


class Workdir(object):
    def __init__(self, base):
        self.dir = os.path.join(base, "session-aplx")
        os.makedirs(self.dir, exist_ok=True)
        self.n = 0

    def write(self, data, tag):
        self.n += 1
        path = os.path.join(self.dir, "%s-%d.aplx" % (tag, self.n))
        with open(path, "wb") as f:
            f.write(data)
        return path


# ---------------------------------------------------------------------------------------------- one session
APPS = (16, 30, 66)
SIGNALS = ("stop", "start", "sync0", "sync1", "pause", "cont", "exit", "timer", "usr0", "usr3")
STATES = ("idle", "wait", "run", "sync0", "sync1", "pause", "exit", "runtime_exception", "c_main")


def rand_entries(rng, n):
    out = []
    for _ in range(n):
        route = 0
        for b in rng.sample(range(24), rng.randint(1, 3)):
            route |= 1 << b
        mask = rng.getrandbits(32) | 1
        out.append(halves(rng.getrandbits(32) & mask) + halves(mask) + halves(route))
    return out


def choose_call(rng, sim, blocks, strict_tag):
    """the next call and its arguments; looks at the simulator only to make the call interesting"""
    chips = sorted(sim.chips)
    xy = rng.choice(chips)
    app = rng.choice(APPS)
    kind = rng.choice(("load_app", "load_app", "send_signal", "send_signal", "env", "env", "count", "wait",
                       "sdram_alloc", "sdram_alloc", "sdram_alloc", "sdram_free", "iptag", "set_led",
                       "load_entries", "load_entries", "load_tables", "clear_entries", "get_entries",
                       "app_block", "status", "chip_info"))
    if kind == "load_app":
        free = [(c, p) for c in chips for p in range(1, sim.chips[c].ncores)
                if sim.chips[c].core_state[p] == STATE_IDLE or sim.chips[c].core_app[p] == app]
        if not free:
            return None
        tg = {}
        for (c, p) in rng.sample(free, rng.randint(1, min(4, len(free)))):
            tg.setdefault(c, []).append(p)
        n = rng.choice((16, 40, 256, 260))
        return "load_app", dict(app=app, wait=rng.randint(0, 1), binary=[rng.randrange(256) for _ in range(n)],
                                targets=[[c[0], c[1], sorted(ps)] for c, ps in sorted(tg.items())])
    if kind == "send_signal":
        if rng.random() < 0.06:
            return "send_signal", dict(sig=rng.choice(("bogus", "sync2", "")), app=app, as_enum=0)
        return "send_signal", dict(sig=rng.choice(SIGNALS), app=app, as_enum=int(rng.random() < 0.4))
    if kind == "env":
        busy = [(c, p) for c in chips for p in range(1, sim.chips[c].ncores) if sim.chips[c].core_state[p] == STATE_RUN]
        if not busy:
            return None
        c, p = rng.choice(busy)
        return "env", dict(x=c[0], y=c[1], p=p, state=rng.choice((8, 8, 9, 9, 11, 2, 6)))
    if kind == "count":
        k = rng.choice((1, 1, 2, 3))
        states = [rng.choice(STATES) for _ in range(k)]
        if rng.random() < 0.05:
            states[0] = "running"
        return "count", dict(states=states, app=rng.choice(APPS + (0,)), single=int(k == 1 and rng.random() < 0.6),
                             as_enum=int(rng.random() < 0.3 and "running" not in states))
    if kind == "wait":
        return "wait", dict(state=rng.choice(STATES[1:]), count=rng.choice((0, 1, 2, 5)), app=app,
                            poll=rng.choice((100, 50, 250)), timeout=rng.choice((0, 100, 300, 325)))
    if kind == "sdram_alloc":
        heap = sim.chips[xy].sdram_limit - SDRAM_BASE
        size = rng.choice((0, 1, 3, 4, 8, 21, 64, heap // 3, heap, heap + 4))
        return "sdram_alloc", dict(size=size, tag=rng.choice((0, 0, 1, 1, 2, 255)), x=xy[0], y=xy[1], app=app,
                                   clear=rng.randint(0, 1), filelike=rng.randint(0, 1))
    if kind == "sdram_free":
        ptrs = sorted(sim.chips[xy].sdram_allocs)
        off = (rng.choice(ptrs) - SDRAM_BASE) if ptrs and rng.random() < 0.85 else rng.choice((0, 12, 400))
        return "sdram_free", dict(off=off, x=xy[0], y=xy[1])
    if kind == "iptag":
        which = rng.choice(("iptag_set", "iptag_set", "iptag_get", "iptag_get", "iptag_clear"))
        a = dict(tag=rng.choice((0, 1, 2, 7)), x=xy[0], y=xy[1])
        if which == "iptag_set":
            a.update(ip=[rng.randrange(256) for _ in range(4)], port=rng.choice((1, 50000, 17893, 65535)))
        return which, a
    if kind == "set_led":
        leds = rng.sample(range(4), rng.randint(1, 3))
        return "set_led", dict(leds=leds, action=rng.randint(0, 2), x=xy[0], y=xy[1], single=int(len(leds) == 1 and rng.random() < 0.5))
    if kind == "load_entries":
        n = rng.choice((1, 1, 2, 3, 6)) if rng.random() < 0.97 else rng.choice((1020, 1023, 1024))
        return "load_entries", dict(x=xy[0], y=xy[1], app=app, entries=rand_entries(rng, n))
    if kind == "load_tables":
        some = rng.sample(chips, rng.randint(1, len(chips)))
        return "load_tables", dict(app=app, tables=[[c[0], c[1], rand_entries(rng, rng.randint(1, 4))] for c in some])
    if kind == "clear_entries":
        return "clear_entries", dict(x=xy[0], y=xy[1], app=app)
    if kind == "get_entries":
        return "get_entries", dict(x=xy[0], y=xy[1])
    if kind == "app_block":
        if blocks and rng.random() < 0.6:
            return "app_exit", dict(app=blocks[-1][1])
        if len(blocks) < 2:
            return "app_enter", dict(app=app)
        return None
    if kind == "status":
        return "status", dict(x=xy[0], y=xy[1], p=rng.randrange(1, sim.chips[xy].ncores))
    return "chip_info", dict(x=xy[0], y=xy[1])


def one_session(rng, wd, nsteps, strict_tag=0, shape=None):
    w, h = shape or rng.choice(((1, 1), (2, 1), (2, 1), (2, 2)))
    ncores = {(x, y): rng.choice((18, 18, 6, 3)) for x in range(w) for y in range(h)}
    heap = rng.choice((64, 256, 1024))
    sim = SimMachine(w, h, STRUCT_TEXT, ncores=ncores)
    for c in sim.chips.values():
        c.sdram_next = SDRAM_BASE
        c.sdram_limit = SDRAM_BASE + heap
    net = SimNet(sim)
    net.install(scp_connection, machine_controller)
    evs = []
    blocks = []
    try:
        mc = MachineController("sim")
        while len(evs) < nsteps:
            choice = choose_call(rng, sim, blocks, strict_tag)
            if choice is None:
                continue
            name, a = choice
            if name == "env":
                c = sim.chips[(a["x"], a["y"])]
                c.core_state[a["p"]] = a["state"]
                sim._sync_core(c, a["p"])
                evs.append(["env", a["x"], a["y"], a["p"], a["state"], project(sim)])
                continue
            logpos = len(sim.log)
            try:
                outcome = perform(mc, wd, name, a, blocks)
            except Exception as ex:          # judged by the specification
                outcome = ["raise", type(ex).__name__]
            if outcome is None:
                continue
            args = {k: v for k, v in a.items() if k not in ("binary",)}
            evs.append(["api", name, args, outcome, cmd_records(sim.log[logpos:]), project(sim)])
        while blocks:                       # leave the blocks still open
            logpos = len(sim.log)
            app = blocks[-1][1]
            try:
                outcome = perform(mc, wd, "app_exit", dict(app=app), blocks)
            except Exception as ex:
                outcome = ["raise", type(ex).__name__]
            evs.append(["api", "app_exit", dict(app=app), outcome, cmd_records(sim.log[logpos:]), project(sim)])
    finally:
        net.uninstall()
    return dict(chips=[[x, y, sim.chips[(x, y)].ncores] for (x, y) in sorted(sim.chips)], heap=heap,
                strict_tag=strict_tag, ev=evs)


def tag_sessions(rng, wd):
    """allocation failures with a tag, for each reason, judged with TagInUseHonest"""
    out = []
    for reason in ("tag", "memory", "zero"):
        sim = SimMachine(1, 1, STRUCT_TEXT)
        c = sim.chips[(0, 0)]
        c.sdram_next, c.sdram_limit = SDRAM_BASE, SDRAM_BASE + 64
        net = SimNet(sim)
        net.install(scp_connection, machine_controller)
        evs = []
        try:
            mc = MachineController("sim")
            calls = [dict(size=8, tag=5, x=0, y=0, app=30, clear=0, filelike=0)]
            calls.append(dict(size={"tag": 8, "memory": 100, "zero": 0}[reason], tag=5 if reason == "tag" else 6,
                              x=0, y=0, app=30, clear=0, filelike=0))
            for a in calls:
                logpos = len(sim.log)
                try:
                    outcome = perform(mc, wd, "sdram_alloc", a, [])
                except Exception as ex:
                    outcome = ["raise", type(ex).__name__]
                evs.append(["api", "sdram_alloc", a, outcome, cmd_records(sim.log[logpos:]), project(sim)])
        finally:
            net.uninstall()
        out.append(dict(chips=[[0, 0, 18]], heap=64, strict_tag=1, ev=evs, label="allocation fails: " + reason))
    return out


def replay_design(chk, wd, n):
    """job R: call sequences chosen by TLC's simulator from SessionDesign (SessionSim.tla) are made through the real
    controller; the trace ends with the state the design reached."""
    import json
    from .. import tlc as tlcmod
    from ..core import MachineryError
    r = tlcmod.run_tlc("SessionSim", "SessionSim.cfg", workers=1, timeout=900, simulate="num=%d" % n, depth=15,
                       seed=chk.seed + 11)
    chk.jobs.append(dict(job="S", module="SessionSim", cfg="SessionSim.cfg", **r.summary()))
    if not r.ok or not r.infos:
        raise MachineryError("simulation of SessionSim failed: %s" % (r.error or "no behaviour printed"))
    traces = []
    for line in sorted(set(r.infos)):
        b = json.loads(line.replace('\\"', '"'))
        ncores = {(c[0], c[1]): c[2] for c in b["chips"]}
        w, h = 1 + max(c[0] for c in b["chips"]), 1 + max(c[1] for c in b["chips"])
        sim = SimMachine(w, h, STRUCT_TEXT, ncores=ncores)
        for c in sim.chips.values():
            c.sdram_next, c.sdram_limit = SDRAM_BASE, SDRAM_BASE + b["heap"]
        net = SimNet(sim)
        net.install(scp_connection, machine_controller)
        evs = []
        try:
            mc = MachineController("sim")
            for act in b["hist"]:
                kind = act[0]
                if kind == "progress":
                    c = sim.chips[(act[1], act[2])]
                    c.core_state[act[3]] = act[4]
                    sim._sync_core(c, act[3])
                    evs.append(["env", act[1], act[2], act[3], act[4], project(sim)])
                    continue
                if kind == "load":
                    tg = {}
                    for (x, y, p) in act[2]:
                        tg.setdefault((x, y), []).append(p)
                    name, a = "load_app", dict(app=act[1], wait=act[3], binary=[7] * 24,
                                               targets=[[x, y, sorted(ps)] for (x, y), ps in sorted(tg.items())])
                elif kind == "signal":
                    name, a = "send_signal", dict(sig=act[1], app=act[2], as_enum=0)
                elif kind == "alloc":
                    name, a = "sdram_alloc", dict(x=act[1], y=act[2], size=act[3], tag=act[4], app=act[5], clear=0, filelike=0)
                elif kind == "free":
                    name, a = "sdram_free", dict(x=act[1], y=act[2], off=act[3])
                elif kind == "entries":
                    name, a = "load_entries", dict(x=act[1], y=act[2], app=act[4],
                                                   entries=[[0, i, 0, 15, 0, 1] for i in range(1, act[3] + 1)])
                elif kind == "clear":
                    name, a = "clear_entries", dict(x=act[1], y=act[2], app=act[3])
                elif kind == "iptag":
                    name = "iptag_set" if act[4] else "iptag_clear"
                    a = dict(x=act[1], y=act[2], tag=act[3])
                    if act[4]:
                        a.update(ip=[2, 0, 1, 0], port=17893)
                else:
                    raise MachineryError("unknown design action %r" % (act,))
                logpos = len(sim.log)
                try:
                    outcome = perform(mc, wd, name, a, [])
                except Exception as ex:
                    outcome = ["raise", type(ex).__name__]
                args = {k: v for k, v in a.items() if k != "binary"}
                evs.append(["api", name, args, outcome, cmd_records(sim.log[logpos:]), project(sim)])
        finally:
            net.uninstall()
        evs.append(["design", b["final"]])
        traces.append(dict(chips=b["chips"], heap=b["heap"], strict_tag=0, ev=evs, label="tlc-simulated calls"))
        chk.replayed += 1
    return traces


def run_beyond(chk):
    """called by the hosting check: design jobs + trace validation, all reported under beyond_the_property"""
    rng = random.Random(chk.seed + 4242)
    for cfg in ("SessionDesign_cores.cfg", "SessionDesign_resources_quick.cfg" if chk.quick else "SessionDesign_resources.cfg"):
        chk.design("SessionDesign", cfg, label="beyond the property: session model", timeout=3600)
    for cfg, what in (("SessionDesign_stopcoresonly.cfg", "NoLeak"), ("SessionDesign_loadotherapp.cfg", "Inv")):
        r = chk.design("SessionDesign", cfg, allow_error=True, label="beyond the property: wrong session design (must fail)")
        if r.ok or what not in (r.error or ""):
            from ..core import MachineryError
            raise MachineryError("%s should violate %s: %s" % (cfg, what, r.error))
    wd = Workdir(chk.tmp)
    traces = [one_session(rng, wd, rng.randint(10, 28)) for _ in range(chk.pick(150, 1500))]
    rej = chk.validate_beyond("SessionTrace", "SessionTrace.cfg", traces,
                              "whole controller sessions against the machine model (Session.tla)", batch=400)
    rejr = chk.validate_beyond("SessionTrace", "SessionTrace.cfg", replay_design(chk, wd, chk.pick(80, 800)),
                               "calls chosen by TLC's simulator from SessionDesign, made through rig; the machine ends "
                               "in the design's state")
    rej2 = chk.validate_beyond("SessionTrace", "SessionTrace.cfg", tag_sessions(rng, wd),
                               "SpiNNakerMemoryError.tag_in_use says whether the tag was the reason")
    return rej, rejr, rej2


def selftest(chk):
    """Binding demonstration: corrupted outcomes, dropped commands and altered machine states must be rejected."""
    import copy
    rng = random.Random(7)
    wd = Workdir(chk.tmp)
    good = one_session(rng, wd, 150, shape=(2, 1))

    def first(evs, name, pred=lambda e: True):
        return next(i for i, e in enumerate(evs) if e[0] == "api" and e[1] == name and pred(e))

    def mut(f):
        t = copy.deepcopy(good)
        f(t["ev"])
        return t
    cases = [(good, None)]
    try:
        cases += [
            (mut(lambda ev: ev[first(ev, "count", lambda e: e[3][0] == "ok")][3].__setitem__(1, 99)), "CountIsMachines"),
            (mut(lambda ev: ev[first(ev, "send_signal", lambda e: e[3] == ["ok"])][4][0][5].__setitem__(0, 9)), "SignalCommand"),
            (mut(lambda ev: ev[first(ev, "sdram_alloc", lambda e: e[3][0] == "ok")][3].__setitem__(1, 4)), "AllocOutcome"),
            (mut(lambda ev: ev[first(ev, "load_entries", lambda e: e[3] == ["ok"])][4].pop()), "EntriesCommands"),
            (mut(lambda ev: ev[first(ev, "load_app")][5]["core"].pop()), "SimulatorFollowsMachine"),
            (mut(lambda ev: ev[first(ev, "status")][3].__setitem__(1, 3)), "StatusIsMachines"),
        ]
    except StopIteration:
        return False, "the self-test session lacks one of the calls it corrupts"
    rej = chk.validate("SessionTrace", "SessionTrace.cfg", [c[0] for c in cases])
    got = {id(t): cl for t, _, cl in rej}
    msgs = []
    for t, want in cases:
        cl = got.get(id(t))
        if (want is None) != (cl is None) or (want and want not in cl):
            msgs.append("expected %s, got %s" % (want, cl))
    return not msgs, "; ".join(msgs) or "%d corrupted sessions rejected with the expected clauses" % (len(cases) - 1)
