"""Known findings: read-only at run time."""
import json
import os

PATH = os.path.join(os.path.dirname(os.path.dirname(os.path.abspath(__file__))), "known_findings.json")


def load_known():
    """property id -> {key: what} for entries with status 'known' (fixed entries suppress nothing)."""
    with open(PATH) as f:
        d = json.load(f)
    out = {}
    for e in d.get("findings", []):
        if e.get("status") == "known":
            out.setdefault(e["property"], {})[e["key"]] = e["what"]
    return out
