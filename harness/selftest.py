"""./check selftest [--fast]

fast: every module under spec/ parses (SANY) - used as MANIFEST.setup_cmd.
full: additionally, for every property module that defines selftest(), demonstrate the binding:
      corrupted / dropped / swapped events must be rejected by TLC with the expected clause.
"""
import glob
import importlib
import os
import subprocess
import sys

from . import tlc as tlcmod
from .core import Check, import_rig


def main():
    fast = "--fast" in sys.argv
    rc = 0
    mods = sorted(os.path.basename(p)[:-4] for p in glob.glob(os.path.join(tlcmod.SPEC_DIR, "*.tla")))
    procs = [(m, subprocess.Popen(["java", "-cp", tlcmod.JAR_CP, "tla2sany.SANY", m + ".tla"],
                                  cwd=tlcmod.SPEC_DIR, stdout=subprocess.PIPE, stderr=subprocess.STDOUT))
             for m in mods]
    for m, p in procs:
        out = p.communicate()[0].decode()
        bad = p.returncode != 0 or "*** Errors" in out or "Fatal errors" in out or "Parse Error" in out
        print("SANY %-24s %s" % (m, "FAIL" if bad else "ok"))
        if bad:
            print(out[-1500:])
            rc = 2
    if fast or rc:
        return rc
    import_rig()
    for path in sorted(glob.glob(os.path.join(os.path.dirname(__file__), "props", "c*.py"))) + \
            [os.path.join(os.path.dirname(__file__), "props", n) for n in ("session.py", "bmp.py", "wizard.py", "glue.py", "scripts.py", "structfile.py", "lifecycle.py")]:
        pid = os.path.basename(path)[:-3]
        mod = importlib.import_module("harness.props." + pid)
        if hasattr(mod, "selftest"):
            chk = Check(pid.upper(), "quick", 0)
            try:
                ok, msg = mod.selftest(chk)
            finally:
                import shutil
                shutil.rmtree(chk.tmp, ignore_errors=True)
            print("SELFTEST %s %s %s" % (pid.upper(), "ok" if ok else "FAIL", msg))
            if not ok:
                rc = 2
    return rc
