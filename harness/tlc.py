"""Run TLC and parse what it reports.

Everything here is mechanical: build the command line, run it under a timeout in a scratch
metadir, and extract from TLC's own output the state/transition counts, per-action coverage,
REJECT lines printed by trace specifications, and errors.  No verdict is made here.
"""
import json
import os
import re
import shutil
import subprocess
import tempfile
import time

JAR_CP = "/opt/veriftools/tla/tla2tools.jar:/opt/veriftools/tla/CommunityModules-deps.jar"
SPEC_DIR = os.path.join(os.path.dirname(os.path.dirname(os.path.abspath(__file__))), "spec")


class TLCResult(object):
    def __init__(self):
        self.ok = False            # "Model checking completed. No error has been found."
        self.generated = 0         # states generated (= transitions explored + initial)
        self.distinct = 0
        self.depth = 0
        self.rejects = []          # list of dicts parsed from REJECT| lines
        self.infos = []            # INFO| lines
        self.error = None          # first TLC error text (invariant violated, eval error...)
        self.coverage = {}         # action name -> (distinct, total) taken from -coverage output
        self.wall = 0.0
        self.rc = None
        self.out = ""
        self.cmd = ""
        self.timed_out = False

    def summary(self):
        return dict(ok=self.ok, generated=self.generated, distinct=self.distinct,
                    depth=self.depth, rejects=len(self.rejects), error=self.error,
                    wall_s=round(self.wall, 2))


_RE_STATES = re.compile(r"(\d+) states generated, (\d+) distinct states found, (\d+) states left")
_RE_DEPTH = re.compile(r"depth of the complete state graph search is (\d+)")
_RE_REJECT = re.compile(r'REJECT\|([^\n]*?)"?\s*$', re.M)
_RE_INFO = re.compile(r'INFO\|([^\n]*?)"?\s*$', re.M)
_RE_COV = re.compile(r"^<(\w+) line \d+, col \d+ to line \d+, col \d+ of module (\w+)(?: \([\d ]+\))?>: (\d+):(\d+)",
                     re.M)


def run_tlc(module, cfg, workers=8, timeout=600, env=None, extra=(), coverage=False,
            heap="4g", simulate=None, depth=None, seed=None, spec_dir=None, deadlock=None,
            dfs_queue=False):
    """Run TLC on spec/<module>.tla with spec/cfg/<cfg>.  Returns TLCResult."""
    spec_dir = spec_dir or SPEC_DIR
    meta = tempfile.mkdtemp(prefix="rigverif-tlc-")
    res = TLCResult()
    # on an oversubscribed machine (many checks at once) more worker threads only add contention: the result of a
    # TLC run does not depend on the number of workers (a job that asks for ONE worker keeps it: TLCSet registers)
    if workers > 1 and not simulate:
        try:
            load = os.getloadavg()[0] / (os.cpu_count() or 1)
        except OSError:
            load = 0
        if load > 1.5:
            workers = max(2, min(workers, int(workers / load) or 2))
        # ParallelGC starts one GC thread per core otherwise
    try:
        cfg_path = cfg if os.path.isabs(cfg) else os.path.join(spec_dir, "cfg", cfg)
        cmd = ["java", "-XX:+UseParallelGC", "-XX:ParallelGCThreads=%d" % max(2, min(8, workers)), "-Xmx" + heap]
        if dfs_queue:
            cmd.append("-Dtlc2.tool.queue.IStateQueue=StateDeque")
        cmd += ["-cp", JAR_CP, "tlc2.TLC",
                "-workers", str(workers), "-metadir", meta, "-noGenerateSpecTE",
                "-config", cfg_path]
        if coverage:
            cmd += ["-coverage", "1"]
        if simulate:
            cmd += ["-simulate", simulate]
        if depth is not None:
            cmd += ["-depth", str(depth)]
        if seed is not None:
            cmd += ["-seed", str(seed)]
        if deadlock is False:
            cmd += ["-deadlock"]
        cmd += list(extra)
        cmd.append(os.path.join(spec_dir, module + ".tla"))
        e = dict(os.environ)
        e.pop("JAVA_TOOL_OPTIONS", None)
        if env:
            e.update(env)
        res.cmd = " ".join(cmd)
        t0 = time.time()
        try:
            p = subprocess.run(cmd, cwd=spec_dir, env=e, stdout=subprocess.PIPE,
                               stderr=subprocess.STDOUT, timeout=timeout)
            res.rc = p.returncode
            res.out = p.stdout.decode("utf-8", "replace")
        except subprocess.TimeoutExpired as ex:
            res.timed_out = True
            res.out = (ex.stdout or b"").decode("utf-8", "replace")
            res.error = "TLC timed out after %ss" % timeout
        res.wall = time.time() - t0
        out = res.out
        m = None
        for m in _RE_STATES.finditer(out):
            pass
        if m:
            res.generated, res.distinct = int(m.group(1)), int(m.group(2))
        m = _RE_DEPTH.search(out)
        if m:
            res.depth = int(m.group(1))
        for m in _RE_REJECT.finditer(out):
            res.rejects.append(m.group(1))
        for m in _RE_INFO.finditer(out):
            res.infos.append(m.group(1))
        for m in _RE_COV.finditer(out):
            # keep the largest count reported for the action (coverage is printed more than once)
            name = m.group(1)
            d, t = int(m.group(3)), int(m.group(4))
            if name not in res.coverage or res.coverage[name][1] <= t:
                res.coverage[name] = (d, t)
        res.ok = ("Model checking completed. No error has been found." in out) or \
                 (simulate is not None and res.rc == 0 and "Error:" not in out)
        if not res.ok and res.error is None:
            i = out.find("Error:")
            res.error = out[i:i + 1500] if i >= 0 else ("TLC rc=%s; tail: %s" % (res.rc, out[-800:]))
        return res
    finally:
        shutil.rmtree(meta, ignore_errors=True)


def run_apalache(module, init, next_, inv, length, cinit=None, timeout=900, spec_dir=None):
    """apalache-mc check on spec/<module>.tla (symbolic, bounded by `length`; used for inductive invariants:
    --init=IndInit --inv=IndInv --length=1).  Returns (outcome, wall, tail) with outcome in
    "NoError" / "Error" (a counter-example exists) / "Failed" (the tool itself failed or timed out)."""
    spec_dir = spec_dir or SPEC_DIR
    out_dir = tempfile.mkdtemp(prefix="rigverif-apa-")
    cmd = ["apalache-mc", "check", "--init=" + init, "--next=" + next_, "--inv=" + inv, "--length=%d" % length,
           "--out-dir=" + out_dir, "--run-dir=" + os.path.join(out_dir, "run")]
    if cinit:
        cmd.append("--cinit=" + cinit)
    cmd.append(module + ".tla")
    e = dict(os.environ)
    e.pop("JAVA_TOOL_OPTIONS", None)
    t0 = time.time()
    try:
        p = subprocess.run(cmd, cwd=spec_dir, env=e, stdout=subprocess.PIPE, stderr=subprocess.STDOUT,
                           timeout=timeout)
        out = p.stdout.decode("utf-8", "replace")
        if "The outcome is: NoError" in out and p.returncode == 0:
            outcome = "NoError"
        elif "The outcome is: Error" in out:
            outcome = "Error"
        else:
            outcome = "Failed"
    except subprocess.TimeoutExpired as ex:
        out = (ex.stdout or b"").decode("utf-8", "replace") + "\napalache-mc timed out after %ss" % timeout
        outcome = "Failed"
    finally:
        shutil.rmtree(out_dir, ignore_errors=True)
    return outcome, time.time() - t0, out[-1500:]


def sany(module, spec_dir=None):
    spec_dir = spec_dir or SPEC_DIR
    p = subprocess.run(["java", "-cp", JAR_CP, "tla2sany.SANY", module + ".tla"], cwd=spec_dir,
                       stdout=subprocess.PIPE, stderr=subprocess.STDOUT)
    out = p.stdout.decode()
    return ("error" not in out.lower() or "Semantic errors:\n\n" not in out) and p.returncode == 0, out


def write_json(path, obj):
    with open(path, "w") as f:
        json.dump(obj, f, separators=(",", ":"))
