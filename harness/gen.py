"""Input generators shared by the place-and-route checks (machines with faults, nets).  They only build
inputs inside the properties' stated domains; they judge nothing."""
import itertools

from rig.links import Links
from rig.place_and_route import Machine, Cores, SDRAM


def mesh_dead_links(w, h):
    """the links that do not exist in a w x h machine without wrap-around connections"""
    dead = set()
    for x in range(w):
        for y in range(h):
            for l in Links:
                dx, dy = l.to_vector()
                if not (0 <= x + dx < w and 0 <= y + dy < h):
                    dead.add((x, y, l))
    return dead


def all_links(w, h):
    return [(x, y, l) for x in range(w) for y in range(h) for l in Links]


def live_reach(machine, a):
    """chips reachable from a over working links between working chips (directed) - used only to keep
    generated machines inside the 'connected' part of the domain when a check needs it; the verdict on
    connectivity is always TLC's (Hex!Connected)."""
    seen = {a}
    todo = [a]
    while todo:
        x, y = todo.pop()
        for l in Links:
            if (x, y, l) in machine:
                dx, dy = l.to_vector()
                n = ((x + dx) % machine.width, (y + dy) % machine.height)
                if n in machine and n not in seen:
                    seen.add(n)
                    todo.append(n)
    return seen


def is_connected(machine):
    chips = set(machine)
    return all(live_reach(machine, c) == chips for c in chips)


def random_machine(rng, maxw=8, maxh=8, p_mesh=0.3, p_dead_chip=0.05, fault_rate=None, resources=None,
                   one_way=0.5, connected=None, tries=30):
    """random machine: torus or mesh, dead chips, dead links in one or both directions"""
    for _ in range(tries):
        w, h = rng.randint(1, maxw), rng.randint(1, maxh)
        dead_links = set(mesh_dead_links(w, h)) if rng.random() < p_mesh else set()
        dead_chips = set()
        for x in range(w):
            for y in range(h):
                if rng.random() < p_dead_chip and len(dead_chips) < w * h - 1:
                    dead_chips.add((x, y))
        fr = fault_rate if fault_rate is not None else rng.choice((0, 0, 0.02, 0.05, 0.1, 0.25, 0.4))
        for (x, y, l) in all_links(w, h):
            if rng.random() < fr:
                dead_links.add((x, y, l))
                if rng.random() > one_way:       # both directions
                    dx, dy = l.to_vector()
                    dead_links.add(((x + dx) % w, (y + dy) % h, l.opposite))
        m = Machine(w, h, chip_resources=dict(resources or {Cores: 18, SDRAM: 128}),
                    dead_chips=dead_chips, dead_links=dead_links)
        if connected is None or is_connected(m) == connected:
            return m
    return Machine(2, 2, chip_resources=dict(resources or {Cores: 18, SDRAM: 128}))
