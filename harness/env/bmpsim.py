"""A simulated Board Management Processor (one per frame): main-board power, LEDs, FPGA registers, ADC block and
software version, answering the SCP commands rig's BMPController sends.  Environment and recorder only: whether
the controller sent the right thing and decoded the answer rightly is judged by BmpTrace.tla, which also re-derives
every effect logged here."""
import struct

RC_OK, RC_CMD, RC_ARG = 0x80, 0x83, 0x84


class BmpSim(object):
    def __init__(self, name, nboards=24, frame_id=0, version=(2, 1, 0), buffer_size=256):
        self.name = name
        self.nboards = nboards
        self.frame_id = frame_id
        self.version = version
        self.buffer_size = buffer_size
        self.power = set()                  # boards that are on
        self.leds = set()                   # (board, led) that are lit
        self.regs = {}                      # (board, fpga, addr) -> 32-bit value
        self.adc = {}                       # board -> 22 raw values
        self.log = []

    def deliver(self, datagram):
        if len(datagram) < 14:
            return []
        flags, tag, dpc, spc, dy, dx, sy, sx = struct.unpack_from("<8B", datagram, 2)
        cmd, seq = struct.unpack_from("<2H", datagram, 10)
        body = datagram[14:]
        a = list(struct.unpack_from("<3I", body.ljust(12, b"\0")))
        data = body[12:]
        board = dpc & 0x1f
        rec = dict(host=self.name, cmd=int(cmd), board=board, arg1=a[0], arg2=a[1], arg3=a[2], data=bytes(data),
                   dest=(dx, dy), port=dpc >> 5)
        self.log.append(rec)

        def reply(rc, args=(), payload=b""):
            rec["rc"], rec["reply_args"], rec["reply_data"] = rc, list(args), bytes(payload)
            hdr = struct.pack("<2x8B", 0x07, tag, spc, dpc, sy, sx, dy, dx)
            return [hdr + struct.pack("<2H", rc, seq) + b"".join(struct.pack("<I", v & 0xffffffff) for v in args)
                    + bytes(payload)]
        if board >= self.nboards:
            return reply(0x88)
        if cmd == 0:
            arg1 = (0 << 24) | (self.frame_id << 16) | (board << 8) | board       # code block, frame, CAN id, board
            arg2 = (0xFFFF << 16) | self.buffer_size
            return reply(RC_OK, (arg1, arg2, 1400000000),
                         b"BC&MP/Spin5-BMP\0" + ("%d.%d.%d" % self.version).encode() + b"\0")
        if cmd == 57:                                   # power: always executed by board 0's BMP for the masked boards
            on, mask = a[0] & 1, a[1]
            for b in range(self.nboards):
                if (mask >> b) & 1:
                    (self.power.add if on else self.power.discard)(b)
            return reply(RC_OK)
        if cmd == 25:                                   # LEDs of the masked boards: 2 bits of action per LED
            for b in range(self.nboards):
                if (a[1] >> b) & 1:
                    for led in range(8):
                        act = (a[0] >> (2 * led)) & 3
                        if act == 3 or (act == 1 and (b, led) not in self.leds):
                            self.leds.add((b, led))
                        elif act == 2 or act == 1:
                            self.leds.discard((b, led))
            return reply(RC_OK)
        if cmd in (17, 18):                             # FPGA register access through the SPI interface
            addr, n, fpga = a
            if addr % 4 or n != 4 or fpga > 2 or (cmd == 18 and len(data) != 4):
                return reply(RC_ARG)
            if cmd == 17:
                return reply(RC_OK, (), struct.pack("<I", self.regs.get((board, fpga, addr), 0)))
            self.regs[(board, fpga, addr)] = struct.unpack("<I", data)[0]
            return reply(RC_OK)
        if cmd == 48 and a[0] == 3:                     # ADC block
            raw = self.adc.get(board, [0] * 22)
            return reply(RC_OK, (), struct.pack("<8H4h4h4h2I", *raw))
        return reply(RC_CMD)
