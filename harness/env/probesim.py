"""Environment for C14 (probing): a SimMachine that is cheap to build for sparse / large address spaces and
whose probe-related replies can be planted from outside, plus a SimNet whose virtual clock cannot stand still.

Nothing here decides right or wrong.  Every reply is logged by SimMachine.deliver (inherited) and is judged by
TLC against the bit layouts written in spec/Probe.tla (clauses Env*), exactly like rig's own return values.

Differences from the base simulator (all additive, the base module is untouched):
 * only the chips listed in `live` are built; the system-variable block of a chip holds just the fields the
   probing code reads (p2p_addr, p2p_dims, num_cpus, vcpu_base, iobuf_size); the router copy, the VCPU blocks
   and the P2P tables are NOT initialised eagerly: unplanted memory reads as SimChip.background (pseudo-random
   junk), the P2P table of a chip is written by sync_p2p(chip) on request;
 * `sver` replies carry a per-core physical CPU number, optional labels after the patch level and an optional
   missing final NUL;
 * `info` replies can carry junk in the bits of arg1 that the documentation leaves unassigned
   (chip.info_junk) - the documented fields are produced by the base simulator from the chip's attributes;
 * a chip can be listed in every P2P table and yet be unreachable in the way real machines mostly show it: the
   Ethernet chip's monitor answers on its behalf with a fatal P2P return code (`refusing`: chip -> return code),
   not with silence;
 * the size of a console buffer block (sv.iobuf_size) is a per-chip quantity (chip.iobuf_size when set).
"""
import struct

from .simnet import SimNet
from .spinnaker_sim import SimMachine, SimChip, SDRAM_BASE, SYSRAM_BASE, RTR_P2P

INFO_RESERVED_MASK = 0xFC0000E0      # bits 5..7 and 26..31 of arg1 of the chip-information reply


class ProbeSim(SimMachine):
    def __init__(self, width, height, struct_text, live, root=(0, 0), buffer_size=256, iobuf_size=64):
        self._probe_ready = False
        SimMachine.__init__(self, 1, 1, struct_text, buffer_size=buffer_size, root=root)
        self.width, self.height = width, height
        self.iobuf_size = iobuf_size
        self.chips = {}
        for (x, y) in live:
            self.chips[(x, y)] = SimChip(x, y, 18, ())
        self.phys_cpu = list(range(18))        # virtual core -> physical core, the same on every chip
        self.version_labels = ""
        self.version_final_nul = True
        self.build_date = 1400000000
        self.refusing = {}                     # (x, y) -> return code answered on behalf of that chip
        self._probe_ready = True
        for c in self.chips.values():
            self.init_chip(c)

    # ------------------------------------------------------------------ memory
    def _init_memory(self):
        # the base constructor calls this for its 1x1 machine: nothing to do, see init_chip
        if self._probe_ready:
            for c in self.chips.values():
                self.init_chip(c)

    def init_chip(self, c):
        c.vcpu_base = SYSRAM_BASE + 0x4000
        c.sdram_sys = SDRAM_BASE + 0x7000000
        c.rtr_copy = SDRAM_BASE + 0x7100000
        c.alloc_tag = SDRAM_BASE + 0x7200000
        c.info_junk = 0
        self.sync_sv(c)

    def sync_sv(self, c):
        c.write(self.sv_addr("p2p_addr"), struct.pack("<H", (c.x << 8) | c.y))
        c.write(self.sv_addr("p2p_dims"), struct.pack("<H", ((self.width & 0xff) << 8) | (self.height & 0xff)))
        c.write(self.sv_addr("num_cpus"), struct.pack("<B", c.ncores))
        c.write(self.sv_addr("vcpu_base"), struct.pack("<I", c.vcpu_base))
        c.write(self.sv_addr("iobuf_size"), struct.pack("<I", getattr(c, "iobuf_size", self.iobuf_size)))

    def _sync_router(self, c, idxs=None):
        pass

    def sync_p2p(self, xy):
        self._sync_p2p(self.chips[xy])

    def _sync_p2p(self, c):
        # chips that are refused on are in the table exactly like silent ones
        silent = self.unresponsive
        self.unresponsive = set(silent) | set(self.refusing)
        try:
            SimMachine._sync_p2p(self, c)
        finally:
            self.unresponsive = silent

    def set_refusing(self, codes):
        """codes: {(x, y): return code}; these chips are not built, a request to them is answered with the code"""
        self.refusing = dict(codes)
        for c in codes:
            self.chips.pop(c, None)

    def deliver(self, datagram):
        before = len(self.log)
        out = SimMachine.deliver(self, datagram)
        rec = self.log[-1] if len(self.log) > before else None
        if out and rec is not None and (rec["x"], rec["y"]) in self.refusing and (rec["x"], rec["y"]) not in self.chips:
            rc = self.refusing[(rec["x"], rec["y"])]
            rec["rc"], rec["reply_args"], rec["reply_data"] = rc, [], b""
            out = [out[0][:10] + struct.pack("<H", rc) + out[0][12:14]]
        return out

    def set_unresponsive(self, chips):
        self.unresponsive = set(chips)
        for c in chips:
            self.chips.pop(c, None)

    # ------------------------------------------------------------------ commands
    def _cmd_0(self, chip, p, a, data, rec):
        arg1 = (((chip.x << 8) | chip.y) << 16) | (self.phys_cpu[p % 18] << 8) | p
        if self.legacy_version:
            arg2 = ((self.version[0] * 100 + self.version[1]) << 16) | self.buffer_size
            payload = self.name.encode() + b"\0"
        else:
            arg2 = (0xFFFF << 16) | self.buffer_size
            payload = self.name.encode() + b"\0" + ("%d.%d.%d" % tuple(self.version)).encode() + \
                self.version_labels.encode() + (b"\0" if self.version_final_nul else b"")
        return (arg1, arg2, self.build_date), payload

    def _cmd_31(self, chip, p, a, data, rec):
        (arg1, arg2, arg3), payload = SimMachine._cmd_31(self, chip, p, a, data, rec)
        arg1 |= chip.info_junk & INFO_RESERVED_MASK
        return (arg1, arg2, arg3), payload


class ProbeNet(SimNet):
    """SimNet whose select() costs a microsecond of virtual time whenever it returns empty-handed, so that a
    deadline that has been reached is also passed (rig re-sends when `deadline < now`, strictly)."""

    def __init__(self, machine, fate=None):
        SimNet.__init__(self, machine, fate)
        net = self
        inner = self.select_module.select

        class _SelectModule(object):
            @staticmethod
            def select(r, w, x, timeout=None):
                out = inner(r, w, x, timeout)
                if not out[0]:
                    net.clock.now += 1e-6
                return out
        self.select_module = _SelectModule
