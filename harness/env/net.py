"""A virtual-time lossy datagram network for rig's SCPConnection (C06).

One VirtualNet object stands in for three modules of rig.machine_control.scp_connection at once:

    socket  ->  net.socket(...) returns the fake socket, net.AF_INET / net.SOCK_DGRAM exist
    time    ->  net.time() is the virtual clock
    select  ->  net.select(r, w, x, timeout) advances the virtual clock

(`install(module)` substitutes the three attributes from outside, `uninstall()` restores them.)

The clock is a float number of seconds that is always a whole number of ticks (1 tick = `quantum` seconds, a
power of two, so all arithmetic rig does on it is exact).  Schedules, overshoots and the recorded events count
in ticks.  Time passes only inside select():

 * a datagram is receivable now                    -> select returns at once, socket ready;
 * the next datagram is due within the time-out    -> the clock jumps to its due time, socket ready;
 * otherwise                                        -> the clock jumps to now + timeout + overshoot, where the
   overshoot (a real select never returns early, it may return late) is taken from the schedule (`overs`,
   default 0).  A zero-time-out select that finds nothing for the second time in a row at the same instant
   costs one tick, so that the clock cannot stand still for ever (rig tests `deadline < now`, which needs the
   clock to move past the deadline).

The fate of every request datagram is decided, in order of transmission, by the schedule `fates`: a fate is
    [kind, [rc, delay], [rc, delay], ...]
one entry per reply datagram that will be delivered: with return code rc, `delay` ticks after the request was
sent.  No entry = nothing ever comes back (request lost, or reply lost).  Several entries = the reply is
duplicated.  `kind` is a label for humans and counters only.  When the schedule is used up, `default` applies,
or, if default is None, ScheduleExhausted is raised (the small-scope enumeration grows the schedule that way).

Replies are built by the codec given by the caller from the real packet classes; they echo the request's
sequence number and carry the identity (burst, command index) of the command they answer, so that the
callback's argument says which command it is the reply to.

Modelling assumption `lifetime` (default on): a reply is never delivered after its sequence number has been
re-issued to another command *as the protocol defines re-issue*: the environment runs the reference allocation
rule itself (a counter modulo seqmod that skips numbers of commands still unanswered) and, when that rule gives
a new command the number an earlier command had, discards every undelivered reply to the earlier command
(counted in `expired`).  For an implementation that follows the rule the reference number of every command is
the number it actually uses; an implementation that re-uses a number EARLIER than the rule allows (e.g. by
restarting its counter) is not protected by the assumption and meets the stale replies.

The clock may also be moved from outside with `sleep(seconds)` (a whole number of ticks): the driver does so inside
callbacks and inside lazy iterables of commands, which in reality take time; a deadline may therefore already lie
in the past when select() is next called.  Like the real select.select, select() raises ValueError when it is given
a negative time-out.  `start_reference(k)` starts the reference allocator at k (a connection that has already
issued k sequence numbers).

Everything observable is appended, in program order, to `events`:
    ["send", seq, cmd, burst, t, kind, ...]         a datagram handed to socket.send (... = whatever else the codec
                                                    reports about the request, e.g. "carries the command's data")
    ["select", timeout, t_before, t_after, ready]
    ["recv", seq, rc, t, burst, cmd]                a datagram returned by socket.recv (burst, cmd: whom it answers)
The caller appends its own events (burst / callback / raise / return / end) to the same list.

This module decides nothing about right or wrong: it is the environment and the recorder.
"""
import math


class ScheduleExhausted(BaseException):
    """the schedule has no fate for this transmission (not an Exception: rig must not swallow it)"""


class DidNotTerminate(BaseException):
    """more select() calls than the bound allows: the call under test is spinning"""


QUANTUM = 0.25


def tick(x, quantum=QUANTUM):
    """a virtual time in seconds as an integer number of ticks (mechanical)"""
    i = int(round(x / quantum))
    if i * quantum != x:
        raise AssertionError("virtual time %r is not a whole number of ticks" % (x,))
    return i


class FakeSocket(object):
    def __init__(self, net):
        self.net = net
        self.peer = None
        self.blocking = True
        self.closed = False

    def connect(self, addr):
        self.peer = addr

    def setblocking(self, flag):
        self.blocking = flag

    def settimeout(self, t):
        pass

    def fileno(self):
        return -1

    def close(self):
        self.closed = True

    def send(self, data):
        return self.net._send(bytes(data))

    def recv(self, n):
        return self.net._recv(n)


class VirtualNet(object):
    AF_INET, SOCK_DGRAM = 2, 2
    error = IOError

    def __init__(self, codec, fates=(), default=None, overs=(), lifetime=True, max_selects=4000, start=0,
                 quantum=QUANTUM, seqmod=65536):
        self.codec = codec              # .request(bytes) -> (seq, cmd, burst, ...); .reply(seq, rc, cmd, burst, txid) -> bytes
        self.fates = list(fates)
        self.default = default
        self.overs = list(overs)
        self.lifetime = lifetime
        self.max_selects = max_selects
        self.quantum = quantum
        self.now = float(start) * quantum
        self.events = []
        self.inflight = []              # [due, order, bytes, (seq, rc, cmd, burst)]
        self.order = 0
        self.ntx = 0
        self.nover = 0
        self.nselect = 0
        self.idle = None                # instant of the last fruitless zero-time-out select
        self.seen = set()               # (burst, cmd) transmitted at least once
        self.seqmod = seqmod
        self.ref_next = 0               # the reference allocator: next number to try
        self.ref_out = {}               # reference number -> (burst, cmd) still unanswered
        self.ref_of = {}                # (burst, cmd) -> reference number
        self.expired = 0
        self.used = []                  # fates actually applied, in order
        self.sockets = []
        self._saved = None

    # ------------------------------------------------------------------ the three modules
    def socket(self, *a):
        s = FakeSocket(self)
        self.sockets.append(s)
        return s

    def time(self):
        return self.now

    def tick(self, x):
        return tick(x, self.quantum)

    def seconds(self, ticks):
        return ticks * self.quantum

    def sleep(self, s):
        self.now += s

    def start_reference(self, k):
        self.ref_next = k % self.seqmod

    def select(self, r, w, x, timeout=None):
        self.nselect += 1
        if self.nselect > self.max_selects:
            raise DidNotTerminate()
        if timeout is not None and timeout < 0:
            # what the real select.select does with a negative time-out
            raise ValueError("timeout must be non-negative")
        # the time-out in whole ticks, rounded up (a select never returns early; the clock has a resolution)
        tq = 0 if timeout is None else max(0, int(math.ceil(timeout / self.quantum)))
        timeout = tq * self.quantum
        t0 = self.now
        due = [d[0] for d in self.inflight]
        if any(d <= self.now for d in due):
            pass
        elif due and min(due) <= self.now + timeout:
            self.now = min(due)
        else:
            over = 0
            if self.nover < len(self.overs):
                over = self.overs[self.nover]
            self.nover += 1
            if timeout == 0 and over == 0:
                if self.idle == self.now:
                    over = 1
                else:
                    self.idle = self.now
            self.now = self.now + timeout + over * self.quantum
        ready = any(d[0] <= self.now for d in self.inflight)
        self.events.append(["select", tq, self.tick(t0), self.tick(self.now), bool(ready)])
        return (list(r) if ready else []), [], []

    # ------------------------------------------------------------------ the socket's two ends
    def _send(self, data):
        req = self.codec.request(data)
        seq, cmd, burst = req[:3]
        if self.ntx < len(self.fates):
            fate = self.fates[self.ntx]
        elif self.default is not None:
            fate = self.default
        else:
            raise ScheduleExhausted()
        txid = self.ntx
        self.ntx += 1
        self.used.append(fate)
        if (burst, cmd) not in self.seen:
            self.seen.add((burst, cmd))
            # a new call on the connection: whatever the previous call left unanswered is abandoned
            for r, bc in list(self.ref_out.items()):
                if bc[0] != burst:
                    del self.ref_out[r]
            ref = self.ref_next
            while ref in self.ref_out:
                ref = (ref + 1) % self.seqmod
            self.ref_next = (ref + 1) % self.seqmod
            self.ref_out[ref] = (burst, cmd)
            self.ref_of[(burst, cmd)] = ref
            if self.lifetime:
                keep = [d for d in self.inflight
                        if not (self.ref_of.get((d[3][3], d[3][2])) == ref and (d[3][3], d[3][2]) != (burst, cmd))]
                self.expired += len(self.inflight) - len(keep)
                self.inflight = keep
        # (a codec may report more about the datagram than whom it is for - e.g. whether it carries, byte for byte,
        # the data the caller gave that command; whatever it reports is recorded after the label, not interpreted)
        self.events.append(["send", seq, cmd, burst, self.tick(self.now), fate[0]] + list(req[3:]))
        for rc, delay in fate[1:]:
            self.order += 1
            self.inflight.append([self.now + delay * self.quantum, self.order, self.codec.reply(seq, rc, cmd, burst, txid),
                                  (seq, rc, cmd, burst)])
        return len(data)

    def _recv(self, n):
        ready = [d for d in self.inflight if d[0] <= self.now]
        if not ready:
            raise IOError(11, "Resource temporarily unavailable")
        d = min(ready, key=lambda d: (d[0], d[1]))
        self.inflight.remove(d)
        seq, rc, cmd, burst = d[3]
        if rc == 0x80 and self.ref_out.get(self.ref_of.get((burst, cmd))) == (burst, cmd):
            del self.ref_out[self.ref_of[(burst, cmd)]]      # answered: its number may be given out again
        self.events.append(["recv", seq, rc, self.tick(self.now), burst, cmd])
        return d[2][:n]

    # ------------------------------------------------------------------ substitution from outside
    def install(self, module):
        self._saved = (module, module.socket, module.time, module.select)
        module.socket = self
        module.time = self
        module.select = self

    def uninstall(self):
        if self._saved:
            module, s, t, sel = self._saved
            module.socket, module.time, module.select = s, t, sel
            self._saved = None
