"""Environment of rig's command-line tools (rig/scripts): the hosts a tool can be pointed at, behind one scripted
network with virtual time.  Environment and recorder only - what a tool should have printed or sent is decided by
ScriptsTrace.tla.

 * BootableHost: a SpiNNaker board with an Ethernet connection.  Its SCP port answers through a simulated
   machine (env/probesim.py) when the board has been booted and stays silent before; its boot port records the
   boot datagrams and, when a complete image has arrived (start, every announced block, end), lets the board come
   up: the first `lag` version queries are answered from address (255, 255) - the board is up but the machine has
   not finished numbering its chips - afterwards from the chip's real address.  A `dud` board never comes up.
 * SilentHost: nothing answers at that address.
 * ScriptsBmp: a frame's board management processor (env/bmpsim.py) whose version reply carries a code block
   number and a build date that can be planted.
 * ScriptsNet: the network (ProbeNet) that finds the end point by host name AND port.
 * PingEnv: stands in for the `socket` module of rig.machine_control.unbooted_ping: an unbooted board broadcasts
   its "ping" at a planted (virtual) time, or never.
"""
import struct

from .bmpsim import BmpSim
from .probesim import ProbeNet

BOOT_PORT = 54321


def parse_boot_datagram(datagram):
    """(command, arg1, arg2, arg3, image bytes carried) of a boot datagram ("!H4I" header, data words big-endian)"""
    d = bytes(datagram)
    if len(d) < 18:
        return (-1, 0, 0, 0, b"")
    ver, cmd, a1, a2, a3 = struct.unpack("!H4I", d[:18])
    words = d[18:]
    data = b"".join(words[i:i + 4][::-1] for i in range(0, len(words) - len(words) % 4, 4))
    return (cmd, a1, a2, a3, data)


class _BootPort(object):
    def __init__(self, host):
        self.host = host

    def deliver(self, datagram):
        return self.host.boot_deliver(datagram)


class _BootRecorder(object):
    """the boot port of a host: records what arrives and puts the blocks of the image together"""

    def _init_boot(self):
        self.boot_log = []                  # (command, arg1, arg2, arg3, image bytes of the datagram)
        self.boot_port = _BootPort(self)
        self._blocks, self._announced = {}, None

    def boot_deliver(self, datagram):
        cmd, a1, a2, a3, data = rec = parse_boot_datagram(datagram)
        self.boot_log.append(rec)
        if cmd == 1:
            self._blocks, self._announced = {}, a3 + 1
        elif cmd == 3:
            self._blocks[a1 & 0xff] = data
        elif cmd == 5:
            if self._announced is not None and sorted(self._blocks) == list(range(self._announced)):
                self.image_complete()
        return []

    def image_complete(self):
        pass

    def image(self):
        return b"".join(self._blocks[k] for k in sorted(self._blocks))


class SilentHost(_BootRecorder):
    """nothing answers, whatever the port; what arrives is recorded"""

    def __init__(self, name):
        self.name = name
        self.log = []
        self._init_boot()

    def deliver(self, datagram):
        self.log.append(bytes(datagram))
        return []


class BootableHost(_BootRecorder):
    def __init__(self, name, sim, phase="booted", lag=0):
        self.name, self.sim = name, sim
        self.phase = phase                  # unbooted / dud / booted
        self.lag = lag                      # version queries still to be answered from (255, 255)
        self.real_address_given = False     # has a version query been answered from the real address since boot?
        self._init_boot()

    @property
    def log(self):
        return self.sim.log

    # ---- SCP port
    def deliver(self, datagram):
        if self.phase != "booted":
            return []
        replies = self.sim.deliver(datagram)
        if len(datagram) >= 14 and struct.unpack_from("<H", datagram, 10)[0] == 0:
            if self.lag > 0:
                self.lag -= 1
                # position of the answering core: the two top bytes of arg1 (x in the top byte)
                replies = [r[:16] + b"\xff\xff" + r[18:] for r in replies]
            else:
                self.real_address_given = True
        return replies

    # ---- boot port
    def image_complete(self):
        if self.phase == "unbooted":
            self.phase = "booted"
            self.real_address_given = False


class ScriptsBmp(BmpSim):
    def __init__(self, name, code_block=0, build_date=1400000000, **kw):
        BmpSim.__init__(self, name, **kw)
        self.code_block, self.build_date = code_block, build_date

    def deliver(self, datagram):
        replies = BmpSim.deliver(self, datagram)
        if len(datagram) >= 14 and struct.unpack_from("<H", datagram, 10)[0] == 0 and self.log:
            rec = self.log[-1]
            if rec.get("rc") == 0x80:
                a1 = (rec["reply_args"][0] & 0x00ffffff) | (self.code_block << 24)
                rec["reply_args"][0], rec["reply_args"][2] = a1, self.build_date
                replies = [r[:14] + struct.pack("<I", a1) + r[18:22] + struct.pack("<I", self.build_date) + r[26:]
                           for r in replies]
        return replies


class ScriptsNet(ProbeNet):
    """hosts: {name: SilentHost / BootableHost / BmpSim}; an unknown name is silent"""

    def __init__(self, hosts):
        self.nowhere = SilentHost("?")
        ProbeNet.__init__(self, self.nowhere)
        for name, h in hosts.items():
            self.machines[name] = h

    def machine_for(self, peer):
        h = self.machines.get(peer[0] if peer else None, self.nowhere)
        if peer and len(peer) > 1 and peer[1] == BOOT_PORT:
            return getattr(h, "boot_port", self.nowhere.boot_port)
        return h


class PingEnv(object):
    """`socket` module of the listener.  ping_at: seconds after the listener started at which a board's broadcast
    arrives (None: never), sender: (address, port) it comes from."""
    AF_INET, SOCK_DGRAM, SOL_SOCKET, SO_REUSEADDR, SO_BROADCAST = 2, 2, 1, 2, 6

    class timeout(IOError):
        pass
    error = IOError

    def __init__(self, clock, ping_at, sender):
        self.clock, self.ping_at, self.sender = clock, ping_at, sender
        self.bound = []
        self.timeouts = []
        env = self

        class _Sock(object):
            def __init__(self, *a):
                self.t = None

            def setsockopt(self, *a):
                pass

            def setblocking(self, flag):
                self.t = None if flag else 0.0

            def bind(self, addr):
                env.bound.append(addr)

            def settimeout(self, t):
                self.t = t
                env.timeouts.append(-1 if t is None else t)

            def close(self):
                pass

            def _wait(self):
                if env.ping_at is not None and (self.t is None or env.ping_at <= self.t):
                    env.clock.now += env.ping_at
                    env.ping_at = None
                    return True
                if self.t is None:
                    raise AssertionError("the listener waits for ever")
                env.clock.now += self.t
                if env.ping_at is not None:
                    env.ping_at -= self.t
                return False

            def recvfrom(self, n):
                if self._wait():
                    return (b"\0" * 8)[:n], env.sender
                raise env.timeout("timed out")

            def recv(self, n):
                return self.recvfrom(n)[0]
        self._Sock = _Sock

    def socket(self, *a):
        return self._Sock(*a)
