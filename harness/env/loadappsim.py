"""The simulated machine with the decision "which chips miss this flood fill" taken when the fill's END packet
arrives instead of at its start packet.

spinnaker_sim.SimMachine asks `miss(chip, pid)` at the start packet, when nothing but the fill identifier and the
block count is known.  The replay job of C09 must make the chips miss that TLC chose for "the fill of binary b in
attempt a", whatever order the loader sends the fills of an attempt in - and which binary a fill carries is known
only once its data has arrived.  A chip that misses a fill ignores all of it, and the only effect of a fill on a chip
that matters afterwards happens at the end packet, so dropping the chip's receiver just before the end packet is
processed is the same machine behaviour as dropping it at the start.

late_miss(image_bytes) -> iterable of chips (x, y) that missed the fill whose blocks reassemble to image_bytes.
applied: per fill started (in order), the sorted list of chips that were made to miss it.
"""
from .spinnaker_sim import SimMachine, NN_FFS, NN_FFE


class LateMissMachine(SimMachine):
    late_miss = None

    def __init__(self, *args, **kwargs):
        SimMachine.__init__(self, *args, **kwargs)
        self.applied = []

    def _cmd_20(self, chip, p, a, data, rec):
        op = a[0] >> 24
        if self.late_miss is not None and op == NN_FFS:
            self.applied.append([])
        elif self.late_miss is not None and op == NN_FFE:
            pid = a[0] & 0xff
            image = None
            for c in self.chips.values():
                if c.ff is not None and c.ff["pid"] == pid:
                    image = b"".join(c.ff["blocks"][i] for i in sorted(c.ff["blocks"]))
                    break
            gone = sorted(set(tuple(xy) for xy in self.late_miss(image))) if image is not None else []
            for xy in gone:
                if xy in self.chips:
                    self.chips[xy].ff = None
            if self.applied:
                self.applied[-1] = [list(xy) for xy in gone if xy in self.chips]
        return SimMachine._cmd_20(self, chip, p, a, data, rec)
