"""Glue between rig's real SCPConnection and the simulated machine: a fake `socket` module, `select` module and
`time` module (virtual clock) that are substituted into rig.machine_control.scp_connection from outside.

Datagram faults are decided by a `fate` callable: fate(n) for the n-th request datagram sent on the socket
returns one of "ok", "lose_request", "lose_reply", "dup_reply", "hold_reply" (the reply is delivered only after
the next request has been sent, i.e. out of order / late).  Default: everything "ok".
"""
import collections


class Clock(object):
    def __init__(self):
        self.now = 1000.0

    def time(self):
        return self.now

    def sleep(self, s):
        self.now += s


class FakeSocket(object):
    def __init__(self, net):
        self.net = net
        self.inbox = collections.deque()
        self.held = collections.deque()
        self.sent = 0
        self.peer = None

    # socket API used by SCPConnection
    def connect(self, addr):
        self.peer = addr

    def setblocking(self, flag):
        pass

    def settimeout(self, t):
        pass

    def close(self):
        pass

    def send(self, data):
        net = self.net
        n = self.sent
        self.sent += 1
        if not net.fate:
            fate = "ok"
        else:
            try:
                fate = net.fate(n, bytes(data))     # fate functions may look at the datagram (retransmissions repeat it)
            except TypeError:
                fate = net.fate(n)
        net.datagrams.append((self.peer, bytes(data), fate))
        # replies held back are released by the next transmission
        while self.held:
            self.inbox.append(self.held.popleft())
        if fate == "lose_request":
            return len(data)
        replies = net.machine_for(self.peer).deliver(bytes(data))
        if fate == "lose_reply":
            return len(data)
        for r in replies:
            if fate == "hold_reply":
                self.held.append(r)
            else:
                self.inbox.append(r)
                if fate == "dup_reply":
                    self.inbox.append(r)
        return len(data)

    def recv(self, n):
        if not self.inbox:
            raise IOError("would block")
        return self.inbox.popleft()[:n]


class SimNet(object):
    """install(scp_connection_module) substitutes socket/select/time; uninstall() restores them"""

    def __init__(self, machine, fate=None):
        self.machines = {None: machine}
        self.fate = fate
        self.clock = Clock()
        self.datagrams = []
        self.sockets = []
        self._saved = []
        net = self

        class _SocketModule(object):
            AF_INET, SOCK_DGRAM = 2, 2
            error = IOError

            @staticmethod
            def gethostbyname(name):           # dotted quads only: nothing is ever resolved
                return name

            @staticmethod
            def socket(*a):
                s = FakeSocket(net)
                net.sockets.append(s)
                return s
        self.socket_module = _SocketModule

        class _SelectModule(object):
            @staticmethod
            def select(r, w, x, timeout=None):
                ready = [s for s in r if s.inbox]
                if not ready:
                    # nothing will arrive by itself: advance virtual time to the deadline and release late replies
                    # (real time never stands still: a deadline that has been reached has also been passed)
                    net.clock.now += max(timeout or 0.0, 0.0) + 1e-6
                    for s in r:
                        while s.held:
                            s.inbox.append(s.held.popleft())
                return ready, [], []
        self.select_module = _SelectModule

    def machine_for(self, peer):
        return self.machines.get(peer[0] if peer else None, self.machines[None])

    def install(self, *modules):
        for m in modules:
            for attr, val in (("socket", self.socket_module), ("select", self.select_module), ("time", self.clock)):
                if hasattr(m, attr):
                    self._saved.append((m, attr, getattr(m, attr)))
                    setattr(m, attr, val)

    def uninstall(self):
        for m, attr, val in reversed(self._saved):
            setattr(m, attr, val)
        self._saved = []
