"""A network on which unbooted SpiNNaker boards announce themselves, with virtual time - the environment of
rig.machine_control.unbooted_ping.listen (and of rig.wizard's auto-detection).  No real socket is ever opened:
the `socket` attribute of the module under test is replaced by `PingNet.socket_module`.

A source is [address, destination port, time of its first datagram (ms), period (ms; 0 = one datagram only)].
A bound UDP socket hears the datagrams sent to its port after it was bound; `recvfrom` / `recv` advance the clock to
the arrival of the next one, or by the socket's time-out.
"""
import socket as _real_socket


class BlockedForEver(Exception):
    """a blocking receive that no datagram will ever end"""


class PingSocket(object):
    def __init__(self, net, family, kind):
        self.net = net
        self.udp = (kind == _real_socket.SOCK_DGRAM)
        self.timeout = None
        self.bound = None            # (address, port, time of binding)
        self.last = None
        net.sockets.append(self)

    def setsockopt(self, *a):
        pass

    def setblocking(self, flag):
        self.timeout = None if flag else 0.0

    def settimeout(self, t):
        self.timeout = t

    def gettimeout(self):
        return self.timeout

    def bind(self, addr):
        self.bound = (addr[0], addr[1], self.net.now)
        self.last = self.net.now
        self.net.binds.append([str(addr[0]), int(addr[1])])

    def close(self):
        self.bound = None

    def fileno(self):
        return 1000 + self.net.sockets.index(self)

    def _next(self):
        """(time, source) of the next datagram this socket hears, or None"""
        if not (self.udp and self.bound and self.bound[0] in ("", "0.0.0.0")):
            return None
        best = None
        for (ip, port, first, period) in self.net.sources:
            if port != self.bound[1]:
                continue
            if first > self.last:
                t = first
            elif period <= 0:
                continue
            else:
                t = first + ((self.last - first) // period + 1) * period
            if best is None or t < best[0]:
                best = (t, ip)
        return best

    def recvfrom(self, n):
        nxt = self._next()
        if self.timeout is None:
            if nxt is None:
                raise BlockedForEver()
            deadline = nxt[0]
        else:
            deadline = self.net.now + int(round(self.timeout * 1000))
        if nxt is not None and nxt[0] <= deadline:
            self.net.now = max(self.net.now, nxt[0])
            self.last = nxt[0]
            return b"\x00" * min(n, 18), (nxt[1], 54321)
        self.net.now = max(self.net.now, deadline)
        if self.timeout == 0.0:
            raise BlockingIOError(11, "Resource temporarily unavailable")
        raise self.net.socket_module.timeout("timed out")

    def recv(self, n):
        return self.recvfrom(n)[0]


class PingNet(object):
    def __init__(self, sources):
        self.sources = [tuple(s) for s in sources]
        self.now = 0                  # virtual time, ms
        self.sockets = []
        self.binds = []
        net = self

        class _SocketModule(object):
            """the attributes of the socket module that a UDP listener uses; everything else comes from the real
            module (constants, exception classes), `socket` itself never does"""
            timeout = _real_socket.timeout
            error = _real_socket.error

            def __getattr__(self, name):
                if name in ("socket", "create_connection", "socketpair", "getaddrinfo", "gethostbyname"):
                    raise AttributeError(name)
                return getattr(_real_socket, name)

            @staticmethod
            def socket(family=_real_socket.AF_INET, kind=_real_socket.SOCK_STREAM, *a):
                return PingSocket(net, family, kind)
        self.socket_module = _SocketModule()
        self._saved = []

    def install(self, *modules):
        for m in modules:
            self._saved.append((m, m.socket))
            m.socket = self.socket_module

    def uninstall(self):
        for m, s in self._saved:
            m.socket = s
        self._saved = []
